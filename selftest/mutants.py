"""Scratch-copy variants used by selftest/run.py (see its docstring)."""
VARIANTS = []


def V(id, props, file, old, new, rule=None, count=1):
    VARIANTS.append(dict(id=id, props=props if isinstance(props, list) else [props],
                         file=file, old=old, new=new, expect="V", rule=rule,
                         count=count))


def OK(id, props, file, old, new, count=1):
    VARIANTS.append(dict(id=id, props=props if isinstance(props, list) else [props],
                         file=file, old=old, new=new, expect="OK", count=count))


# ------------------------------------------------------------------ C01
V("c01-drop-node-id", "C01", "sigver.py",
  "                        node_id=item.id,\n", "", rule="R2")
V("c01-node-id-other", "C01", "sigver.py",
  "node_id=item.id,", "node_id=origdoc,", rule="R2")
V("c01-verify-response-test-assertion", "C01", "sigver.py",
  "        if response.signature:\n            if 'do_not_verify'",
  "        if response.assertion and response.assertion[0].signature:\n            if 'do_not_verify'",
  rule="R2")
V("c01-classname-other", "C01", "response.py",
  "self.sec.check_signature(assertion, class_name(assertion),",
  "self.sec.check_signature(assertion, class_name(self.response),", rule="R2")
V("c01-remove-ref-restriction", "C01", "sigver.py",
  "            '--enabled-reference-uris', 'empty,same-doc',\n", "", rule="R2")
V("c01-ref-guard-neq", "C01", "sigver.py",
  "and reference_uri == '#{id}'.format(id=item.id)):",
  "and reference_uri != '#{id}'.format(id=item.id)):", rule="R3")
V("c01-ref-guard-startswith", "C01", "sigver.py",
  "and reference_uri == '#{id}'.format(id=item.id)):",
  "and (reference_uri or '').startswith('#')):", rule="R3")
V("c01-ref-guard-any-count", "C01", "sigver.py",
  "single_reference = len(references) == 1",
  "single_reference = len(references) >= 1", rule="R3")
V("c01-ref-guard-log-only", "C01", "sigver.py",
  "            raise SignatureError(\n                'Signature failed to meet constraints on xmldsig: the signature '",
  "            logger.error(\n                'Signature failed to meet constraints on xmldsig: the signature '",
  rule="R3")
V("c01-swallow-in-loads", "C01", "response.py",
  "                **args)\n\n        except TypeError:\n            raise\n        except SignatureError:\n            raise\n        except Exception as excp:\n            logger.exception(\"EXCEPTION: %s\", excp)\n            raise\n",
  "                **args)\n\n        except TypeError:\n            raise\n        except SignatureError:\n            raise\n        except Exception as excp:\n            logger.exception(\"EXCEPTION: %s\", excp)\n",
  rule="R8")
V("c01-do-not-verify-true", "C01", "response.py",
  "self.do_not_verify = False", "self.do_not_verify = True", rule="R6")
V("c01-plain-loop-verified", "C01", "response.py",
  "if not self._assertion(assertion, False):",
  "if not self._assertion(assertion, True):", rule="R6")
V("c01-verified-default-true", "C01", "sigver.py",
  "        verified = False\n        last_pem_file = None",
  "        verified = True\n        last_pem_file = None", rule="R7")
V("c01-accept-on-else", "C01", "sigver.py",
  "        else:\n            raise SignatureError('Failed to verify signature')",
  "        else:\n            logger.error('Failed to verify signature')", rule="R7")
V("c01-check-only-if-must", "C01", "sigver.py",
  "            if 'do_not_verify' in kwargs:\n                pass\n            else:",
  "            if 'do_not_verify' in kwargs or not require_response_signature:\n                pass\n            else:",
  rule="R5")
V("c01-assertion-check-only-if-required", "C01", "response.py",
  "if not verified and self.do_not_verify is False:",
  "if not verified and self.do_not_verify is False and self.require_signature:",
  rule="R5")
V("c01-new-verify-caller", "C01", "response.py",
  "    def session_id(self):",
  "    def quick_ok(self, txt):\n        return self.sec.verify_signature(txt)\n\n    def session_id(self):",
  rule="R1")
V("c01-xmlsec-error-break", "C01", "sigver.py",
  "                logger.error('check_sig: %s', exc)\n                pass\n",
  "                logger.error('check_sig: %s', exc)\n                verified = True\n",
  rule="R7")
OK("c01-benign-kw-reorder", "C01", "sigver.py",
   "                        node_name=node_name,\n                        node_id=item.id,\n",
   "                        node_id=item.id,\n                        node_name=node_name,\n")
OK("c01-benign-extra-logging-handler", "C01", "response.py",
   "                **args)\n\n        except TypeError:\n            raise\n        except SignatureError:\n            raise\n",
   "                **args)\n\n        except TypeError:\n            raise\n        except SignatureError as sigerr:\n            logger.warning('bad signature: %s', sigerr)\n            raise\n")
OK("c01-benign-guard-rewrite", "C01", "sigver.py",
   "        if not (single_reference\n                and item.id\n                and reference_uri == '#{id}'.format(id=item.id)):",
   "        expected_uri = '#{id}'.format(id=item.id)\n        if not item.id or not single_reference or expected_uri != reference_uri:")

# ------------------------------------------------------------------ C02
V("c02-handler-tests-attribute", "C02", "entity.py",
  "        except SigverError as err:\n            if require_response_signature:",
  "        except SigverError as err:\n            if response.require_response_signature is False:",
  rule="R4")
V("c02-signed-flag-in-finally", "C02", "entity.py",
  "        else:\n            response_is_signed = True\n        finally:\n            response.require_response_signature = require_response_signature",
  "        finally:\n            response_is_signed = True\n            response.require_response_signature = require_response_signature",
  rule="R4")
V("c02-retry-removed", "C02", "entity.py",
  "                response.require_signature = require_signature\n                response = response.verify(keys)\n        else:",
  "                response.require_signature = require_signature\n        else:",
  rule="R4")
V("c02-no-restore", "C02", "entity.py",
  "        finally:\n            response.require_signature = require_signature\n", "        finally:\n            pass\n",
  rule="R4")
V("c02-options-swapped", "C02", "response.py",
  "        self.require_signature = want_assertions_signed\n        self.require_signature_or_response_signature = want_assertions_or_response_signed",
  "        self.require_signature = want_assertions_or_response_signed\n        self.require_signature_or_response_signature = want_assertions_signed",
  rule="R1")
V("c02-default-flipped", "C02", "client_base.py",
  '"want_response_signed": True,', '"want_response_signed": False,', rule="R1")
V("c02-kwargs-wrong-option", "C02", "client_base.py",
  '"want_assertions_signed": self.want_assertions_signed,',
  '"want_assertions_signed": self.want_response_signed,', rule="R1")
V("c02-either-or-weakened", "C02", "entity.py",
  "if not response_is_signed and not assertions_are_signed:",
  "if not response_is_signed and assertions_are_signed:", rule="R5")
V("c02-either-or-dropped-neg", "C02", "entity.py",
  "if not response_is_signed and not assertions_are_signed:",
  "if response_is_signed and not assertions_are_signed:", rule="R5")
V("c02-missing-sig-guard-must", "C02", "sigver.py",
  "        elif require_response_signature:\n            raise SignatureError('Signature missing for response')",
  "        elif require_response_signature and must:\n            raise SignatureError('Signature missing for response')",
  rule="R2")
V("c02-assertion-required-not-raised", "C02", "response.py",
  "            if self.require_signature:\n                raise SignatureError(\"Signature missing for assertion\")",
  "            if self.require_signature and self.require_response_signature:\n                raise SignatureError(\"Signature missing for assertion\")",
  rule="R2")
V("c02-loads-forwards-other-flag", "C02", "response.py",
  "require_response_signature=self.require_response_signature,",
  "require_response_signature=self.require_signature,", rule="R2")
V("c02-required-swallowed", "C02", "entity.py",
  "            if require_signature:\n                logger.error(\"Signature Error: %s\", err)\n                raise\n",
  "            if require_signature:\n                logger.error(\"Signature Error: %s\", err)\n",
  rule="R4")
OK("c02-benign-either-or-rewrite", "C02", "entity.py",
   "if not response_is_signed and not assertions_are_signed:",
   "if not (response_is_signed or assertions_are_signed):")
OK("c02-benign-log-change", "C02", "entity.py",
   'logger.error("Signature Error: %s", err)', 'logger.warning("Signature error %s", err)',
   count=2)

# ------------------------------------------------------------------ C03
V("c03-use-any", "C03", "sigver.py",
  "self.metadata.certs(_issuer, 'any', 'signing')",
  "self.metadata.certs(_issuer, 'any', 'any')", rule="R1")
V("c03-use-default-removed", "C03", "sigver.py",
  "self.metadata.certs(_issuer, 'any', 'signing')",
  "self.metadata.certs(_issuer, 'any', use='encryption')", rule="R1")
V("c03-fallback-ignores-setting", "C03", "sigver.py",
  "if not certs and not self.only_use_keys_in_metadata:", "if not certs:",
  rule="R2")
V("c03-fallback-always", "C03", "sigver.py",
  "if not certs and not self.only_use_keys_in_metadata:",
  "if not self.only_use_keys_in_metadata:", rule="R2")
V("c03-missingkey-removed", "C03", "sigver.py",
  "        if not certs:\n            raise MissingKey(_issuer)\n",
  "        if not certs:\n            logger.error('no key for %s', _issuer)\n",
  rule="R3")
V("c03-filter-neq", "C03", "mdstore.py",
  'if "use" in key and key["use"] == use:', 'if "use" in key and key["use"] != use:',
  rule="R6")
V("c03-filter-dropped", "C03", "mdstore.py",
  'if "use" in key and key["use"] == use:', 'if "use" in key:', rule="R6")
V("c03-issuer-from-param-first", "C03", "sigver.py",
  "        try:\n            _issuer = item.issuer.text.strip()\n        except AttributeError:\n            _issuer = None\n\n        if _issuer is None:",
  "        try:\n            _issuer = item.issuer.text.strip()\n        except AttributeError:\n            _issuer = None\n\n        if issuer is not None:",
  rule="R4")
V("c03-default-flipped", "C03", "config.py",
  "self.only_use_keys_in_metadata = True", "self.only_use_keys_in_metadata = False",
  rule="R5")
V("c03-ctx-ignores-setting", "C03", "sigver.py",
  "        self.only_use_keys_in_metadata = only_use_keys_in_metadata",
  "        self.only_use_keys_in_metadata = False", rule="R5")
V("c03-extra-cert-source", "C03", "sigver.py",
  "        if not certs:\n            raise MissingKey(_issuer)\n",
  "        if not certs:\n            certs = [(None, self.cert_file)]\n        if not certs:\n            raise MissingKey(_issuer)\n",
  rule="R1")
V("c03-other-entity", "C03", "mdstore.py",
  "        ent = self[entity_id]\n\n        def extract_certs",
  "        ent = self[entity_id] if entity_id in self else list(self.entity.values())[0]\n\n        def extract_certs",
  rule="R6")
OK("c03-benign-filter-get", "C03", "mdstore.py",
   'if "use" in key and key["use"] == use:', 'if "use" in key and use == key["use"]:')

# ------------------------------------------------------------------ C04
V("c04-nooa-flipped", "C04", "validate.py",
  "if now > nooa + slack:", "if now < nooa + slack:", rule="R1")
V("c04-nooa-slack-sign", "C04", "validate.py",
  "if now > nooa + slack:", "if now > nooa - slack:", rule="R1")
V("c04-nooa-slack-dropped", "C04", "validate.py",
  "if now > nooa + slack:", "if now > nooa:", rule="R1")
V("c04-before-flipped", "C04", "validate.py",
  "if nbefore > now + slack:", "if nbefore < now + slack:", rule="R1")
V("c04-before-slack-wrong-side", "C04", "validate.py",
  "if nbefore > now + slack:", "if nbefore + slack > now:", rule="R1")
V("c04-window-two-days", "C04", "response.py",
  "        upper = time_util.shift_time(time_util.time_in_a_while(days=1),\n                                     self.timeslack).timetuple()\n        lower = time_util.shift_time(time_util.time_a_while_ago(days=1),\n                                     -self.timeslack).timetuple()",
  "        upper = time_util.shift_time(time_util.time_in_a_while(days=2),\n                                     self.timeslack).timetuple()\n        lower = time_util.shift_time(time_util.time_a_while_ago(days=1),\n                                     -self.timeslack).timetuple()",
  rule="R1")
V("c04-window-lower-slack-sign", "C04", "response.py",
  "                                     -self.timeslack).timetuple()",
  "                                     self.timeslack).timetuple()", rule="R1")
V("c04-window-one-sided", "C04", "response.py",
  "        return lower < issued_at < upper", "        return issued_at < upper",
  rule="R1")
V("c04-request-window-or", "C04", "request.py",
  "return issued_at > lower and issued_at < upper",
  "return issued_at > lower or issued_at < upper", rule="R1")
V("c04-later-than-flipped", "C04", "time_util.py",
  "    return after >= before", "    return after <= before", rule="R1")
V("c04-before-flipped-timeutil", "C04", "time_util.py",
  "    return time.gmtime() <= point", "    return time.gmtime() >= point", rule="R1")
V("c04-helper-summary-broken", "C04", "time_util.py",
  "    return dtime + timedelta(seconds=shift)", "    return dtime - timedelta(seconds=shift)",
  rule="R1")
V("c04-drop-validate-before", "C04", "response.py",
  "            if conditions.not_before:\n                validate_before(conditions.not_before, self.timeslack)\n",
  "", rule="R2")
V("c04-cond-nooa-only-if-required", "C04", "response.py",
  "            if conditions.not_on_or_after:\n                self.not_on_or_after",
  "            if conditions.not_on_or_after and self.require_signature:\n                self.not_on_or_after",
  rule="R2")
V("c04-slack-constant", "C04", "response.py",
  "validate_before(data.not_before, self.timeslack)",
  "validate_before(data.not_before, 3600)", rule="R2")
V("c04-bearer-skip-nooa", "C04", "response.py",
  "        validate_on_or_after(data.not_on_or_after, self.timeslack)\n", "", rule="R2")
V("c04-condition-result-ignored", "C04", "response.py",
  "        if not self.condition_ok():\n            raise VerificationError(\"Condition not OK\")",
  "        self.condition_ok()", rule="R2")
V("c04-later-than-ignored", "C04", "response.py",
  "            if not later_than(conditions.not_on_or_after,\n                              conditions.not_before):\n                return False",
  "            if not later_than(conditions.not_on_or_after,\n                              conditions.not_before):\n                logger.warning('inverted window')",
  rule="R2")
V("c04-session-unchecked", "C04", "response.py",
  "            if validate_on_or_after(authn_statement.session_not_on_or_after,\n                                    self.timeslack):",
  "            if authn_statement.session_not_on_or_after:", rule="R2")
V("c04-issue-instant-not-asserted", "C04", "response.py",
  "        assert self.issue_instant_ok()\n        assert self.status_ok()",
  "        self.issue_instant_ok()\n        assert self.status_ok()", rule="R2")
V("c04-lax-default-true", "C04", "response.py",
  "    def condition_ok(self, lax=False):\n        if not self.assertion.conditions:",
  "    def condition_ok(self, lax=True):\n        if not self.assertion.conditions:", rule="R4")
V("c04-test-true-in-client", "C04", "client_base.py",
  '"valid_destination_regex": self.valid_destination_regex,\n        }',
  '"valid_destination_regex": self.valid_destination_regex,\n            "test": True,\n        }',
  rule="R4") if False else None
V("c04-handler-swallows", "C04", "response.py",
  "            if not lax:\n                raise\n            else:\n                self.not_on_or_after = 0",
  "            self.not_on_or_after = 0", rule="R4")
V("c04-timeslack-ignored", "C04", "entity.py",
  'kwargs["timeslack"] = self.config.accepted_time_diff',
  'kwargs["timeslack"] = 3600 * 24', rule="R3")
V("c04-session-info-swapped", "C04", "response.py",
  "        if self.session_not_on_or_after > 0:\n            nooa = self.session_not_on_or_after\n        else:\n            nooa = self.not_on_or_after",
  "        if self.session_not_on_or_after > 0:\n            nooa = self.not_on_or_after\n        else:\n            nooa = self.session_not_on_or_after",
  rule="R6")
V("c04-session-info-always-conditions", "C04", "response.py",
  "        if self.session_not_on_or_after > 0:\n            nooa = self.session_not_on_or_after\n        else:\n            nooa = self.not_on_or_after",
  "        nooa = self.not_on_or_after", rule="R6")
V("c04-new-override", "C04", "response.py",
  "        self.context = \"AttrQuery\"\n",
  "        self.context = \"AttrQuery\"\n\n    def condition_ok(self, lax=False):\n        return True\n",
  rule="R4")
OK("c04-benign-compare-rewrite", "C04", "validate.py",
   "if now > nooa + slack:", "if nooa + slack < now:")
OK("c04-benign-compare-moved-term", "C04", "validate.py",
   "if nbefore > now + slack:", "if nbefore - slack > now:")
OK("c04-benign-window-unchained", "C04", "response.py",
   "        return lower < issued_at < upper",
   "        return lower < issued_at and issued_at < upper")

# ------------------------------------------------------------------ C05
V("c05-unsolicited-else-removed", "C05", "response.py",
  "            else:\n                logger.exception(\n                    \"Unsolicited response %s\" % self.in_response_to)\n                raise UnsolicitedResponse(\n                    \"Unsolicited response: %s\" % self.in_response_to)\n\n        return self",
  "            else:\n                logger.exception(\n                    \"Unsolicited response %s\" % self.in_response_to)\n\n        return self",
  rule="R1")
V("c05-allow-unsolicited-inverted", "C05", "response.py",
  "            elif self.allow_unsolicited:\n                # Should check that I haven't seen this before",
  "            elif not self.allow_unsolicited:\n                # Should check that I haven't seen this before",
  rule="R1")
V("c05-scd-neq", "C05", "response.py",
  "assert _sc.subject_confirmation_data.in_response_to == irp",
  "assert _sc.subject_confirmation_data.in_response_to != irp", rule="R2")
V("c05-scd-exists-shape", "C05", "response.py",
  "                try:\n                    assert _sc.subject_confirmation_data.in_response_to == irp\n                except AssertionError:\n                    return False\n\n        return True",
  "                if _sc.subject_confirmation_data.in_response_to == irp:\n                    return True\n\n        return False",
  rule="R2")
V("c05-scd-result-ignored", "C05", "response.py",
  "                    if not self.check_subject_confirmation_in_response_to(\n                            self.in_response_to):\n                        logger.exception(\n                            \"Unsolicited response %s\" % self.in_response_to)\n                        raise UnsolicitedResponse(\n                            \"Unsolicited response: %s\" % self.in_response_to)",
  "                    if not self.check_subject_confirmation_in_response_to(\n                            self.in_response_to):\n                        logger.exception(\n                            \"Unsolicited response %s\" % self.in_response_to)",
  rule="R2")
V("c05-destination-under-unsolicited", "C05", "response.py",
  "        if self.asynchop:\n            if not self._validate_destination():\n                return None",
  "        if self.asynchop and not getattr(self, 'allow_unsolicited', False):\n            if not self._validate_destination():\n                return None",
  rule="R3")
V("c05-destination-in-flipped", "C05", "response.py",
  "elif self.response.destination not in self.return_addrs:",
  "elif self.response.destination in self.return_addrs:", rule="R3")
V("c05-destination-ignored", "C05", "response.py",
  "            if not self._validate_destination():\n                return None",
  "            if not self._validate_destination():\n                logger.error('bad destination')",
  rule="R3")
V("c05-regex-match-inverted", "C05", "response.py",
  "                if not does_match:\n", "                if does_match:\n", rule="R3")
V("c05-audience-under-unsolicited", "C05", "response.py",
  "        if not for_me(conditions, self.entity_id):\n            if not lax:\n                raise Exception(\"Not for me!!!\")",
  "        if not self.allow_unsolicited:\n            if not for_me(conditions, self.entity_id):\n                if not lax:\n                    raise Exception(\"Not for me!!!\")",
  rule="R4")
V("c05-audience-not-raised", "C05", "response.py",
  "            if not lax:\n                raise Exception(\"Not for me!!!\")",
  "            logger.error(\"Not for me!!!\")", rule="R4")
V("c05-for-me-any", "C05", "response.py",
  "            if audience.text.strip() == myself:\n                break\n        else:\n            # print(\"Not for me: %s\" % myself)\n            return False\n\n    return True",
  "            if audience.text.strip() == myself:\n                return True\n\n    return False",
  rule="R5")
V("c05-for-me-startswith", "C05", "response.py",
  "if audience.text.strip() == myself:", "if audience.text.strip().startswith(myself):",
  rule="R5")
V("c05-recipient-not-verified", "C05", "response.py",
  "if not _recip or not self.verify_recipient(_recip):", "if not _recip:", rule="R6")
V("c05-recipient-any-true", "C05", "response.py",
  "            if recipient in self.return_addrs:\n                return True\n        except KeyError:\n            pass\n\n        return False",
  "            if recipient in self.return_addrs:\n                return True\n        except KeyError:\n            pass\n\n        return True",
  rule="R6")
V("c05-return-addrs-all-bindings", "C05", "entity.py",
  "                kwargs[\"return_addrs\"] = self.config.endpoint(\n                        service,\n                        binding=binding,",
  "                kwargs[\"return_addrs\"] = self.config.endpoint(\n                        service,\n                        binding=None,",
  rule="R7")
V("c05-came-from-gate-removed", "C05", "response.py",
  "                elif self.came_from is None:\n                    raise VerificationError(\"Came from\")",
  "                elif self.came_from is None:\n                    logger.info(\"Came from\")",
  rule="R8")
OK("c05-benign-for-me-all-any", "C05", "response.py",
   "    for restriction in conditions.audience_restriction:\n        if not restriction.audience:\n            return False\n        for audience in restriction.audience:\n            if audience.text.strip() == myself:\n                break\n        else:\n            # print(\"Not for me: %s\" % myself)\n            return False\n\n    return True",
   "    return all(any(audience.text.strip() == myself\n                   for audience in restriction.audience or [])\n               for restriction in conditions.audience_restriction)")

# ------------------------------------------------------------------ C06
V("c06-table-entry-removed", "C06", "response.py",
  "    STATUS_NO_PASSIVE: StatusNoPassive,\n", "", rule="R1")
V("c06-table-wrong-class", "C06", "response.py",
  "    STATUS_NO_PASSIVE: StatusNoPassive,", "    STATUS_NO_PASSIVE: StatusAuthnFailed,",
  rule="R1")
V("c06-neq-to-eq", "C06", "response.py",
  "if status.status_code.value != samlp.STATUS_SUCCESS:",
  "if status.status_code.value == samlp.STATUS_SUCCESS:", rule="R2")
V("c06-compare-other-constant", "C06", "response.py",
  "if status.status_code.value != samlp.STATUS_SUCCESS:",
  "if status.status_code.value == samlp.STATUS_RESPONDER:", rule="R2")
V("c06-no-raise", "C06", "response.py",
  "                raise excep(\n                    \"%s from %s\" % (msg, status.status_code.value,))",
  "                logger.error(\n                    \"%s from %s\" % (msg, status.status_code.value,))",
  rule="R2")
V("c06-missing-status-ok", "C06", "response.py",
  "        else:\n            raise StatusError(\"Missing status in response\")\n", "", rule="R2")
V("c06-status-ok-not-asserted", "C06", "response.py",
  "        assert self.status_ok()\n        return self", "        return self", rule="R3")
V("c06-status-only-async", "C06", "response.py",
  "        assert self.issue_instant_ok()\n        assert self.status_ok()\n        return self",
  "        assert self.issue_instant_ok()\n        if self.asynchop:\n            assert self.status_ok()\n        return self",
  rule="R3")
V("c06-version-check-dropped", "C06", "response.py",
  "            assert self.response.version == \"2.0\"", "            assert self.response.version",
  rule="R4")
V("c06-request-version-dropped", "C06", "request.py",
  "        assert self.message.version == \"2.0\"\n", "", rule="R4")
V("c06-verify-catches-statuserror", "C06", "response.py",
  "        try:\n            res = self._verify()\n        except AssertionError as err:\n            logger.error(\"Verification error on the response: %s\", err)\n            raise",
  "        try:\n            res = self._verify()\n        except StatusError as err:\n            res = self\n        except AssertionError as err:\n            logger.error(\"Verification error on the response: %s\", err)\n            raise",
  rule="R5")
V("c06-client-swallows-statuserror", "C06", "client_base.py",
  "        except StatusError as err:\n            logger.error(\"SAML status error: %s\", err)\n            raise",
  "        except StatusError as err:\n            logger.error(\"SAML status error: %s\", err)\n            resp = None",
  rule="R5")
OK("c06-benign-eq-else", "C06", "response.py",
   "        assert self.issue_instant_ok()\n        assert self.status_ok()\n        return self",
   "        assert self.status_ok()\n        assert self.issue_instant_ok()\n        return self")

# ------------------------------------------------------------------ C07
V("c07-apply-policy-removed", "C07", "server.py",
  "        try:\n            ast.apply_policy(sp_entity_id, policy, self.metadata)\n        except MissingValue as exc:\n            if not best_effort:\n                return self.create_error_response(in_response_to, consumer_url,\n                                                  exc, sign_response)\n",
  "", rule="R1")
V("c07-apply-policy-only-if-metadata", "C07", "server.py",
  "        try:\n            ast.apply_policy(sp_entity_id, policy, self.metadata)\n        except MissingValue as exc:",
  "        try:\n            if self.metadata:\n                ast.apply_policy(sp_entity_id, policy, self.metadata)\n        except MissingValue as exc:",
  rule="R1")
V("c07-handler-broadened", "C07", "server.py",
  "        except MissingValue as exc:\n            if not best_effort:",
  "        except Exception as exc:\n            if not best_effort:", rule="R1")
V("c07-arms-swapped", "C07", "assertion.py",
  "            if key in ava:\n                self[key] = ava[key]\n            else:\n                del self[key]",
  "            if key not in ava:\n                self[key] = val\n            else:\n                self[key] = ava[key]",
  rule="R2")
V("c07-drop-arm-removed", "C07", "assertion.py",
  "            if key in ava:\n                self[key] = ava[key]\n            else:\n                del self[key]",
  "            if key in ava:\n                self[key] = ava[key]", rule="R2")
V("c07-unrestricted-kept", "C07", "assertion.py",
  "        except KeyError:\n            del ava[attr]\n        else:\n            if _rests is None:",
  "        except KeyError:\n            continue\n        else:\n            if _rests is None:",
  rule="R3")
V("c07-nomatch-kept", "C07", "assertion.py",
  "            if rvals:\n                ava[attr] = list(set(rvals))\n            else:\n                del ava[attr]",
  "            if rvals:\n                ava[attr] = list(set(rvals))", rule="R3")
V("c07-match-ignored", "C07", "assertion.py",
  "                    if restr.match(val):\n                        rvals.append(val)",
  "                    rvals.append(val)", rule="R3")
V("c07-filter-values-all", "C07", "assertion.py",
  "    for val in vlist:\n        if val in vals:\n            res.append(val)",
  "    for val in vlist:\n        res.append(val)", rule="R3")
V("c07-filter-result-ignored", "C07", "assertion.py",
  "            _ava = filter_attribute_value_assertions(_ava, _rest)\n        elif _ava is None:",
  "            filter_attribute_value_assertions(_ava.copy(), _rest)\n        elif _ava is None:",
  rule="R4")
V("c07-restrictions-only-without-ec", "C07", "assertion.py",
  "        _rest = self.get_attribute_restrictions(sp_entity_id)\n        if _rest:",
  "        _rest = self.get_attribute_restrictions(sp_entity_id)\n        if _rest and _ava is None:",
  rule="R4")
V("c07-filter-returns-input", "C07", "assertion.py",
  "        if _ava is None:\n            return {}\n        else:\n            return _ava",
  "        if not _ava:\n            return ava\n        else:\n            return _ava",
  rule="R4")
V("c07-error-branch-removed", "C07", "server.py",
  "            if not best_effort:\n                return self.create_error_response(in_response_to, consumer_url,\n                                                  exc, sign_response)",
  "            logger.error('missing value: %s', exc)", rule="R5")
V("c07-new-unfiltered-construction", "C07", "server.py",
  "    def gather_authn_response_args(self,",
  "    def quick_assertion(self, identity, sp_entity_id, policy):\n        ast = Assertion(identity)\n        return ast.construct(sp_entity_id, self.config.attribute_converters,\n                             policy, issuer=self._issuer(), farg={'subject': {}})\n\n    def gather_authn_response_args(self,",
  rule="R1")
OK("c07-benign-commit-rewrite", "C07", "assertion.py",
   "            if key in ava:\n                self[key] = ava[key]\n            else:\n                del self[key]",
   "            if not key in ava:\n                del self[key]\n            else:\n                self[key] = ava[key]")

# ------------------------------------------------------------------ C09
V("c09-url-startswith", "C09", "entity.py",
  "                            if srv[\"location\"] == _url:\n                                return binding, _url",
  "                            if _url.startswith(srv[\"location\"]):\n                                return binding, _url",
  rule="R1")
V("c09-return-url-when-no-match", "C09", "entity.py",
  "                            if srv[\"location\"] == _url:\n                                return binding, _url\n",
  "                            if srv[\"location\"] == _url:\n                                return binding, _url\n                        return binding, _url\n",
  rule="R1")
V("c09-url-without-metadata", "C09", "entity.py",
  "        for binding in bindings:\n            try:\n                srvs = sfunc(entity_id, binding, descr_type)",
  "        if _url:\n            return bindings[0], _url\n        for binding in bindings:\n            try:\n                srvs = sfunc(entity_id, binding, descr_type)",
  rule="R1")
V("c09-index-neq", "C09", "entity.py",
  "if srv[\"index\"] == _index:", "if srv[\"index\"] != _index:", rule="R1")
V("c09-catch-unknown-entity", "C09", "entity.py",
  "            except UnsupportedBinding:\n                pass\n\n        logger.error(\"Failed to find consumer URL",
  "            except (UnsupportedBinding, Exception):\n                pass\n\n        logger.error(\"Failed to find consumer URL",
  rule="R2")
V("c09-raise-removed", "C09", "entity.py",
  "        raise SAMLError(\"Unknown entity or unsupported bindings\")\n\n    def message_args",
  "        return bindings[0], _url\n\n    def message_args", rule="R1")
V("c09-other-entity-metadata", "C09", "entity.py",
  "                srvs = sfunc(entity_id, binding, descr_type)",
  "                srvs = sfunc(self.config.entityid, binding, descr_type)", rule="R1")
V("c09-response-args-destination-from-request", "C09", "entity.py",
  "            info[\"binding\"] = binding\n            info[\"destination\"] = destination\n\n        return info",
  "            info[\"binding\"] = binding\n            info[\"destination\"] = getattr(message, 'assertion_consumer_service_url', None) or destination\n\n        return info",
  rule="R3")
V("c09-store-unknown-as-unsupported", "C09", "mdstore.py",
  "            srvs = _md.service(entity_id, typ, service, binding)\n            if srvs:\n                return srvs\n            elif srvs is None:\n                pass\n            else:\n                known_entity = True",
  "            srvs = _md.service(entity_id, typ, service, binding)\n            if srvs:\n                return srvs\n            else:\n                known_entity = True", rule="R4")
V("c09-store-binding-filter-dropped", "C09", "mdstore.py",
  "                if srv[\"binding\"] == binding:\n                    res.append(srv)\n        else:\n            res = {}",
  "                res.append(srv)\n        else:\n            res = {}", rule="R4")
OK("c09-benign-eq-swapped", "C09", "entity.py",
   "if srv[\"location\"] == _url:", "if _url == srv[\"location\"]:")

# ------------------------------------------------------------------ C10
V("c10-verify-skipped", "C10", "entity.py",
  "        if _request:\n            _request = _request.verify()\n            _log_debug(\"Verified request\")",
  "        if _request and binding != BINDING_SOAP:\n            _request = _request.verify()\n            _log_debug(\"Verified request\")",
  rule="R1")
V("c10-must-hardcoded-false", "C10", "entity.py",
  "        must = self.config.getattr(\"want_authn_requests_signed\", \"idp\")",
  "        must = False", rule="R2")
V("c10-must-wrong-option", "C10", "entity.py",
  "        must = self.config.getattr(\"want_authn_requests_signed\", \"idp\")",
  "        must = self.config.getattr(\"sign_response\", \"idp\")", rule="R2")
V("c10-empty-message-ok", "C10", "request.py",
  "        if not self.message:\n            logger.error(\"Response was not correctly signed\")\n            logger.info(\"Response: %s\", xmldata)\n            raise IncorrectlySigned()",
  "        if not self.message:\n            logger.error(\"Response was not correctly signed\")\n            logger.info(\"Response: %s\", xmldata)",
  rule="R3")
V("c10-handler-parses-anyway", "C10", "request.py",
  "        except Exception as excp:\n            logger.info(\"EXCEPTION: %s\", excp)\n",
  "        except Exception as excp:\n            logger.info(\"EXCEPTION: %s\", excp)\n            from saml2_tophat import samlp\n            self.message = samlp.authn_request_from_string(xmldata)\n",
  rule="R3")
V("c10-validation-dropped", "C10", "request.py",
  "        try:\n            valid_instance(self.message)\n        except NotValid as exc:\n            logger.error(\"Not valid request: %s\", exc.args[0])\n            raise\n",
  "", rule="R3")
V("c10-notvalid-swallowed", "C10", "request.py",
  "            logger.error(\"Not valid request: %s\", exc.args[0])\n            raise\n",
  "            logger.error(\"Not valid request: %s\", exc.args[0])\n", rule="R3")
V("c10-wrong-parser", "C10", "sigver.py",
  "return self.correctly_signed_message(decoded_xml, 'logout_request', must, origdoc, only_valid_cert)",
  "return self.correctly_signed_message(decoded_xml, 'logout_response', must, origdoc, only_valid_cert)",
  rule="R4")
V("c10-class-keeps-dummy", "C10", "request.py",
  "        self.signature_check = self.sec.correctly_signed_attribute_query\n", "", rule="R4")
V("c10-must-not-forwarded", "C10", "sigver.py",
  "return self.correctly_signed_message(decoded_xml, 'attribute_query', must, origdoc, only_valid_cert)",
  "return self.correctly_signed_message(decoded_xml, 'attribute_query', False, origdoc, only_valid_cert)",
  rule="R4")
V("c10-unsigned-must-returns", "C10", "sigver.py",
  "            if must:\n                err_msg = 'Required signature missing on {type}'",
  "            if must and origdoc:\n                err_msg = 'Required signature missing on {type}'",
  rule="R5")
V("c10-destination-check-removed", "C10", "request.py",
  "            raise OtherError(\"Not destined for me!\")", "            pass", rule="R6")
V("c10-destination-in-flipped", "C10", "request.py",
  "                self.message.destination not in self.receiver_addrs:",
  "                self.message.destination in self.receiver_addrs:", rule="R6")
V("c10-issue-instant-dropped", "C10", "request.py",
  "        assert self.issue_instant_ok()\n        return self", "        return self", rule="R6")
V("c10-receiver-addrs-all", "C10", "entity.py",
  "        receiver_addresses = self.config.endpoint(service, binding,\n                                                  self.entity_type)",
  "        receiver_addresses = self.config.endpoint(service, None,\n                                                  self.entity_type)",
  rule="R8")
V("c10-verify-catches-all", "C10", "request.py",
  "        except AssertionError:\n            return None\n\n    def subject_id",
  "        except Exception:\n            return self\n\n    def subject_id", rule="R9")
OK("c10-benign-must-rename", "C10", "entity.py",
   "_log_debug(\"Loaded request\")", "_log_debug(\"Loaded the request\")")

# ------------------------------------------------------------------ C11
V("c11-stdlib-fromstring-soap", "C11", "soap.py",
  "        envelope = defusedxml.ElementTree.fromstring(text)\n    except Exception as exc:\n        raise XmlParseError(\"%s\" % exc)\n\n    assert envelope.tag == '{%s}Envelope' % soapenv.NAMESPACE\n    assert len(envelope) >= 1\n    content",
  "        envelope = ElementTree.fromstring(text)\n    except Exception as exc:\n        raise XmlParseError(\"%s\" % exc)\n\n    assert envelope.tag == '{%s}Envelope' % soapenv.NAMESPACE\n    assert len(envelope) >= 1\n    content",
  rule="R1")
V("c11-minidom-in-mdstore", "C11", "mdstore.py",
  "    def parse(self, xmlstr):\n        self.entities_descr",
  "    def peek(self, xmlstr):\n        import xml.dom.minidom\n        return xml.dom.minidom.parseString(xmlstr).documentElement.tagName\n\n    def parse(self, xmlstr):\n        self.entities_descr",
  rule="R1")
V("c11-from-import-alias", "C11", "pack.py",
  "import defusedxml.ElementTree\n",
  "import defusedxml.ElementTree\nfrom xml.etree.ElementTree import fromstring as _fs\n\n\ndef quick_tag(text):\n    return _fs(text).tag\n",
  rule="R1")
V("c11-xmlparser-custom", "C11", "__init__.py",
  "    tree = defusedxml.ElementTree.fromstring(xml_string)\n    return create_class_from_element_tree(target_class, tree)",
  "    tree = defusedxml.ElementTree.fromstring(xml_string, parser=ElementTree.XMLParser())\n    return create_class_from_element_tree(target_class, tree)",
  rule="R1")
V("c11-forbid-entities-off", "C11", "__init__.py",
  "    element_tree = defusedxml.ElementTree.fromstring(xml_string)",
  "    element_tree = defusedxml.ElementTree.fromstring(xml_string, forbid_entities=False)",
  rule="R1")
V("c11-lxml-in-response", "C11", "response.py",
  "    def session_id(self):",
  "    def pretty(self):\n        import lxml.etree\n        return lxml.etree.tostring(lxml.etree.fromstring(self.xmlstr), pretty_print=True)\n\n    def session_id(self):",
  rule="R1")
V("c11-from-string-bypasses-funnel", "C11", "samlp.py",
  "def status_message_from_string(xml_string):\n    return saml2_tophat.create_class_from_xml_string(StatusMessage, xml_string)",
  "def status_message_from_string(xml_string):\n    from xml.etree import ElementTree as _ET\n    return saml2_tophat.create_class_from_element_tree(StatusMessage, _ET.fromstring(xml_string))",
  rule="R1")
V("c11-parse-error-swallowed", "C11", "soap.py",
  "    try:\n        envelope = defusedxml.ElementTree.fromstring(text)\n    except Exception as exc:\n        raise XmlParseError(\"%s\" % exc)\n\n    assert envelope.tag == '{%s}Envelope' % soapenv.NAMESPACE\n    assert len(envelope) >= 1\n    env =",
  "    try:\n        envelope = defusedxml.ElementTree.fromstring(text)\n    except Exception as exc:\n        envelope = ElementTree.Element('{%s}Envelope' % soapenv.NAMESPACE)\n\n    assert envelope.tag == '{%s}Envelope' % soapenv.NAMESPACE\n    env =",
  rule="R5")
OK("c11-benign-new-defused-site", "C11", "mdstore.py",
   "    def parse(self, xmlstr):\n        self.entities_descr",
   "    def peek(self, xmlstr):\n        import defusedxml.ElementTree\n        return defusedxml.ElementTree.fromstring(xmlstr).tag\n\n    def parse(self, xmlstr):\n        self.entities_descr")
OK("c11-benign-more-serialising", "C11", "soap.py",
   "def parse_soap_enveloped_saml_thingy(text, expected_tags):",
   "def dump_element(elem):\n    return ElementTree.tostring(elem, encoding=\"UTF-8\")\n\n\ndef parse_soap_enveloped_saml_thingy(text, expected_tags):")

# ------------------------------------------------------------------ C12
V("c12-child-key-wrong-ns", "C12", "saml.py",
  "c_children['{urn:oasis:names:tc:SAML:2.0:assertion}SubjectLocality'] = (",
  "c_children['{urn:oasis:names:tc:SAML:2.0:protocol}SubjectLocality'] = (", rule="T1")
V("c12-child-order-drops-member", "C12", "samlp.py",
  "    c_child_order.extend(['issuer', 'signature', 'extensions', 'status'])",
  "    c_child_order.extend(['issuer', 'signature', 'extensions'])", rule="T2")
V("c12-ctor-forgets-member", "C12", "samlp.py",
  "        self.status = status\n", "", rule="T4")
V("c12-element-by-tag-wrong", "C12", "samlp.py",
  "    'Response': Response,", "    'Response': LogoutResponse,", rule="T5")
V("c12-extension-fallback-removed", "C12", "__init__.py",
  "        else:\n            ExtensionContainer._convert_element_tree_to_member(self, child_tree)",
  "        else:\n            pass", rule="E1")
V("c12-ext-attr-fallback-removed", "C12", "__init__.py",
  "            ExtensionContainer._convert_element_attribute_to_member(\n                self, attribute, value)",
  "            pass", rule="E1")
V("c12-writer-skips-extensions", "C12", "__init__.py",
  "        ExtensionContainer._add_members_to_element_tree(self, tree)\n\n    def become_child_element_of",
  "        tree.text = self.text\n\n    def become_child_element_of", rule="E2")
V("c12-text-not-read", "C12", "__init__.py",
  "            self._convert_element_attribute_to_member(attribute, value)\n        self.text = tree.text",
  "            self._convert_element_attribute_to_member(attribute, value)", rule="E1")
V("c12-late-binding-wrong-ns-again", "C12", "xmlenc/__init__.py",
  "    _key_info_class.c_children['{%s}EncryptedKey' % NAMESPACE] = (",
  "    _key_info_class.c_children['{%s}EncryptedKey' % ds.NAMESPACE] = (", rule="T1")
V("c12-dup-member-name", "C12", "md.py",
  "    c_attributes['isDefault'] = ('is_default', 'boolean', False)",
  "    c_attributes['isDefault'] = ('index', 'boolean', False)", rule="T3", count=2)
OK("c12-benign-docstring", "C12", "__init__.py",
   "        # Find the element's tag in this class's list of child members",
   "        # Look the element's tag up in this class's table of child members")

# ------------------------------------------------------------------ C13
V("c13-type-name-typo", "C13", "validate.py",
  "        return VALIDATOR.get(typ, valid_string)(value)", "        return VALIDATOR[typ](value)",
  rule="V1")
V("c13-cardinality-wrong-member", "C13", "saml.py",
  "    c_cardinality['audience_restriction'] = {\"min\": 0}",
  "    c_cardinality['audience_restrictions'] = {\"min\": 0}", rule="V2")
V("c13-min-gt-max", "C13", "samlp.py",
  "    c_cardinality['status_detail'] = {\"min\": 0, \"max\": 1}",
  "    c_cardinality['status_detail'] = {\"min\": 2, \"max\": 1}", rule="V3")
V("c13-required-not-enforced", "C13", "validate.py",
  "        if required and not value:\n            txt = \"Required value on property '%s' missing\" % name\n            raise MustValueError(\"Class '%s' instance: %s\" % (class_name, txt))",
  "        if required and not value:\n            txt = \"Required value on property '%s' missing\" % name\n            logger = None",
  rule="V4")
V("c13-max-not-enforced", "C13", "validate.py",
  "                if _cmax is not None and vlen > _cmax:", "                if _cmax is not None and vlen > _cmax + 1:",
  rule="V4")
V("c13-min-flipped", "C13", "validate.py",
  "                if _cmin is not None and _cmin > vlen:", "                if _cmin is not None and _cmin < vlen:",
  rule="V4")
V("c13-no-recursion-into-lists", "C13", "validate.py",
  "                for val in value:\n                    # That it is the right class is handled elsewhere\n                    _valid_instance(instance, val)",
  "                pass", rule="V4")
V("c13-typed-only-if-required", "C13", "validate.py",
  "        if value:\n            try:\n                if isinstance(typ, type):",
  "        if value and required:\n            try:\n                if isinstance(typ, type):",
  rule="V4")
V("c13-absent-min-ignored", "C13", "validate.py",
  "            if _cmin:\n                raise NotValid(", "            if _cmin and _cmax:\n                raise NotValid(",
  rule="V4")
V("c13-override-no-delegate", "C13", "saml.py",
  "            assert len(self.proxy_restriction) == 1\n\n        return SamlBase.verify(self)",
  "            assert len(self.proxy_restriction) == 1\n\n        return True", rule="V5")
V("c13-boolean-accepts-all", "C13", "validate.py",
  "    if vall in [\"true\", \"false\", \"0\", \"1\"]:\n        return True\n    else:\n        raise NotValid(\"boolean\")",
  "    return True", rule="V6")
V("c13-validator-table-swap", "C13", "validate.py",
  "    \"boolean\": valid_boolean,", "    \"boolean\": valid_string,", rule="V6")
V("c13-datetime-swallow", "C13", "validate.py",
  "        time_util.str_to_time(item)\n    except Exception:\n        raise NotValid(\"dateTime\")",
  "        time_util.str_to_time(item)\n    except Exception:\n        pass", rule="V6")
V("c13-positive-sign", "C13", "validate.py",
  "    if integer > 0:\n        return True", "    if integer >= 0:\n        return True", rule="V6")
V("c13-response-not-validated", "C13", "response.py",
  "        try:\n            valid_instance(self.response)\n        except NotValid as exc:\n            logger.error(\"Not valid response: %s\", exc.args[0])\n            self._clear()\n            return self\n",
  "", rule="V7")
V("c13-invalid-response-kept", "C13", "response.py",
  "            logger.error(\"Not valid response: %s\", exc.args[0])\n            self._clear()\n            return self",
  "            logger.error(\"Not valid response: %s\", exc.args[0])", rule="V7")
OK("c13-benign-message-text", "C13", "validate.py",
   '"less then min (%s<%s)"', '"fewer than min (%s<%s)"')

# ------------------------------------------------------------------ C14
V("c14-relay-state-unescaped", "C14", "pack.py",
  "                val=html.escape(relay_state),", "                val=relay_state,", rule="H2")
V("c14-message-quote-false", "C14", "pack.py",
  "            val=html.escape(_msg),", "            val=html.escape(_msg, quote=False),", rule="H2")
V("c14-form-spec-used", "C14", "client_base.py",
  "    def _relay_state(self, session_id):",
  "    def legacy_form(self, location, req, rs):\n        return FORM_SPEC % (location, req, rs)\n\n    def _relay_state(self, session_id):",
  rule="H1")
V("c14-new-template", "C14", "pack.py",
  "DUMMY_NAMESPACE = \"http://example.org/\"",
  "LINK_SPEC = '<a href=\"{url}\">{label}</a>'\nDUMMY_NAMESPACE = \"http://example.org/\"",
  rule="H1")
V("c14-relay-manual-append", "C14", "pack.py",
  "    glue_char = \"&\" if urlparse(location).query else \"?\"\n    login_url = glue_char.join([location, string])",
  "    glue_char = \"&\" if urlparse(location).query else \"?\"\n    login_url = glue_char.join([location, string])\n    if relay_state and 'RelayState' not in string:\n        login_url += '&RelayState=' + relay_state",
  rule="U1")
V("c14-glue-always-question", "C14", "pack.py",
  "    glue_char = \"&\" if urlparse(location).query else \"?\"", "    glue_char = \"?\"", rule="U1")
V("c14-artifact-no-urlencode", "C14", "httpbase.py",
  "            query = urlencode({\"SAMLart\": message,\n                               \"RelayState\": relay_state})",
  "            query = \"SAMLart=%s&RelayState=%s\" % (message, relay_state)", rule="U1")
V("c14-inflate-wbits-positive", "C14", "s_utils.py",
  "    return zlib.decompress(base64.b64decode(string), -15)",
  "    return zlib.decompress(base64.b64decode(string), 15)", rule="P2")
V("c14-encoder-keeps-header", "C14", "s_utils.py",
  "    return base64.b64encode(zlib.compress(string_val)[2:-4])",
  "    return base64.b64encode(zlib.compress(string_val))", rule="P2")
V("c14-post-decoder-inflates", "C14", "entity.py",
  "                elif binding == BINDING_HTTP_POST:\n                    xmlstr = base64.b64decode(txt)",
  "                elif binding == BINDING_HTTP_POST:\n                    xmlstr = decode_base64_and_inflate(txt)",
  rule="P1")
V("c14-redirect-uses-post-encoder", "C14", "entity.py",
  "            info = self.use_http_get(msg_str, destination, relay_state, typ,\n                                     signer=signer, **kwargs)",
  "            info = self.use_http_post(msg_str, destination, relay_state, typ)", rule="P1")
V("c14-soap-tag-check-removed", "C14", "soap.py",
  "    if saml_part.tag in expected_tags:\n        return ElementTree.tostring(saml_part, encoding=\"UTF-8\")\n    else:\n        raise WrongMessageType(\"Was '%s' expected one of %s\" % (saml_part.tag,\n                                                                expected_tags))",
  "    return ElementTree.tostring(saml_part, encoding=\"UTF-8\")", rule="S1")
V("c14-soap-decoder-removed", "C14", "soap.py",
  "def parse_soap_enveloped_saml_authn_query(text):\n    expected_tag = '{%s}AuthnQuery' % SAMLP_NAMESPACE\n    return parse_soap_enveloped_saml_thingy(text, [expected_tag])\n",
  "", rule="S2")
V("c14-soap-decoder-wrong-tag", "C14", "soap.py",
  "    expected_tag = '{%s}LogoutRequest' % SAMLP_NAMESPACE", "    expected_tag = '{%s}LogoutResponse' % SAMLP_NAMESPACE",
  rule="S2")
OK("c14-benign-escape-import-alias", "C14", "pack.py",
   "                val=html.escape(relay_state),", "                val=html.escape(relay_state, quote=True),")

# ------------------------------------------------------------------ C15
V("c15-shared-signer-again", "C15", "sigver.py",
  "            if sigkey:\n                signer = RSASigner(signer.digest, sigkey)\n            else:\n                signer = RSASigner(signer.digest, self.key)",
  "            if sigkey:\n                signer.key = sigkey\n            else:\n                signer.key = self.key",
  rule="R1")
V("c15-shared-signer-via-get", "C15", "sigver.py",
  "    def get_signer(self, sigalg, sigkey=None):",
  "    def rekey(self, sigalg):\n        obj = SIGNER_ALGS.get(sigalg)\n        if obj is not None:\n            obj.key = self.key\n        return obj\n\n    def get_signer(self, sigalg, sigkey=None):",
  rule="R1")
V("c15-signer-key-none", "C15", "sigver.py",
  "                signer = RSASigner(signer.digest, self.key)", "                signer = RSASigner(signer.digest, None)",
  rule="R2")
V("c15-foreign-key-in-apply-binding", "C15", "entity.py",
  "                signer = self.sec.sec_backend.get_signer(sigalg)",
  "                signer = self.sec.sec_backend.get_signer(sigalg, kwargs.get('sigkey'))", rule="R2")
V("c15-verifier-order-differs", "C15", "sigver.py",
  "                [urlencode({k: _args[k]}) for k in _order if k in\n                 _args]).encode('ascii')",
  "                [urlencode({k: _args[k]}) for k in sorted(_args)]).encode('ascii')", rule="R3")
V("c15-signer-skips-relaystate", "C15", "pack.py",
  "        string = \"&\".join([urlencode({k: args[k]})\n                           for k in _order if k in args]).encode('ascii')",
  "        string = \"&\".join([urlencode({k: args[k]})\n                           for k in _order if k in args and k != 'RelayState']).encode('ascii')",
  rule="R3")
V("c15-order-table-changed", "C15", "sigver.py",
  "RESP_ORDER = [\n    'SAMLResponse',\n    'RelayState',\n    'SigAlg',\n]",
  "RESP_ORDER = [\n    'SAMLResponse',\n    'SigAlg',\n]", rule="R3")
V("c15-signature-not-removed", "C15", "sigver.py",
  "            del _args['Signature']  # everything but the signature\n", "", rule="R3")
V("c15-verdict-default-true", "C15", "sigver.py",
  "            return bool(signer.verify(string, _sign, _key))",
  "            return bool(signer.verify(string, _sign, _key)) or not _key", rule="R4")
V("c15-unknown-alg-true", "C15", "sigver.py",
  "            return bool(signer.verify(string, _sign, _key))\n",
  "            return bool(signer.verify(string, _sign, _key))\n        return True\n", rule="R4")
V("c15-key-verify-swallow-true", "C15", "cryptography/asymmetric.py",
  "    except Exception as e:\n        return False\n    else:\n        return True",
  "    except Exception as e:\n        pass\n    return True", rule="R4")
V("c15-assert-removed", "C15", "pack.py",
  "        assert sigalg in [b for a, b in SIG_ALLOWED_ALG]\n", "", rule="R5")
OK("c15-benign-signer-copy-rewrite", "C15", "sigver.py",
   "            if sigkey:\n                signer = RSASigner(signer.digest, sigkey)\n            else:\n                signer = RSASigner(signer.digest, self.key)",
   "            signer = RSASigner(signer.digest, sigkey if sigkey else self.key)")

# ------------------------------------------------------------------ C16
V("c16-accessor-wrong-service", "C16", "mdstore.py",
  "        return self.service(entity_id, \"idpsso_descriptor\",\n                            \"single_sign_on_service\", binding)",
  "        return self.service(entity_id, \"idpsso_descriptor\",\n                            \"single_signon_service\", binding)", rule="M1", count=2)
V("c16-accessor-wrong-descriptor", "C16", "mdstore.py",
  "        return self.service(entity_id, \"spsso_descriptor\",\n                            \"assertion_consumer_service\", binding)",
  "        return self.service(entity_id, \"idpsso_descriptor\",\n                            \"assertion_consumer_service\", binding)", rule="M1")
V("c16-providers-key-again", "C16", "mdstore.py",
  "        return self._providers(\"attribute_authority_descriptor\")", "        return self._providers(\"attribute_authority\")",
  rule="M1")
V("c16-certs-wrong-key", "C16", "mdstore.py",
  "for dat in key[\"key_info\"][\"x509_data\"]:", "for dat in key[\"keyinfo\"][\"x509_data\"]:", rule="M1", count=2)
V("c16-validity-check-inverted", "C16", "mdstore.py",
  "                if not valid(entity_descr.valid_until):\n                    logger.error(\"Entity descriptor",
  "                if valid(entity_descr.valid_until):\n                    logger.error(\"Entity descriptor", rule="M2")
V("c16-expired-entity-kept", "C16", "mdstore.py",
  "                    self.to_old.append(entity_descr.entity_id)\n                    return\n",
  "                    self.to_old.append(entity_descr.entity_id)\n", rule="M2")
V("c16-expired-document-loaded", "C16", "mdstore.py",
  "                        raise ToOld(\n                            \"Metadata not valid anymore, it's only valid \"\n                            \"until %s\" % (\n                                self.entities_descr.valid_until,))",
  "                        logger.error(\n                            \"Metadata not valid anymore, it's only valid \"\n                            \"until %s\" % (\n                                self.entities_descr.valid_until,))",
  rule="M2")
V("c16-check-validity-default-off", "C16", "mdstore.py",
  "    def __init__(self, attrc, metadata=\"\", node_name=None,\n                 check_validity=True, security=None, **kwargs):",
  "    def __init__(self, attrc, metadata=\"\", node_name=None,\n                 check_validity=False, security=None, **kwargs):", rule="M2")
V("c16-duplicate-overwrites", "C16", "mdstore.py",
  "                  entity_descr.entity_id, file=sys.stderr)\n            return\n",
  "                  entity_descr.entity_id, file=sys.stderr)\n", rule="M6")
V("c16-invalid-sig-true", "C16", "mdstore.py",
  "                return True\n            else:\n                return False\n        else:\n            return True",
  "                return True\n            else:\n                return True\n        else:\n            return True", rule="M5")
V("c16-new-discarding-caller", "C16", "mdstore.py",
  "    def imp(self, spec):",
  "    def reload(self, key):\n        _md = self.metadata[key]\n        _md.load()\n\n    def imp(self, spec):",
  rule="M5")
V("c16-attr-req-other-entity", "C16", "mdstore.py",
  "            for sp in self[entity_id][\"spsso_descriptor\"]:", "            for sp in list(self.entity.values())[0][\"spsso_descriptor\"]:",
  rule="M4")
OK("c16-benign-log", "C16", "mdstore.py",
   "logger.error(\"Unknown system entity: %s\", entity_id)", "logger.warning(\"Unknown system entity: %s\", entity_id)")

# ------------------------------------------------------------------ C17
V("c17-encrypt-before-sign", "C17", "entity.py",
  "                if to_sign_assertion:\n                    response = signed_instance_factory(response, self.sec,\n                                                       to_sign_assertion)\n                response = self._encrypt_assertion(encrypt_cert_assertion,\n                                                   sp_entity_id, response)",
  "                response = self._encrypt_assertion(encrypt_cert_assertion,\n                                                   sp_entity_id, response)\n                if to_sign_assertion:\n                    response = signed_instance_factory(response, self.sec,\n                                                       to_sign_assertion)",
  rule="R1")
V("c17-response-signed-before-encrypt", "C17", "entity.py",
  "                if to_sign_assertion:\n                    response = signed_instance_factory(response, self.sec,\n                                                       to_sign_assertion)\n                response = self._encrypt_assertion(encrypt_cert_assertion,",
  "                if to_sign_assertion:\n                    response = signed_instance_factory(response, self.sec,\n                                                       to_sign_assertion)\n                if sign:\n                    return signed_instance_factory(response, self.sec, sign_class)\n                response = self._encrypt_assertion(encrypt_cert_assertion,",
  rule="R1") if False else None
V("c17-encrypted-result-dropped", "C17", "entity.py",
  "                response = self._encrypt_assertion(encrypt_cert_assertion,\n                                                   sp_entity_id, response)",
  "                self._encrypt_assertion(encrypt_cert_assertion,\n                                        sp_entity_id, response)", rule="R1")
V("c17-clear-copy-kept", "C17", "sigver.py",
  "    assertion = response.assertion\n    response.assertion = None\n", "    assertion = response.assertion\n", rule="R2")
V("c17-advice-not-cleared", "C17", "entity.py",
  "                    _assertion.advice.assertion = []\n", "", rule="R2")
V("c17-empty-output-ok", "C17", "sigver.py",
  "        os.unlink(fil)\n        if not output:\n            raise EncryptError(_stderr)\n", "        os.unlink(fil)\n", rule="R3")
V("c17-encrypt-failure-swallowed", "C17", "entity.py",
  "        if exception:\n            raise exception\n        return response", "        return response", rule="R3")
V("c17-decrypted-not-checked", "C17", "response.py",
  "            for assertion in _enc_assertions:\n                if not self._assertion(assertion, True):\n                    return False\n                else:\n                    self.assertions.append(assertion)",
  "            for assertion in _enc_assertions:\n                self.assertions.append(assertion)", rule="R4")
V("c17-decrypted-sig-result-ignored", "C17", "response.py",
  "                            logger.error(\"Failed to verify signature on '%s'\",\n                                         assertion)\n                            raise SignatureError()",
  "                            logger.error(\"Failed to verify signature on '%s'\",\n                                         assertion)", rule="R4")
V("c17-decrypt-returns-empty", "C17", "sigver.py",
  "                _enctext = self.crypto.decrypt(enctext, key_file, id_attr)\n                if _enctext is not None and len(_enctext) > 0:\n                    return _enctext\n\n        return enctext\n\n    def decrypt(self,",
  "                _enctext = self.crypto.decrypt(enctext, key_file, id_attr)\n                if _enctext is not None:\n                    return _enctext\n\n        return enctext\n\n    def decrypt(self,",
  rule="R6")
V("c17-identity-from-response", "C17", "response.py",
  "        ava = {}\n        for _assertion in self.assertions:", "        ava = {}\n        for _assertion in (self.assertions or self.response.assertion):",
  rule="R6")
OK("c17-benign-log", "C17", "entity.py",
   'logger.info("REQUEST: %s", msg)', 'logger.debug("REQUEST: %s", msg)')

# ------------------------------------------------------------------ C18
V("c18-unicode-again", "C18", "ident.py",
  "        if six.PY2 and isinstance(sid, six.text_type):", "        if isinstance(sid, unicode):", rule="R6")
V("c18-store-no-reverse", "C18", "ident.py",
  "        self.db[ident] = \" \".join(val)\n        self.db[name_id.text] = ident",
  "        self.db[ident] = \" \".join(val)", rule="R1")
V("c18-store-overwrites", "C18", "ident.py",
  "        try:\n            val = self.db[ident].split(\" \")\n        except KeyError:\n            val = []\n\n        _cn = code(name_id)",
  "        val = []\n\n        _cn = code(name_id)", rule="R1")
V("c18-remove-remote-keeps-reverse", "C18", "ident.py",
  "        except KeyError:\n            pass\n\n        del self.db[name_id.text]\n", "        except KeyError:\n            pass\n", rule="R1")
V("c18-remove-local-keeps-reverse", "C18", "ident.py",
  "                    nid = decode(val)\n                    del self.db[nid.text]", "                    nid = decode(val)",
  rule="R1")
V("c18-outside-writer", "C18", "server.py",
  "    def close(self):", "    def forget(self, uid):\n        del self.ident.db[uid]\n\n    def close(self):", rule="R1")
V("c18-quote-safe-comma", "C18", "ident.py",
  "            _res.append(\"%d=%s\" % (i, quote(val)))", "            _res.append(\"%d=%s\" % (i, quote(val, safe='/,=')))",
  rule="R2")
V("c18-no-quote", "C18", "ident.py",
  "            _res.append(\"%d=%s\" % (i, quote(val)))", "            _res.append(\"%d=%s\" % (i, val))", rule="R2")
V("c18-index-only-when-set", "C18", "ident.py",
  "            _res.append(\"%d=%s\" % (i, quote(val)))\n        i += 1", "            _res.append(\"%d=%s\" % (i, quote(val)))\n            i += 1",
  rule="R2")
V("c18-attr-order-changed", "C18", "ident.py",
  "ATTR = [\"name_qualifier\", \"sp_name_qualifier\", \"format\", \"sp_provided_id\",\n        \"text\"]",
  "ATTR = [\"name_qualifier\", \"sp_name_qualifier\", \"format\", \"text\"]", rule="R2")
V("c18-id-not-random", "C18", "ident.py",
  "        _id = sha256(rndbytes(32))", "        _id = sha256(b'pysaml2')", rule="R3")
V("c18-no-collision-retry", "C18", "ident.py",
  "        while _id in self.db:\n            _id = self._create_id(nformat, name_qualifier, sp_name_qualifier)\n", "", rule="R3")
V("c18-persistent-always-new", "C18", "ident.py",
  "        nameid = self.match_local_id(userid, sp_name_qualifier, name_qualifier)\n        if nameid:\n            return nameid\n        else:\n            return self.get_nameid(",
  "        if True:\n            return self.get_nameid(", rule="R4")
V("c18-match-ignores-sp", "C18", "ident.py",
  "                if snq and snq == sp_name_qualifier:", "                if snq:", rule="R4")
V("c18-match-returns-transient", "C18", "ident.py",
  "                if nid.format == NAMEID_FORMAT_TRANSIENT:\n                    continue\n", "", rule="R4")
V("c18-mni-no-remove", "C18", "ident.py",
  "        self.remove_remote(orig_name_id)\n        self.store(_id, name_id)", "        self.store(_id, name_id)", rule="R5")
V("c18-mni-copy-after-mutation", "C18", "ident.py",
  "        orig_name_id = copy.copy(name_id)\n\n        if new_id:\n            name_id.sp_provided_id = new_id.text",
  "        if new_id:\n            name_id.sp_provided_id = new_id.text\n        orig_name_id = copy.copy(name_id)\n        if new_id:\n            pass",
  rule="R5")
OK("c18-benign-docstring", "C18", "ident.py",
   "        # One user may have more than one NameID defined", "        # A user may own several NameIDs")

# ------------------------------------------------------------------ C19
V("c19-key-by-text", "C19", "cache.py",
  "        cni = code(name_id)\n        (timestamp, info) = self._db[cni][entity_id]\n        info = info.copy()",
  "        cni = name_id.text\n        (timestamp, info) = self._db[cni][entity_id]\n        info = info.copy()", rule="R1")
V("c19-outside-access", "C19", "population.py",
  "    def sources(self, name_id):", "    def dump(self):\n        return dict(self.cache._db)\n\n    def sources(self, name_id):",
  rule="R1")
V("c19-population-other-subject", "C19", "population.py",
  "        return self.cache.get_identity(name_id, entities, check_not_on_or_after)",
  "        return self.cache.get_identity(self.subjects()[0], entities, check_not_on_or_after)", rule="R1")
V("c19-expiry-check-dropped", "C19", "cache.py",
  "        if check_not_on_or_after and time_util.after(timestamp):\n            raise ToOld(\"past %s\" % str(timestamp))\n", "", rule="R2")
V("c19-expiry-not-raised", "C19", "cache.py",
  "            raise ToOld(\"past %s\" % str(timestamp))", "            logger.info(\"past %s\" % str(timestamp))", rule="R2")
V("c19-expiry-uses-before", "C19", "cache.py",
  "        if check_not_on_or_after and time_util.after(timestamp):", "        if check_not_on_or_after and time_util.before(timestamp):",
  rule="R2")
V("c19-tuple-order-swapped", "C19", "cache.py",
  "        self._db[cni][entity_id] = (not_on_or_after, info)", "        self._db[cni][entity_id] = (info, not_on_or_after)", rule="R2")
V("c19-after-not-negation", "C19", "time_util.py",
  "        return not before(point)", "        return before(point)", rule="R2")
V("c19-expired-merged", "C19", "cache.py",
  "            except ToOld:\n                oldees.append(entity_id)\n                continue\n",
  "            except ToOld:\n                oldees.append(entity_id)\n                info = self.get(name_id, entity_id, False)\n", rule="R3")
V("c19-empty-merged", "C19", "cache.py",
  "            if not info:\n                oldees.append(entity_id)\n                continue\n",
  "            if not info:\n                oldees.append(entity_id)\n                info = {'ava': {}}\n", rule="R3")
V("c19-default-no-expiry-check", "C19", "cache.py",
  "    def get_identity(self, name_id, entities=None,\n                     check_not_on_or_after=True):",
  "    def get_identity(self, name_id, entities=None,\n                     check_not_on_or_after=False):", rule="R3")
V("c19-delete-one-source", "C19", "cache.py",
  "        del self._db[code(name_id)]\n", "        self._db[code(name_id)].clear()\n", rule="R4")
V("c19-reset-keeps-expiry", "C19", "cache.py",
  "        self.set(name_id, entity_id, {}, 0)", "        self.set(name_id, entity_id, {}, 2 ** 31)", rule="R4")
V("c19-sync-changes-behaviour", "C19", "cache.py",
  "        self._db[cni][entity_id] = (not_on_or_after, info)\n        if self._sync:\n            try:",
  "        self._db[cni][entity_id] = (not_on_or_after, info)\n        if self._sync:\n            self._db[cni] = dict(self._db[cni])\n            try:",
  rule="R5")
OK("c19-benign-comment", "C19", "cache.py",
   "            # make friendly to (JSON) serialization", "            # keep the stored record JSON serialisable")

# ------------------------------------------------------------------ C20
V("c20-ok-substring", "C20", "sigver.py",
  "        if line == 'OK':\n            return True", "        if 'OK' in line:\n            return True", rule="R2")
V("c20-ok-startswith", "C20", "sigver.py",
  "        if line == 'OK':\n            return True", "        if line.startswith('OK'):\n            return True", rule="R2")
V("c20-no-ok-returns-false-then-true", "C20", "sigver.py",
  "        elif line == 'FAIL':\n            raise XmlsecError(output)\n    raise XmlsecError(output)",
  "        elif line == 'FAIL':\n            raise XmlsecError(output)\n    return 'no verdict'", rule="R2")
V("c20-whole-output-ok", "C20", "sigver.py",
  "    for line in output.splitlines():\n        if line == 'OK':", "    for line in [output.strip()[-2:]]:\n        if line == 'OK':",
  rule="R2")
V("c20-signal-ignored", "C20", "sigver.py",
  "            if pof.returncode is not None and pof.returncode < 0:", "            if False and pof.returncode < 0:", rule="R1")
V("c20-validate-default-off", "C20", "sigver.py",
  "    def _run_xmlsec(self, com_list, extra_args, validate_output=True, exception=XmlsecError):",
  "    def _run_xmlsec(self, com_list, extra_args, validate_output=False, exception=XmlsecError):", rule="R1")
V("c20-verify-without-validation", "C20", "sigver.py",
  "            [fil],\n            exception=SignatureError)\n\n        return parse_xmlsec_output(stderr)",
  "            [fil],\n            validate_output=False,\n            exception=SignatureError)\n\n        return parse_xmlsec_output(stderr)",
  rule="R1")
V("c20-verdict-always-true", "C20", "sigver.py",
  "            exception=SignatureError)\n\n        return parse_xmlsec_output(stderr)",
  "            exception=SignatureError)\n\n        return True", rule="R3")
V("c20-verdict-from-stdout", "C20", "sigver.py",
  "        (_stdout, stderr, _output) = self._run_xmlsec(", "        (stderr, _stderr, _output) = self._run_xmlsec(", rule="R3")
V("c20-xmlsec-error-is-success", "C20", "sigver.py",
  "            except XmlsecError as exc:\n                logger.error('check_sig: %s', exc)\n                pass\n",
  "            except XmlsecError as exc:\n                logger.error('check_sig: %s', exc)\n                verified = True\n                break\n",
  rule="R4")
V("c20-oserror-swallowed", "C20", "sigver.py",
  "            except Exception as exc:\n                logger.error('check_sig: %s', exc)\n                raise\n",
  "            except Exception as exc:\n                logger.error('check_sig: %s', exc)\n                verified = True\n",
  rule="R4")
V("c20-sign-returns-unsigned", "C20", "sigver.py",
  "            logger.error('Signing operation failed :\\nstdout : %s\\nstderr : %s', stdout, stderr)\n            raise SigverError(stderr)",
  "            logger.error('Signing operation failed :\\nstdout : %s\\nstderr : %s', stdout, stderr)\n            return statement",
  rule="R5")
V("c20-sign-empty-ok", "C20", "sigver.py",
  "            if stdout == '':\n                if signed_statement:\n                    return signed_statement.decode('utf-8')",
  "            if stdout == '':\n                return signed_statement.decode('utf-8')", rule="R5")
OK("c20-benign-ok-compare-swapped", "C20", "sigver.py",
   "        if line == 'OK':\n            return True", "        if 'OK' == line:\n            return True")

VARIANTS[:] = [v for v in VARIANTS if v]

# ------------------------------------------------------------------ round 6
V("c07-keep-unfiltered-when-counts-agree", "C07", "assertion.py",
  "            if rvals:\n                ava[attr] = list(set(rvals))\n            else:\n                del ava[attr]",
  "            if not rvals:\n                del ava[attr]\n            elif len(rvals) != len(vals):\n                ava[attr] = list(set(rvals))",
  rule="R3")
V("c07-store-all-values", "C07", "assertion.py",
  "                ava[attr] = list(set(rvals))", "                ava[attr] = list(set(vals))", rule="R3")
OK("c07-benign-lookup-inlined", "C07", "assertion.py",
   "        _attr = attr.lower()\n        try:\n            _rests = attribute_restrictions[_attr]",
   "        try:\n            _rests = attribute_restrictions[attr.lower()]")
V("c09-acs-compare-without-query", "C09", "server.py",
  "                if _acs == acs.text:", "                if _acs.split('?')[0] == acs.text.split('?')[0]:", rule="R6")
V("c09-acs-prefix-match", "C09", "server.py",
  "                if _acs == acs.text:", "                if _acs.startswith(acs.text):", rule="R6")
V("c11-metadata-swallows-valueerror", "C11", "mdstore.py",
  "        self.entities_descr = md.entities_descriptor_from_string(xmlstr)\n",
  "        try:\n            self.entities_descr = md.entities_descriptor_from_string(xmlstr)\n        except ValueError:\n            self.entities_descr = None\n            return\n",
  rule="R5")
V("c12-foreign-children-reversed", "C12", "__init__.py",
  "    for child in element_tree:\n        extension.children.append(_extension_element_from_element_tree(child))",
  "    for child in element_tree:\n        extension.children.insert(0, _extension_element_from_element_tree(child))",
  rule="E4")
V("c12-foreign-children-first-only", "C12", "__init__.py",
  "    for child in element_tree:\n        extension.children.append(_extension_element_from_element_tree(child))",
  "    for child in element_tree:\n        if not extension.children:\n            extension.children.append(_extension_element_from_element_tree(child))",
  rule="E4")
OK("c12-benign-foreign-children-extend", "C12", "__init__.py",
   "    for child in element_tree:\n        extension.children.append(_extension_element_from_element_tree(child))",
   "    extension.children.extend(_extension_element_from_element_tree(child)\n                              for child in element_tree)")
V("c13-duration-break-first", "C13", "time_util.py",
  "    for code, typ in D_FORMAT:\n        #print(duration[index:], code)\n",
  "    for code, typ in D_FORMAT:\n        if index == dlen:\n            break\n", rule="V10")
OK("c13-benign-duration-explicit-empty-check", "C13", "time_util.py",
   "    for code, typ in D_FORMAT:\n        #print(duration[index:], code)\n",
   "    if index == dlen:\n        raise Exception(\"Nothing after P\")\n    for code, typ in D_FORMAT:\n        if index == dlen:\n            break\n")
V("c16-index-zero-is-absent", "C16", "metadata.py",
  "                    if \"index\" not in args:", "                    if not args.get(\"index\"):", rule="M10")
OK("c16-benign-index-get-is-none", "C16", "metadata.py",
   "                    if \"index\" not in args:", "                    if args.get(\"index\") is None:")
V("c18-remove-local-aborts-on-bad-entry", "C18", "ident.py",
  "                try:\n                    nid = decode(val)\n                    del self.db[nid.text]\n                except KeyError:\n                    pass\n",
  "                nid = decode(val)\n                del self.db[nid.text]\n", rule="R1")
VARIANTS.append(dict(id="c14-shared-envelope-template", props=["C14"], expect="V",
                     rule="S2", edits=[
    ("soap.py", "    assert len(envelope) >= 1\n    env = {\"header\": [], \"body\": None}\n",
     "    assert len(envelope) >= 1\n    env = dict(_EMPTY_ENV)\n", 1),
    ("soap.py", "def instanciate_class(item, modules):",
     "_EMPTY_ENV = {\"header\": [], \"body\": None}\n\n\ndef instanciate_class(item, modules):", 1)]))
V("c02-verified-regardless-of-verdict", ["C02", "C01"], "sigver.py",
  "                if self.verify_signature(\n                        decoded_xml,\n                        pem_file,\n                        node_name=node_name,\n                        node_id=item.id,\n                        id_attr=id_attr):\n                    verified = True\n                    break\n",
  "                self.verify_signature(\n                        decoded_xml,\n                        pem_file,\n                        node_name=node_name,\n                        node_id=item.id,\n                        id_attr=id_attr)\n                verified = True\n                break\n",
  rule="R7")
V("c03-issuer-in-only-valid-cert-slot", ["C03"], "sigver.py",
  "                origdoc,\n                id_attr=id_attr,\n                must=must,\n                issuer=issuer)",
  "                origdoc,\n                id_attr,\n                must,\n                issuer)",
  rule="R8")
V("c06-request-returned-whatever-verify-says", ["C06"], "entity.py",
  "        if _request:\n            _request = _request.verify()\n            _log_debug(\"Verified request\")\n",
  "        if _request and _request.verify():\n            _log_debug(\"Verified request\")\n", rule="R7")
V("c17-early-return-skips-advice-encryption", "C17", "entity.py",
  "        if not sign and to_sign and not encrypt_assertion and \\\n                not encrypted_advice_attributes:\n",
  "        if not sign and to_sign and not encrypt_assertion:\n", rule="R9")
# ------------------------------------------------------------------ engine
# behaviour-preserving edits of the kinds DESIGN 7.7 normalises; all must be
# silent (multi-file edits)
def OKM(id, props, edits):
    VARIANTS.append(dict(id=id, props=props if isinstance(props, list) else [props],
                         edits=edits, expect="OK"))


OKM("engine-rename-private-method", ["C01", "C03", "C10", "C20"], [
    ("sigver.py", "def _check_signature(self,", "def _verify_element_signature(self,", 1),
    ("sigver.py", "self._check_signature(", "self._verify_element_signature(", 3),
])
OKM("engine-extract-helper-with-early-return", ["C07"], [
    ("assertion.py",
     "        _rest = self.get_attribute_restrictions(sp_entity_id)\n        if _rest:\n            if _ava is None:\n                _ava = ava.copy()\n            _ava = filter_attribute_value_assertions(_ava, _rest)\n        elif _ava is None:\n            _ava = ava.copy()\n",
     "        _ava = self._apply_restrictions(ava, _ava, sp_entity_id)\n", 1),
    ("assertion.py",
     "    def restrict(self, ava, sp_entity_id, metadata=None):\n",
     "    def _apply_restrictions(self, ava, _ava, sp_entity_id):\n        _rest = self.get_attribute_restrictions(sp_entity_id)\n        if _rest:\n            if _ava is None:\n                _ava = ava.copy()\n            return filter_attribute_value_assertions(_ava, _rest)\n        if _ava is None:\n            return ava.copy()\n        return _ava\n\n    def restrict(self, ava, sp_entity_id, metadata=None):\n", 1),
])
OKM("engine-loop-to-comprehension", ["C09", "C16"], [
    ("mdstore.py",
     "            res = []\n            for srv in srvs:\n                if srv[\"binding\"] == binding:\n                    res.append(srv)\n",
     "            res = [s for s in srvs if s[\"binding\"] == binding]\n", 1),
])
OKM("engine-ifexp-and-temp", ["C14", "C15"], [
    ("pack.py",
     "        if typ == \"SAMLRequest\":\n            _order = REQ_ORDER\n        else:\n            _order = RESP_ORDER\n",
     "        is_request = typ == \"SAMLRequest\"\n        _order = REQ_ORDER if is_request else RESP_ORDER\n", 1),
])
# ------------------------------------------------------------------ round 8
_C19_MEMO = ("cache.py",
             "        cni = code(name_id)\n        return list(self._db[cni].keys())\n",
             "        cni = code(name_id)\n        if getattr(self, \"_last\", (None,))[0] != cni:\n            self._last = (cni, self._db[cni])\n        return list(self._last[1].keys())\n", 1)
VARIANTS.append(dict(id="c19-remembered-record-survives-delete", props=["C19"],
                     expect="V", rule="R9", edits=[_C19_MEMO]))
VARIANTS.append(dict(id="c19-remembered-record-cleared-by-delete", props=["C19"],
                     expect="OK", edits=[
    ("cache.py",
     "        cni = code(name_id)\n        return list(self._db[cni].keys())\n",
     "        cni = code(name_id)\n        self._last = cni\n        return list(self._db[cni].keys())\n", 1),
    ("cache.py", "        del self._db[code(name_id)]\n",
     "        del self._db[code(name_id)]\n        self._last = None\n", 1)]))
VARIANTS.append(dict(id="c18-issued-memo-survives-remove-remote", props=["C18"],
                     expect="V", rule="R10", edits=[
    ("ident.py", "        del self.db[name_id.text]\n",
     "        del self.db[name_id.text]\n        self._gone = name_id.text\n", 1)]))
OK("c18-removal-counter-is-not-entry-state", "C18", "ident.py",
   "        del self.db[name_id.text]\n",
   "        del self.db[name_id.text]\n        self._removed = getattr(self, \"_removed\", 0) + 1\n")
V("c16-loader-options-kept-on-store", "C16", "mdstore.py",
  "        if self.filter:\n            _args = {\"filter\": self.filter}\n        else:\n            _args = {}\n\n        typ = args[0]",
  "        _args = self.loader_args\n\n        typ = args[0]", rule="M13")
OK("c16-loader-options-copied-from-store", "C16", "mdstore.py",
   "        if self.filter:\n            _args = {\"filter\": self.filter}\n        else:\n            _args = {}\n\n        typ = args[0]",
   "        _args = dict(self.loader_args) if hasattr(self, \"loader_args\") else ({\"filter\": self.filter} if self.filter else {})\n\n        typ = args[0]")
V("c05-outstanding-from-instance-state", "C05", "client_base.py",
  "            \"outstanding_queries\": outstanding,",
  "            \"outstanding_queries\": self.__dict__.setdefault(\"pending\", outstanding),",
  rule="R11")
VARIANTS.append(dict(id="c09-super-init-crossed-arguments", props=["C09", "C16"],
                     expect="V", edits=[
    ("mdstore.py",
     "    def __init__(self, attrc, metadata='', node_name=None,\n                 check_validity=True, security=None, **kwargs):\n        self.attrc = attrc",
     "    def __init__(self, attrc, metadata='', node_name=None,\n                 security=None, check_validity=True, **kwargs):\n        self.attrc = attrc", 1),
    ("mdstore.py",
     "        super(InMemoryMetaData, self).__init__(attrc, metadata=metadata)\n",
     "        super(InMemoryMetaData, self).__init__(attrc, metadata, node_name,\n                                               check_validity, security)\n", 1)]))
V("c12-per-class-cache-inherited", "C12", "__init__.py",
  "    def _convert_element_tree_to_member(self, child_tree):\n        # Find the element's tag in this class's list of child members\n",
  "    @classmethod\n    def _known_tags(cls):\n        try:\n            return cls._tags\n        except AttributeError:\n            cls._tags = frozenset(cls.c_children)\n            return cls._tags\n\n    def _convert_element_tree_to_member(self, child_tree):\n        # Find the element's tag in this class's list of child members\n",
  rule="E7")
OK("c12-per-class-cache-own-namespace", "C12", "__init__.py",
   "    def _convert_element_tree_to_member(self, child_tree):\n        # Find the element's tag in this class's list of child members\n",
   "    @classmethod\n    def _known_tags(cls):\n        try:\n            return cls.__dict__[\"_tags\"]\n        except KeyError:\n            cls._tags = frozenset(cls.c_children)\n            return cls._tags\n\n    def _convert_element_tree_to_member(self, child_tree):\n        # Find the element's tag in this class's list of child members\n")
