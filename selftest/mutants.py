"""Scratch-copy variants used by selftest/run.py (see its docstring)."""
VARIANTS = []


def V(id, props, file, old, new, rule=None, count=1):
    VARIANTS.append(dict(id=id, props=props if isinstance(props, list) else [props],
                         file=file, old=old, new=new, expect="V", rule=rule,
                         count=count))


def OK(id, props, file, old, new, count=1):
    VARIANTS.append(dict(id=id, props=props if isinstance(props, list) else [props],
                         file=file, old=old, new=new, expect="OK", count=count))


# ------------------------------------------------------------------ C01
V("c01-drop-node-id", "C01", "sigver.py",
  "                        node_id=item.id,\n", "", rule="R2")
V("c01-node-id-other", "C01", "sigver.py",
  "node_id=item.id,", "node_id=origdoc,", rule="R2")
V("c01-verify-response-test-assertion", "C01", "sigver.py",
  "        if response.signature:\n            if 'do_not_verify'",
  "        if response.assertion and response.assertion[0].signature:\n            if 'do_not_verify'",
  rule="R2")
V("c01-classname-other", "C01", "response.py",
  "self.sec.check_signature(assertion, class_name(assertion),",
  "self.sec.check_signature(assertion, class_name(self.response),", rule="R2")
V("c01-remove-ref-restriction", "C01", "sigver.py",
  "            '--enabled-reference-uris', 'empty,same-doc',\n", "", rule="R2")
V("c01-ref-guard-neq", "C01", "sigver.py",
  "and reference_uri == '#{id}'.format(id=item.id)):",
  "and reference_uri != '#{id}'.format(id=item.id)):", rule="R3")
V("c01-ref-guard-startswith", "C01", "sigver.py",
  "and reference_uri == '#{id}'.format(id=item.id)):",
  "and (reference_uri or '').startswith('#')):", rule="R3")
V("c01-ref-guard-any-count", "C01", "sigver.py",
  "single_reference = len(references) == 1",
  "single_reference = len(references) >= 1", rule="R3")
V("c01-ref-guard-log-only", "C01", "sigver.py",
  "            raise SignatureError(\n                'Signature failed to meet constraints on xmldsig: the signature '",
  "            logger.error(\n                'Signature failed to meet constraints on xmldsig: the signature '",
  rule="R3")
V("c01-swallow-in-loads", "C01", "response.py",
  "                **args)\n\n        except TypeError:\n            raise\n        except SignatureError:\n            raise\n        except Exception as excp:\n            logger.exception(\"EXCEPTION: %s\", excp)\n            raise\n",
  "                **args)\n\n        except TypeError:\n            raise\n        except SignatureError:\n            raise\n        except Exception as excp:\n            logger.exception(\"EXCEPTION: %s\", excp)\n",
  rule="R8")
V("c01-do-not-verify-true", "C01", "response.py",
  "self.do_not_verify = False", "self.do_not_verify = True", rule="R6")
V("c01-plain-loop-verified", "C01", "response.py",
  "if not self._assertion(assertion, False):",
  "if not self._assertion(assertion, True):", rule="R6")
V("c01-verified-default-true", "C01", "sigver.py",
  "        verified = False\n        last_pem_file = None",
  "        verified = True\n        last_pem_file = None", rule="R7")
V("c01-accept-on-else", "C01", "sigver.py",
  "        else:\n            raise SignatureError('Failed to verify signature')",
  "        else:\n            logger.error('Failed to verify signature')", rule="R7")
V("c01-check-only-if-must", "C01", "sigver.py",
  "            if 'do_not_verify' in kwargs:\n                pass\n            else:",
  "            if 'do_not_verify' in kwargs or not require_response_signature:\n                pass\n            else:",
  rule="R5")
V("c01-assertion-check-only-if-required", "C01", "response.py",
  "if not verified and self.do_not_verify is False:",
  "if not verified and self.do_not_verify is False and self.require_signature:",
  rule="R5")
V("c01-new-verify-caller", "C01", "response.py",
  "    def session_id(self):",
  "    def quick_ok(self, txt):\n        return self.sec.verify_signature(txt)\n\n    def session_id(self):",
  rule="R1")
V("c01-xmlsec-error-break", "C01", "sigver.py",
  "                logger.error('check_sig: %s', exc)\n                pass\n",
  "                logger.error('check_sig: %s', exc)\n                verified = True\n",
  rule="R7")
OK("c01-benign-kw-reorder", "C01", "sigver.py",
   "                        node_name=node_name,\n                        node_id=item.id,\n",
   "                        node_id=item.id,\n                        node_name=node_name,\n")
OK("c01-benign-extra-logging-handler", "C01", "response.py",
   "                **args)\n\n        except TypeError:\n            raise\n        except SignatureError:\n            raise\n",
   "                **args)\n\n        except TypeError:\n            raise\n        except SignatureError as sigerr:\n            logger.warning('bad signature: %s', sigerr)\n            raise\n")
OK("c01-benign-guard-rewrite", "C01", "sigver.py",
   "        if not (single_reference\n                and item.id\n                and reference_uri == '#{id}'.format(id=item.id)):",
   "        expected_uri = '#{id}'.format(id=item.id)\n        if not item.id or not single_reference or expected_uri != reference_uri:")

# ------------------------------------------------------------------ C02
V("c02-handler-tests-attribute", "C02", "entity.py",
  "        except SigverError as err:\n            if require_response_signature:",
  "        except SigverError as err:\n            if response.require_response_signature is False:",
  rule="R4")
V("c02-signed-flag-in-finally", "C02", "entity.py",
  "        else:\n            response_is_signed = True\n        finally:\n            response.require_response_signature = require_response_signature",
  "        finally:\n            response_is_signed = True\n            response.require_response_signature = require_response_signature",
  rule="R4")
V("c02-retry-removed", "C02", "entity.py",
  "                response.require_signature = require_signature\n                response = response.verify(keys)\n        else:",
  "                response.require_signature = require_signature\n        else:",
  rule="R4")
V("c02-no-restore", "C02", "entity.py",
  "        finally:\n            response.require_signature = require_signature\n", "        finally:\n            pass\n",
  rule="R4")
V("c02-options-swapped", "C02", "response.py",
  "        self.require_signature = want_assertions_signed\n        self.require_signature_or_response_signature = want_assertions_or_response_signed",
  "        self.require_signature = want_assertions_or_response_signed\n        self.require_signature_or_response_signature = want_assertions_signed",
  rule="R1")
V("c02-default-flipped", "C02", "client_base.py",
  '"want_response_signed": True,', '"want_response_signed": False,', rule="R1")
V("c02-kwargs-wrong-option", "C02", "client_base.py",
  '"want_assertions_signed": self.want_assertions_signed,',
  '"want_assertions_signed": self.want_response_signed,', rule="R1")
V("c02-either-or-weakened", "C02", "entity.py",
  "if not response_is_signed and not assertions_are_signed:",
  "if not response_is_signed and assertions_are_signed:", rule="R5")
V("c02-either-or-dropped-neg", "C02", "entity.py",
  "if not response_is_signed and not assertions_are_signed:",
  "if response_is_signed and not assertions_are_signed:", rule="R5")
V("c02-missing-sig-guard-must", "C02", "sigver.py",
  "        elif require_response_signature:\n            raise SignatureError('Signature missing for response')",
  "        elif require_response_signature and must:\n            raise SignatureError('Signature missing for response')",
  rule="R2")
V("c02-assertion-required-not-raised", "C02", "response.py",
  "            if self.require_signature:\n                raise SignatureError(\"Signature missing for assertion\")",
  "            if self.require_signature and self.require_response_signature:\n                raise SignatureError(\"Signature missing for assertion\")",
  rule="R2")
V("c02-loads-forwards-other-flag", "C02", "response.py",
  "require_response_signature=self.require_response_signature,",
  "require_response_signature=self.require_signature,", rule="R2")
V("c02-required-swallowed", "C02", "entity.py",
  "            if require_signature:\n                logger.error(\"Signature Error: %s\", err)\n                raise\n",
  "            if require_signature:\n                logger.error(\"Signature Error: %s\", err)\n",
  rule="R4")
OK("c02-benign-either-or-rewrite", "C02", "entity.py",
   "if not response_is_signed and not assertions_are_signed:",
   "if not (response_is_signed or assertions_are_signed):")
OK("c02-benign-log-change", "C02", "entity.py",
   'logger.error("Signature Error: %s", err)', 'logger.warning("Signature error %s", err)',
   count=2)

VARIANTS[:] = [v for v in VARIANTS if v]
