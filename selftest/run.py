"""Self-test of the checkers against scratch-copy variants of /repo.

  /venv/bin/python selftest/run.py [-j N] [-k substring] [--prop C01]

Every variant is a textual edit (old -> new, must match exactly once unless
`count` is given) applied to a scratch copy of /repo/src/saml2_tophat outside
/repo and /verif; the edited file must still byte-compile. `expect` is
  "V"  the named property check must exit 1 and name `rule` in its report
  "OK" the check must exit 0 (benign variant: behaviour-preserving edit)
Nothing here is registered in MANIFEST.json; it tests the checkers themselves.
"""
import argparse
import os
import py_compile
import shutil
import subprocess
import sys
import tempfile
import time
from concurrent.futures import ThreadPoolExecutor

HERE = os.path.dirname(os.path.abspath(__file__))
VERIF = os.path.dirname(HERE)
sys.path.insert(0, HERE)
REPO = os.environ.get("VERIF_REPO", "/repo")
PY = "/venv/bin/python"


def apply_edits(root, edits):
    for rel, old, new, count in edits:
        path = os.path.join(root, "src", "saml2_tophat", rel)
        with open(path, encoding="utf-8") as fh:
            src = fh.read()
        n = src.count(old)
        if n != count:
            raise RuntimeError("edit target occurs %d times (expected %d) in %s:"
                               " %r" % (n, count, rel, old[:60]))
        src = src.replace(old, new)
        with open(path, "w", encoding="utf-8") as fh:
            fh.write(src)
        import warnings
        with warnings.catch_warnings():
            warnings.simplefilter("ignore")
            compile(src, path, "exec")


def run_variant(v):
    scratch = tempfile.mkdtemp(prefix="verif-st-", dir="/tmp")
    try:
        shutil.copytree(os.path.join(REPO, "src", "saml2_tophat"),
                        os.path.join(scratch, "src", "saml2_tophat"),
                        ignore=shutil.ignore_patterns("__pycache__"))
        edits = v.get("edits") or [(v["file"], v["old"], v["new"],
                                    v.get("count", 1))]
        edits = [e if len(e) == 4 else tuple(e) + (1,) for e in edits]
        try:
            apply_edits(scratch, edits)
        except Exception as e:
            return v, "SETUP-FAIL", str(e)
        if MORPH[0]:
            # behaviour-preserving rewrite of the whole package ON TOP of the
            # variant (tools/metamorph.py): a V variant must still be reported,
            # an OK variant must still be silent
            try:
                import metamorph
                metamorph.rewrite(scratch, MORPH[1], MORPH[0], MORPH[2])
                import compileall
                import warnings
                with warnings.catch_warnings():
                    warnings.simplefilter("ignore")
                    if not compileall.compile_dir(
                            os.path.join(scratch, "src", "saml2_tophat"),
                            quiet=2):
                        return v, "SETUP-FAIL", "rewritten tree does not compile"
            except Exception as e:
                return v, "SETUP-FAIL", "morph: %r" % (e,)
        env = dict(os.environ, VERIF_REPO=scratch, PYTHONDONTWRITEBYTECODE="1")
        out_all = []
        verdict = "PASS"
        for prop in v["props"]:
            p = subprocess.run([PY, "-m", "sa.cli", prop, "--no-write"],
                               cwd=VERIF, env=env, capture_output=True,
                               text=True, timeout=300)
            out = p.stdout + p.stderr
            out_all.append(out)
            if v["expect"] == "V":
                rule = v.get("rule")
                named = (rule is None) or ("%s %s]" % (prop, rule) in out)
                if not (p.returncode == 1 and "VIOLATION property=%s" % prop
                        in out and named):
                    verdict = "MISSED(exit=%d)" % p.returncode
            else:
                if p.returncode != 0:
                    verdict = "FALSE-ALARM(exit=%d)" % p.returncode
        return v, verdict, "\n".join(out_all)
    finally:
        shutil.rmtree(scratch, ignore_errors=True)


MORPH = [None, None, None]


def main():
    ap = argparse.ArgumentParser()
    ap.add_argument("--morph", default="", help="transformations of "
                    "tools/metamorph.py (a+b+c) applied on top of every variant")
    ap.add_argument("-j", type=int, default=16)
    ap.add_argument("-k", default="")
    ap.add_argument("--prop", default="")
    ap.add_argument("-v", action="store_true")
    a = ap.parse_args()
    from mutants import VARIANTS
    if a.morph:
        sys.path.insert(0, VERIF)
        sys.path.insert(0, os.path.join(VERIF, "tools"))
        import metamorph
        from sa import srcmodel
        model = srcmodel.Model()
        MORPH[0], MORPH[1], MORPH[2] = a.morph, metamorph.hand_written(model), \
            model
    todo = [v for v in VARIANTS if a.k in v["id"] and
            (not a.prop or a.prop in v["props"])]
    t0 = time.time()
    bad = 0
    with ThreadPoolExecutor(a.j) as ex:
        for v, verdict, out in ex.map(run_variant, todo):
            ok = verdict == "PASS"
            bad += 0 if ok else 1
            print("%-8s %-4s %-48s %s" % (verdict, v["expect"], v["id"],
                                          ",".join(v["props"])))
            if verdict == "SETUP-FAIL":
                print("      | " + out[:300])
            elif (not ok or a.v) and out:
                for ln in out.splitlines():
                    if ln.startswith(("  [", "VIOLATION", "ANALYSIS", "Trace",
                                      "KNOWN", "      path")) or "Error" in ln:
                        print("      | " + ln[:220])
    print("%d variants, %d not as expected, %.1fs" % (len(todo), bad,
                                                      time.time() - t0))
    return 1 if bad else 0


if __name__ == "__main__":
    sys.exit(main())
