"""Rule runner, verdict bookkeeping, known findings, evidence files."""
import json
import os
import sys
import time
import traceback
import warnings

from .srcmodel import Model, AnalysisError

VERIF = os.path.dirname(os.path.dirname(os.path.abspath(__file__)))
EVIDENCE_DIR = os.path.join(VERIF, "evidence")
REPLAY_DIR = os.path.join(EVIDENCE_DIR, "replay")
KNOWN = os.path.join(VERIF, "known_findings.json")

HOLDS, VIOLATED, UNDECIDED, NOTE = "HOLDS", "VIOLATED", "UNDECIDED", "NOTE"


class Run(object):
    def __init__(self, prop_id, tier="quick", model=None, write=True):
        self.prop = prop_id
        self.tier = tier
        self.t0 = time.time()
        warnings.simplefilter("ignore", SyntaxWarning)
        self.model = model or Model()
        from . import match
        match.set_model(self.model)
        self.results = []
        self.notes = []
        self.errors = []
        self.counters = {}
        self.rules = {}        # rule id -> statement
        self.write = write
        self.assumptions = []
        self.explanation = ""
        self.exhaustive = False

    # ------------------------------------------------------------- verdicts
    def rule(self, rid, statement):
        self.rules[rid] = statement

    def _rec(self, verdict, rule, construct, detail, loc, nontrivial, extra):
        r = {"rule": rule, "construct": construct, "verdict": verdict,
             "detail": detail, "loc": loc, "nontrivial": bool(nontrivial)}
        if extra:
            r.update(extra)
        self.results.append(r)
        return r

    def holds(self, rule, construct, detail="", loc="", nontrivial=True, **extra):
        return self._rec(HOLDS, rule, construct, detail, loc, nontrivial, extra)

    def violated(self, rule, construct, detail, loc="", **extra):
        return self._rec(VIOLATED, rule, construct, detail, loc, True, extra)

    def undecided(self, rule, construct, detail, loc="", **extra):
        return self._rec(UNDECIDED, rule, construct, detail, loc, True, extra)

    def check(self, cond, rule, construct, ok_detail, bad_detail, loc="", **extra):
        if cond:
            return self.holds(rule, construct, ok_detail, loc, **extra)
        return self.violated(rule, construct, bad_detail, loc, **extra)

    def note(self, text):
        self.notes.append(text)

    def count(self, name, n=1):
        self.counters[name] = self.counters.get(name, 0) + n

    def floor(self, rule, what, found, minimum):
        """A rule instance count below what was confirmed by hand means the
        matcher went blind: fail closed."""
        self.counters["%s.%s" % (rule, what)] = found
        if found == 0:
            raise AnalysisError(
                "%s: no %s found, expected at least %d (rule would pass "
                "vacuously)" % (rule, what, minimum))
        if found < minimum:
            # fewer instances than were confirmed by hand: the rule cannot
            # claim the clause for this tree, but the remaining rules still run
            self.undecided(rule, "floor:%s" % what,
                           "only %d %s found, expected at least %d (the rule "
                           "would cover less than it did on the reference "
                           "tree)" % (found, what, minimum))

    def require(self, cond, message):
        if not cond:
            raise AnalysisError(message)

    # ---------------------------------------------------------------- finish
    def _known(self):
        if not os.path.exists(KNOWN):
            return []
        with open(KNOWN) as fh:
            data = json.load(fh)
        return [f for f in data.get("findings", [])
                if f.get("property") == self.prop]

    def finish(self, error=None):
        wall = time.time() - self.t0
        known = self._known()
        known_keys = {(k["rule"], k["key"]): k for k in known}
        viol = [r for r in self.results if r["verdict"] == VIOLATED]
        undec = [r for r in self.results if r["verdict"] == UNDECIDED]
        lines = []
        new_viol = []
        matched_known = []
        for r in viol:
            k = (r["rule"], r["construct"])
            if k in known_keys:
                matched_known.append(r)
                line = ("KNOWN-FINDING: property=%s rule=%s construct=%s :: %s"
                        % (self.prop, r["rule"], r["construct"],
                           known_keys[k].get("what", r["detail"])))
                if line not in lines:     # one line per listed finding
                    lines.append(line)
            else:
                new_viol.append(r)
        code = 0
        if error is not None:
            code = 2
            lines.append("ANALYSIS-ERROR property=%s %s" % (self.prop, error))
        for r in undec:
            code = 2
            lines.append("ANALYSIS-ERROR property=%s undecided rule=%s construct=%s"
                         " at %s :: %s" % (self.prop, r["rule"], r["construct"],
                                           r["loc"], r["detail"]))
        if new_viol:
            code = 1      # a concrete violation outranks "could not decide the rest"
        if new_viol:
            os.makedirs(REPLAY_DIR, exist_ok=True)
            for i, r in enumerate(new_viol):
                path = os.path.join(REPLAY_DIR, "%s-%d.json" % (self.prop, i))
                with open(path, "w") as fh:
                    json.dump({"property": self.prop, "instance": r,
                               "rule_statement": self.rules.get(r["rule"], ""),
                               "repo": self.model.root}, fh, indent=1,
                              default=str)
                print("  [%s %s] %s at %s: %s" % (self.prop, r["rule"],
                                                  r["construct"], r["loc"],
                                                  r["detail"]))
                if r.get("witness"):
                    for w in r["witness"]:
                        print("      path: %s" % w)
                lines.append("VIOLATION property=%s replay=%s" %
                             (self.prop, path))
        stale = [k for k in known
                 if (k["rule"], k["key"]) not in
                 {(r["rule"], r["construct"]) for r in viol}]
        for k in stale:
            self.notes.append("known finding no longer reproduced: %s %s" %
                              (k["rule"], k["key"]))
        for ln in lines:
            print(ln)
        self._summary(code, wall, len(new_viol), len(matched_known))
        if self.write:
            self._evidence(wall, new_viol, matched_known, error)
        return code

    def _summary(self, code, wall, nviol, nknown):
        total = len(self.results)
        ok = sum(1 for r in self.results if r["verdict"] == HOLDS)
        print("%s [%s] rules=%d instances=%d holds=%d violations=%d known=%d "
              "notes=%d wall=%.2fs exit=%d" % (self.prop, self.tier,
                                               len(self.rules), total, ok,
                                               nviol, nknown, len(self.notes),
                                               wall, code))

    def _evidence(self, wall, new_viol, matched_known, error):
        os.makedirs(EVIDENCE_DIR, exist_ok=True)
        inst = self.results
        distinct = {(r["rule"], r["construct"]) for r in inst if r["nontrivial"]}
        samples = []
        seen_rules = set()
        for r in inst:                       # one sample per rule first
            if r["rule"] not in seen_rules:
                seen_rules.add(r["rule"])
                samples.append(r)
        for r in inst:
            if len(samples) >= 40:
                break
            if r not in samples:
                samples.append(r)
        ev = {
            "property_id": self.prop,
            "tier": self.tier,
            "seed": int(os.environ.get("VERIF_SEED", "0") or 0),
            "level": "other",
            "coverage": {
                "explanation": self.explanation or
                "static analysis of /repo's current source",
                "evaluations": len(inst),
                "distinct_nontrivial": len(distinct),
                "rule": "one evaluation = one (rule, construct) instance decided "
                        "on the current source; non-trivial = the instance "
                        "needed a path, dominance, derivation, handler-"
                        "disposition, normal-form or table-row query (not a "
                        "mere presence test); distinct by (rule, construct)",
                "samples": samples[:40],
                "obligations": len(inst),
                "discharged": sum(1 for r in inst if r["verdict"] == HOLDS),
                "exhaustive": bool(self.exhaustive),
                "rules": self.rules,
                "analysed": self.counters,
                "known_findings_matched": [
                    {"rule": r["rule"], "construct": r["construct"]}
                    for r in matched_known],
                "violations_reported": [
                    {"rule": r["rule"], "construct": r["construct"],
                     "loc": r["loc"], "detail": r["detail"]} for r in new_viol],
                "notes": self.notes,
                "modules_consulted": self.model.digests(),
                "repo_root": self.model.root,
                "analysis_error": str(error) if error else None,
            },
            "assumptions": self.assumptions,
            "wall_s": round(wall, 3),
            "violations": len(new_viol),
        }
        path = os.path.join(EVIDENCE_DIR, "%s.json" % self.prop)
        tmp = path + ".tmp"
        with open(tmp, "w") as fh:
            json.dump(ev, fh, indent=1, default=str, sort_keys=False)
        os.replace(tmp, path)


def execute(prop_id, check_fn, tier="quick", write=True, model=None):
    """Run one property's rules fail-closed.  Returns the exit code."""
    run = None
    try:
        run = Run(prop_id, tier, model=model, write=write)
        check_fn(run)
        return run.finish()
    except AnalysisError as e:
        if run is None:
            print("ANALYSIS-ERROR property=%s %s" % (prop_id, e))
            return 2
        return run.finish(error=str(e))
    except Exception as e:   # a crash of the checker is never a verdict
        tb = traceback.format_exc()
        sys.stderr.write(tb)
        msg = "checker crashed: %s: %s" % (type(e).__name__, e)
        if run is None:
            print("ANALYSIS-ERROR property=%s %s" % (prop_id, msg))
            return 2
        return run.finish(error=msg)
