"""Source model of /repo/src/saml2_tophat: parsed modules, functions by qualified
name, class hierarchy (MRO), import tables, exception hierarchy, call sites.

Pure `ast`; nothing from the repository is imported or executed here.
"""
import ast
import builtins
import hashlib
import os

PKG = "saml2_tophat"


class AnalysisError(Exception):
    """The checker cannot decide this tree (anchor vanished, unknown shape, ...)."""


def repo_root():
    return os.environ.get("VERIF_REPO", "/repo")


def unparse(node):
    if node is None:
        return ""
    if isinstance(node, list):
        return "; ".join(unparse(n) for n in node)
    try:
        return ast.unparse(node)
    except Exception:  # pragma: no cover
        return "<%s>" % type(node).__name__


def norm_text(node):
    """Normalised statement text used in finding keys (never line numbers)."""
    return " ".join(unparse(node).split())


def attr_chain(node):
    """`a.b.c` -> 'a.b.c'; calls and subscripts inside the chain are rendered as
    `()`/`[]`; returns None when the root is not a Name."""
    parts = []
    while True:
        if isinstance(node, ast.Attribute):
            parts.append(node.attr)
            node = node.value
        elif isinstance(node, ast.Name):
            parts.append(node.id)
            break
        elif isinstance(node, ast.Call):
            parts.append("()")
            node = node.func
        elif isinstance(node, ast.Subscript):
            parts.append("[]")
            node = node.value
        else:
            return None
    out = ""
    for p in reversed(parts):
        if p in ("()", "[]"):
            out += p
        elif out:
            out += "." + p
        else:
            out = p
    return out


def call_name(call):
    """Last identifier of the callee (`x.y.f(...)` -> 'f'), or None."""
    f = call.func
    if isinstance(f, ast.Attribute):
        return f.attr
    if isinstance(f, ast.Name):
        return f.id
    return None


def const_value(node, default=None):
    if isinstance(node, ast.Constant):
        return node.value
    return default


def is_const(node, value):
    return isinstance(node, ast.Constant) and node.value == value and \
        type(node.value) is type(value)


def walk_no_nested(node):
    """ast.walk that does not descend into nested function/class/lambda bodies
    (the root itself may be a function)."""
    stack = [node]
    first = True
    while stack:
        n = stack.pop()
        yield n
        for c in ast.iter_child_nodes(n):
            if isinstance(c, (ast.FunctionDef, ast.AsyncFunctionDef, ast.ClassDef,
                              ast.Lambda)):
                continue
            stack.append(c)
        first = False


def calls_in(node):
    return [n for n in walk_no_nested(node) if isinstance(n, ast.Call)]


def names_in(node):
    return {n.id for n in ast.walk(node) if isinstance(n, ast.Name)}


class FuncInfo(object):
    __slots__ = ("qual", "module", "cls", "name", "node", "path")

    def __init__(self, qual, module, cls, name, node, path):
        self.qual, self.module, self.cls, self.name = qual, module, cls, name
        self.node, self.path = node, path

    @property
    def lineno(self):
        return self.node.lineno

    def loc(self, node=None):
        n = node if node is not None else self.node
        return "%s:%s" % (self.path, getattr(n, "lineno", "?"))

    def params(self):
        a = self.node.args
        names = [x.arg for x in a.posonlyargs + a.args + a.kwonlyargs]
        if a.vararg:
            names.append(a.vararg.arg)
        if a.kwarg:
            names.append(a.kwarg.arg)
        return names

    def param_default(self, name):
        """AST of the default of parameter `name`, or None."""
        a = self.node.args
        pos = a.posonlyargs + a.args
        defaults = [None] * (len(pos) - len(a.defaults)) + list(a.defaults)
        for p, d in zip(pos, defaults):
            if p.arg == name:
                return d
        for p, d in zip(a.kwonlyargs, a.kw_defaults):
            if p.arg == name:
                return d
        return None

    def __repr__(self):
        return "<Func %s>" % self.qual


class ClassInfo(object):
    __slots__ = ("qual", "module", "name", "node", "path", "bases", "methods",
                 "assigns")

    def __init__(self, qual, module, name, node, path):
        self.qual, self.module, self.name, self.node, self.path = \
            qual, module, name, node, path
        self.bases = []      # resolved qualified names or raw text
        self.methods = {}    # name -> FuncInfo
        self.assigns = {}    # class-level name -> value AST (last)


class ModuleInfo(object):
    __slots__ = ("name", "path", "relpath", "tree", "source", "imports",
                 "functions", "classes", "assigns", "digest")

    def __init__(self, name, path, relpath, tree, source):
        self.name, self.path, self.relpath, self.tree, self.source = \
            name, path, relpath, tree, source
        self.imports = {}    # local name -> set of qualified targets
        self.functions = {}  # top-level name -> FuncInfo
        self.classes = {}    # top-level name -> ClassInfo
        self.assigns = {}    # top-level name -> list of value ASTs
        self.digest = hashlib.sha256(source.encode("utf-8")).hexdigest()[:16]


class Model(object):
    def __init__(self, root=None, subdir="src/" + PKG, pkg=PKG):
        self.root = root or repo_root()
        self.pkg = pkg
        self.pkgdir = os.path.join(self.root, subdir)
        self.modules = {}
        self.funcs = {}
        self.classes = {}
        self.consulted = set()
        self.renamed = {}
        self.inlined = {}
        self.absorbed = set()
        if not os.path.isdir(self.pkgdir):
            raise AnalysisError("package directory missing: %s" % self.pkgdir)
        self._load()
        self._resolve_bases()
        self._normalise()

    # ------------------------------------------------------------------ load
    def _load(self):
        for dirpath, dirnames, filenames in os.walk(self.pkgdir):
            dirnames[:] = sorted(d for d in dirnames if d != "__pycache__")
            for fn in sorted(filenames):
                if not fn.endswith(".py"):
                    continue
                path = os.path.join(dirpath, fn)
                rel = os.path.relpath(path, self.pkgdir)
                parts = rel[:-3].split(os.sep)
                if parts[-1] == "__init__":
                    parts = parts[:-1]
                name = ".".join([self.pkg] + parts)
                with open(path, encoding="utf-8") as fh:
                    src = fh.read()
                try:
                    tree = ast.parse(src, filename=path)
                except SyntaxError as e:
                    raise AnalysisError("syntax error in %s: %s" % (path, e))
                relpath = os.path.relpath(path, self.root)
                mi = ModuleInfo(name, path, relpath, tree, src)
                self.modules[name] = mi
                self._index_module(mi)

    def _index_module(self, mi):
        is_pkg = mi.path.endswith("__init__.py")
        for node in ast.walk(mi.tree):
            if isinstance(node, ast.Import):
                for a in node.names:
                    local = a.asname or a.name.split(".")[0]
                    target = a.name if a.asname else a.name.split(".")[0]
                    mi.imports.setdefault(local, set()).add(target)
            elif isinstance(node, ast.ImportFrom):
                base = node.module or ""
                if node.level:
                    pk = mi.name.split(".")
                    if not is_pkg:
                        pk = pk[:-1]
                    if node.level > 1:
                        pk = pk[:-(node.level - 1)]
                    base = ".".join(pk + ([base] if base else []))
                for a in node.names:
                    local = a.asname or a.name
                    mi.imports.setdefault(local, set()).add(
                        (base + "." + a.name) if base else a.name)
        for node in mi.tree.body:
            self._index_stmt(mi, node)

    def _normalise(self):
        """Behaviour-preserving normal form relative to the reference tree:
        helpers that did not exist there are expanded inline (sa/inline.py),
        then renamed locals are mapped back (sa/alpha.py)."""
        from . import inline, desugar, funcrename, callform
        self.calls_canonical = 0
        if not os.environ.get("VERIF_NO_CALLFORM"):
            from . import tables
            self.calls_canonical = callform.canonicalise(
                self, set(tables.schema_modules(self)))
        # every function is first put into its statement forms on its own
        # (sa/desugar.py, sa/foldtemps.py) - on every tree, the reference one
        # included - so that renamed functions are recognised by their
        # normalised bodies and helper calls stand where fusing their returns
        # into the caller's arms is possible
        self.folded = {}
        self.desugared = 0
        self._statement_forms()
        self.func_renamed = {}
        if not os.environ.get("VERIF_NO_FUNCRENAME"):
            self.func_renamed = funcrename.restore_names(self)
        self.inlined = inline.expand_new_helpers(self)
        if self.inlined:
            self._statement_forms(only=set(self.inlined))
        for q, fi in self.funcs.items():
            self._alpha(q, fi.node)

    def _statement_forms(self, only=None):
        from . import desugar, tables
        generated = set(tables.schema_modules(self))

        def short(q):
            return q[len(self.pkg) + 1:] if q.startswith(self.pkg + ".") else q
        todo = [q for q, fi in self.funcs.items()
                if fi.module not in generated and
                (only is None or short(q) in only)]
        if not os.environ.get("VERIF_NO_DESUGAR"):
            for q in todo:
                self.desugared += desugar.desugar_function(self.funcs[q].node)
        changed = self._fold_all(todo)
        # an expression written back in place may have a statement form of its
        # own (a generator handed to extend(), a conditional expression ...)
        if changed and not os.environ.get("VERIF_NO_DESUGAR"):
            for q in changed:
                self.desugared += desugar.desugar_function(self.funcs[q].node)
            self._fold_all(changed)

    def _fold_all(self, quals=None):
        if os.environ.get("VERIF_NO_FOLD"):
            return []
        changed = []
        from . import foldtemps, tables
        generated = set(tables.schema_modules(self))
        for q, fi in self.funcs.items():
            if fi.module in generated or (quals is not None and q not in quals):
                continue
            short = q[len(self.pkg) + 1:] if q.startswith(self.pkg + ".") \
                else q
            k = 0
            for sub in ast.walk(fi.node):
                if isinstance(sub, (ast.FunctionDef, ast.AsyncFunctionDef)):
                    k += foldtemps.fold_function(sub, {
                        a.arg for a in ast.walk(sub.args)
                        if isinstance(a, ast.arg)})
                    k += foldtemps.coalesce_copies(sub)
            if k:
                self.folded[short] = self.folded.get(short, 0) + k
                changed.append(q)
        return changed

    def _alpha(self, qual, node):
        """Map renamed locals back onto the reference names (sa/alpha.py)."""
        from . import alpha
        short = qual[len(self.pkg) + 1:] if qual.startswith(self.pkg + ".") \
            else qual
        mp = alpha.normalise(short, node)
        if mp:
            self.renamed[short] = mp

    def _index_stmt(self, mi, node):
        if isinstance(node, (ast.FunctionDef, ast.AsyncFunctionDef)):
            fi = FuncInfo(mi.name + "." + node.name, mi.name, None, node.name,
                          node, mi.relpath)
            mi.functions[node.name] = fi
            self.funcs[fi.qual] = fi
        elif isinstance(node, ast.ClassDef):
            ci = ClassInfo(mi.name + "." + node.name, mi.name, node.name, node,
                           mi.relpath)
            mi.classes[node.name] = ci
            self.classes[ci.qual] = ci
            for sub in node.body:
                if isinstance(sub, (ast.FunctionDef, ast.AsyncFunctionDef)):
                    fi = FuncInfo(ci.qual + "." + sub.name, mi.name, ci.qual,
                                  sub.name, sub, mi.relpath)
                    ci.methods[sub.name] = fi
                    self.funcs[fi.qual] = fi
                elif isinstance(sub, ast.Assign):
                    for t in sub.targets:
                        if isinstance(t, ast.Name):
                            ci.assigns[t.id] = sub.value
        elif isinstance(node, ast.Assign):
            for t in node.targets:
                if isinstance(t, ast.Name):
                    mi.assigns.setdefault(t.id, []).append(node.value)
        elif isinstance(node, (ast.If, ast.Try)):
            # top-level conditional definitions (e.g. try/except imports)
            for sub in ast.iter_child_nodes(node):
                if isinstance(sub, ast.stmt):
                    self._index_stmt(mi, sub)
                elif isinstance(sub, ast.ExceptHandler):
                    for s2 in sub.body:
                        self._index_stmt(mi, s2)

    def _resolve_bases(self):
        for ci in self.classes.values():
            mi = self.modules[ci.module]
            for b in ci.node.bases:
                q = self.resolve_expr(mi, b)
                ci.bases.append(q if q else unparse(b))

    # --------------------------------------------------------------- queries
    def module(self, name):
        full = name if name.startswith(self.pkg) else self.pkg + "." + name
        if name == "":
            full = self.pkg
        mi = self.modules.get(full)
        if mi is None:
            raise AnalysisError("anchor module vanished: %s" % full)
        self.consulted.add(full)
        return mi

    def func(self, qual, required=True):
        full = qual if qual.startswith(self.pkg + ".") else self.pkg + "." + qual
        fi = self.funcs.get(full)
        if fi is None:
            # method inherited?
            if required:
                raise AnalysisError("anchor function vanished: %s" % full)
            return None
        self.consulted.add(fi.module)
        return fi

    def cls(self, qual, required=True):
        full = qual if qual.startswith(self.pkg + ".") else self.pkg + "." + qual
        ci = self.classes.get(full)
        if ci is None and required:
            raise AnalysisError("anchor class vanished: %s" % full)
        if ci is not None:
            self.consulted.add(ci.module)
        return ci

    def resolve_name(self, mi, name):
        """Qualified targets a bare top-level name in module `mi` may denote."""
        out = set()
        if name in mi.functions:
            out.add(mi.functions[name].qual)
        if name in mi.classes:
            out.add(mi.classes[name].qual)
        if name in mi.imports:
            out |= mi.imports[name]
        if not out and name in mi.assigns:
            out.add(mi.name + "." + name)
        return out

    def resolve_expr(self, mi, node):
        """Resolve a Name/Attribute chain to one qualified name (first alternative)."""
        alts = self.resolve_expr_all(mi, node)
        return sorted(alts)[0] if alts else None

    def resolve_expr_all(self, mi, node):
        chain = attr_chain(node)
        if chain is None or "()" in chain or "[]" in chain:
            return set()
        parts = chain.split(".")
        roots = self.resolve_name(mi, parts[0])
        if not roots:
            if hasattr(builtins, parts[0]) and len(parts) == 1:
                return {"builtins." + parts[0]}
            return set()
        out = set()
        for r in roots:
            q = ".".join([r] + parts[1:])
            out.add(self._canon(q))
        return out

    def _canon(self, q, depth=0):
        """Follow re-exports: `saml2_tophat.sigver.ds` -> `saml2_tophat.xmldsig`."""
        if depth > 6 or q in self.funcs or q in self.classes or q in self.modules:
            return q
        parts = q.split(".")
        for i in range(len(parts) - 1, 0, -1):
            modname = ".".join(parts[:i])
            mi = self.modules.get(modname)
            if mi is None:
                continue
            nxt = parts[i]
            rest = parts[i + 1:]
            if nxt in mi.functions or nxt in mi.classes:
                return q
            if nxt in mi.imports:
                tgt = sorted(mi.imports[nxt])[0]
                return self._canon(".".join([tgt] + rest), depth + 1)
            return q
        return q

    def mro(self, qual):
        """Linearised ancestors (package classes only; simple DFS order with
        de-duplication keeping the last occurrence, adequate for the single
        and diamond-free hierarchies of this package)."""
        out = []
        seen = set()

        def rec(q):
            if q in seen:
                return
            seen.add(q)
            out.append(q)
            ci = self.classes.get(q)
            if ci:
                for b in ci.bases:
                    rec(b)
        rec(qual)
        return out

    def subclasses(self, qual, strict=False):
        res = []
        for q in self.classes:
            if qual in self.mro(q) and not (strict and q == qual):
                res.append(q)
        return sorted(res)

    def method(self, cls_qual, name):
        """Resolve a method through the MRO."""
        for q in self.mro(cls_qual):
            ci = self.classes.get(q)
            if ci and name in ci.methods:
                return ci.methods[name]
        return None

    def is_subclass(self, qual, base):
        if qual == base:
            return True
        return base in self.mro(qual)

    def exc_is_subclass(self, name, base):
        """Exception compatibility using package classes + builtins, by (possibly
        unqualified) class name.  Returns True / False / None(unknown)."""
        if name == base:
            return True
        if base in ("BaseException",):
            return True
        b_obj = getattr(builtins, base, None)
        n_obj = getattr(builtins, name, None)
        if isinstance(n_obj, type) and isinstance(b_obj, type):
            return issubclass(n_obj, b_obj)
        # package classes: match by short name over all modules
        cands = [q for q in self.classes if q.rsplit(".", 1)[1] == name]
        if not cands:
            return None
        verdicts = set()
        for q in cands:
            anc = self.mro(q)
            short = {a.rsplit(".", 1)[-1] for a in anc}
            if base in short:
                verdicts.add(True)
                continue
            # ancestors that are builtins
            hit = False
            for a in short:
                a_obj = getattr(builtins, a, None)
                if isinstance(a_obj, type) and isinstance(b_obj, type) and \
                        issubclass(a_obj, b_obj):
                    hit = True
            verdicts.add(hit)
        if verdicts == {True}:
            return True
        if verdicts == {False}:
            return False
        return None

    def all_functions(self, module_prefix=None):
        for q, fi in sorted(self.funcs.items()):
            if module_prefix is None or fi.module.startswith(module_prefix):
                yield fi

    def iter_calls(self, modules=None):
        """Yield (FuncInfo-or-None, ModuleInfo, ast.Call) for every call in the
        package (module top level reported with FuncInfo None)."""
        for mname, mi in sorted(self.modules.items()):
            if modules is not None and mname not in modules:
                continue
            for node in ast.walk(mi.tree):
                if isinstance(node, ast.Call):
                    yield mi, node

    def enclosing_function(self, mi, target):
        """FuncInfo whose body contains AST node `target` (innermost named def)."""
        # by identity first: statements expanded from a helper keep the
        # helper's line numbers but live in the caller
        idx = self.__dict__.get("_encl_index")
        if idx is None or self.__dict__.get("_encl_count") != len(self.funcs):
            idx = {}
            for fi in self.funcs.values():
                for sub in ast.walk(fi.node):
                    cur = idx.get(id(sub))
                    # innermost named def wins: a method of a nested class or
                    # a nested def registered on its own is smaller
                    if cur is None or len(cur.qual) < len(fi.qual):
                        idx[id(sub)] = fi
            self._encl_index = idx
            self._encl_count = len(self.funcs)
        hit = idx.get(id(target))
        if hit is not None:
            return hit
        best = None
        for fi in self.funcs.values():
            if fi.module != mi.name:
                continue
            n = fi.node
            if n.lineno <= target.lineno <= (n.end_lineno or n.lineno):
                if best is None or n.lineno >= best.node.lineno:
                    best = fi
        return best

    def digests(self):
        return {m: self.modules[m].digest for m in sorted(self.consulted)
                if m in self.modules}
