"""Small AST/CFG matching helpers shared by the property rules."""
import ast

from .srcmodel import (attr_chain, call_name, unparse, walk_no_nested,
                       norm_text, AnalysisError)
from .cfg import atoms


def calls_named(root, *names):
    return [n for n in walk_no_nested(root)
            if isinstance(n, ast.Call) and call_name(n) in names]


def all_calls_named(tree, *names):
    """Including nested defs (module-wide search)."""
    return [n for n in ast.walk(tree)
            if isinstance(n, ast.Call) and call_name(n) in names]


_SIGS = {}


def set_model(model):
    """Record the positional parameter names of every function of the package
    by last name, so that arg_of() finds an argument whether the call passes it
    by position or by keyword."""
    _SIGS.clear()
    for q, fi in model.funcs.items():
        ps = [a.arg for a in fi.node.args.posonlyargs + fi.node.args.args]
        if fi.cls and ps and ps[0] in ("self", "cls"):
            ps = ps[1:]
        _SIGS.setdefault(fi.name, []).append(ps)


def _param_name(call, pos):
    from .srcmodel import call_name
    cands = _SIGS.get(call_name(call) or "", [])
    names = {ps[pos] for ps in cands if len(ps) > pos}
    return names.pop() if len(names) == 1 else None


def _param_pos(call, kw):
    from .srcmodel import call_name
    cands = _SIGS.get(call_name(call) or "", [])
    poss = {ps.index(kw) for ps in cands if kw in ps}
    return poss.pop() if len(poss) == 1 and cands and \
        all(kw in ps for ps in cands) else None


def arg_of(call, pos=None, kw=None):
    """Argument AST by keyword name or position; when only one of the two is
    given, the other is looked up in the callee's signature (all package
    functions of that name must agree), so f(a, b) and f(a, y=b) are the same
    call to a rule."""
    if kw is None and pos is not None:
        kw = _param_name(call, pos)
    elif pos is None and kw is not None:
        pos = _param_pos(call, kw)
    if kw is not None:
        for k in call.keywords:
            if k.arg == kw:
                return k.value
    if pos is not None and pos < len(call.args):
        a = call.args[pos]
        if not isinstance(a, ast.Starred):
            return a
    return None


def has_starargs(call):
    return any(isinstance(a, ast.Starred) for a in call.args) or \
        any(k.arg is None for k in call.keywords)


def chains_in(expr):
    """All attribute chains / names read inside an expression."""
    out = set()
    for n in ast.walk(expr):
        if isinstance(n, (ast.Attribute, ast.Name)):
            c = attr_chain(n)
            if c:
                out.add(c)
    return out


def mentions(expr, chain):
    """Does the expression read `chain` (exactly, or as a prefix of a longer
    attribute chain)?"""
    for c in chains_in(expr):
        if c == chain or c.startswith(chain + ".") or c.startswith(chain + "["):
            return True
    return False


def mentions_attr(expr, attr):
    for n in ast.walk(expr):
        if isinstance(n, ast.Attribute) and n.attr == attr:
            return True
        if isinstance(n, ast.Name) and n.id == attr:
            return True
    return False


def dnf(expr, polarity):
    """Disjunction of conjunctions of atoms (expr, polarity) implied by the test
    evaluating to `polarity`."""
    if isinstance(expr, ast.UnaryOp) and isinstance(expr.op, ast.Not):
        return dnf(expr.operand, not polarity)
    if isinstance(expr, ast.BoolOp):
        is_and = isinstance(expr.op, ast.And)
        if is_and == polarity:
            # conjunction of the parts: cross product
            acc = [[]]
            for v in expr.values:
                part = dnf(v, polarity)
                acc = [a + p for a in acc for p in part]
                if len(acc) > 64:
                    return [[(expr, polarity)]]
            return acc
        out = []
        for v in expr.values:
            out.extend(dnf(v, polarity))
        return out
    return [[(expr, polarity)]]


class just(object):
    """Justification predicate for unguarded_path(): a branch atom equal to one
    of `specs` = (source text, polarity).  Texts are written with the
    function's local names; both sides are compared canonically and with
    single-definition locals expanded at the branch, so `if not x.y:` and
    `tmp = x.y ... if not tmp:` justify alike."""
    wants_nid = True

    def __init__(self, cfg, *specs):
        self.cfg = cfg
        self.specs = [Q(t, p) for t, p in specs]

    def __call__(self, e, pol, nid=None):
        from . import canon
        et = canon.ctext(e)
        for t, p in self.specs:
            if p != pol:
                continue
            if et == t:
                return True
            if nid is not None:
                try:
                    want = ast.parse(t, mode="eval").body
                    if self.cfg.itext(e, nid) == self.cfg.itext(want, nid):
                        return True
                except SyntaxError:
                    pass
        return False


def extra_guards(cfg, nid, *allowed):
    """Guard atoms of node nid that are none of `allowed` = (text, polarity),
    compared canonically and with intermediate names expanded."""
    j = just(cfg, *allowed)
    out = []
    for e, p, bid in cfg.guards(nid):
        if not j(e, p, cfg.nodes[bid].test):
            out.append((" ".join(unparse(e).split()), p))
    return out


def branch_justifies(cfg_node, is_justification, cfg=None):
    """A branch node justifies skipping a check when every disjunct of its
    (canonical) condition contains at least one justification atom."""
    if cfg_node.kind not in ("true", "false"):
        return False
    if cfg is None:
        alts_list = [dnf(cfg_node.ast, cfg_node.kind == "true")]
    else:
        alts_list = [cfg.cdnf(cfg_node.id), cfg.cdnf(cfg_node.id, inline=True)]
    if getattr(is_justification, "wants_nid", False):
        tn = cfg_node.test if cfg is not None else None
        fn = lambda e, pol: is_justification(e, pol, tn)
    else:
        fn = is_justification
    for alts in alts_list:
        if all(any(fn(e, pol) for e, pol in conj) for conj in alts):
            return True
    return False


def unguarded_path(cfg, src, sinks, check_nodes, is_justification, avoid=()):
    """A path src -> one of `sinks` that visits neither a check node nor a
    justifying branch; None when every such path is covered."""
    block = set(check_nodes) | set(avoid)
    for n in cfg.nodes:
        if n.kind in ("true", "false") and branch_justifies(
                n, is_justification, cfg):
            block.add(n.id)
    for s in sinks:
        p = cfg.path(src, s, block)
        if p is not None:
            return p
    return None


def only_raises_from(cfg, nid, ignore_exc=True):
    """From this node normal control flow can only end in an explicit raise:
    the normal return is unreachable.  Incidental exceptions of the statements
    on the way (the `exc` twins, e.g. a logging call failing and being caught by
    an enclosing handler) are not followed unless ignore_exc is False."""
    avoid = [n.id for n in cfg.nodes if n.kind == "exc"] if ignore_exc else []
    r = cfg.reachable_from(nid, avoid=avoid)
    return cfg.return_exit not in r


def raise_nodes(cfg, classname=None):
    out = []
    for n in cfg.by_kind("raise"):
        if classname is None:
            out.append(n)
        else:
            from .cfg import raised_class
            if raised_class(n.ast) == classname:
                out.append(n)
    return out


def stmt_key(fi, node):
    return "%s::%s" % (fi.qual, norm_text(node))


def single(items, what):
    if len(items) != 1:
        raise AnalysisError("expected exactly one %s, found %d" %
                            (what, len(items)))
    return items[0]


def assigns_to_attr(tree, attr):
    """[(Assign stmt, target Attribute, value)] for `<x>.<attr> = value` anywhere
    in a module tree (including class-level `attr = value`)."""
    out = []
    for n in ast.walk(tree):
        if isinstance(n, ast.Assign):
            for t in n.targets:
                elts = t.elts if isinstance(t, (ast.Tuple, ast.List)) else [t]
                for tt in elts:
                    if isinstance(tt, ast.Attribute) and tt.attr == attr:
                        out.append((n, tt, n.value))
        elif isinstance(n, ast.AugAssign):
            if isinstance(n.target, ast.Attribute) and n.target.attr == attr:
                out.append((n, n.target, n.value))
    return out


def is_true_const(node):
    return isinstance(node, ast.Constant) and node.value is True


def is_falsy_const(node):
    return node is None or (isinstance(node, ast.Constant) and not node.value)


def compare_parts(expr):
    """(left, op, right) of a simple binary comparison, else None."""
    if isinstance(expr, ast.Compare) and len(expr.ops) == 1:
        return expr.left, expr.ops[0], expr.comparators[0]
    return None


def str_consts(node):
    return [n.value for n in ast.walk(node)
            if isinstance(n, ast.Constant) and isinstance(n.value, str)]


def facts(cfg, nid, inline=True):
    """Canonical (text, polarity) guard facts of a node, as written and (unless
    inline=False) also with single-definition locals expanded - so a membership
    test finds a fact whether or not the source names an intermediate result.
    Pass inline=False where the *set* is compared exactly."""
    out = cfg.guard_texts(nid)
    if inline:
        out = out | cfg.guard_texts(nid, inline=True)
    return out


def Q(text, polarity=True):
    """Canonical (text, polarity) for an expectation written naturally."""
    from . import canon
    return canon.query(text, polarity)


def eval_context(test, target):
    """Facts implied by evaluation having reached sub-expression `target`
    inside the boolean expression `test`: earlier operands of an enclosing
    `and` were truthy, of an enclosing `or` falsy.  {text: 'T'/'F'}"""
    out = {}

    def rec(e):
        if e is target:
            return True
        if isinstance(e, ast.BoolOp):
            for i, v in enumerate(e.values):
                if any(x is target for x in ast.walk(v)):
                    for prev in e.values[:i]:
                        out[unparse(prev)] = "T" if isinstance(e.op, ast.And) \
                            else "F"
                    return rec(v)
            return False
        if isinstance(e, ast.UnaryOp):
            return rec(e.operand)
        return any(x is target for x in ast.walk(e))
    rec(test)
    return out


def result_reaches(cfg, nid, call, goals, value="F", assume=None, avoid=None):
    """Witness path from the node that evaluates `call` to one of `goals`
    under the assumption that the call's result is falsy (value='F') / truthy
    ('T') - however the result is consumed: tested directly, negated, as one
    operand of and/or, or first bound to a local that is tested later."""
    node = cfg.nodes[nid]
    env = dict(assume or {})
    env[unparse(call)] = value
    try:
        env[cfg.itext(call, nid)] = value
    except Exception:
        pass
    if node.kind == "test":
        env.update(eval_context(node.ast, call))
    goals = set(goals)
    return cfg.flag_search(nid, {}, lambda n, vd: n in goals, avoid=avoid or (),
                           assume=env)


def value_satisfies(cfg, name, nid, want, depth=5):
    """Does the value of local `name` at node nid satisfy `want(name, facts)`
    - either by the guards in force at nid, or, for every definition that
    reaches nid, by the guards in force where the value was produced (following
    plain copies `a = b`); a `None` definition is fine where nid is guarded by
    `name is not None` (or truthiness).  Lets a rule such as "only a non-empty
    text is returned" hold whether the test is made right before the return or
    where the value was obtained (e.g. in an expanded helper)."""
    fs = facts(cfg, nid)
    if want(name, fs):
        return True
    if depth <= 0:
        return False
    defs = cfg.rd.reaching(name, nid)
    if not defs:
        return False
    for d in defs:
        if d.kind != "assign" or d.value is None:
            return False
        v = d.value
        if isinstance(v, ast.Constant) and (v.value is None or v.value is False):
            if Q("%s is None" % name, False) in fs or Q(name, True) in fs:
                continue
            return False
        if isinstance(v, ast.Name):
            if value_satisfies(cfg, v.id, d.node, want, depth - 1):
                continue
            return False
        # produced here: fine when the test follows the assignment on EVERY
        # path from it to nid (no path avoids the branches that assert it and
        # the statements that give the name another value)
        sat = {n.id for n in cfg.nodes if n.kind in ("true", "false") and (
            want(name, cfg.branch_atoms(n.id)) or
            want(name, cfg.branch_atoms(n.id, inline=True)))}
        redefs = {x.node for x in cfg.rd.defs_of(name)
                  if x.node != d.node}
        if d.node in sat or d.node == nid:
            return False
        if cfg.path(d.node, nid, (sat | redefs) - {d.node, nid}) is None:
            continue
        return False
    return True
