"""Reaching definitions over a CFG and derivation (`origins`) queries.

origins(expr, at-node) expands local names through the definitions that reach the
node, looks through containers, formatting, subscripts, comprehensions and a
configurable set of transparent wrapper calls, and returns a set of Atoms:

  const   a literal                                text = repr(value)
  param   a parameter of the function              text = name
  attr    an attribute chain read (self.x, item.id) text = chain
  call    a call that is not transparent            text = callee chain
  global  a module-level / free name                text = name
  unknown anything else                             text = source text
"""
import ast

from .srcmodel import attr_chain, unparse, walk_no_nested

MUTATORS = {"append", "extend", "update", "insert", "add", "setdefault",
            "appendleft", "__setitem__"}


class Atom(object):
    __slots__ = ("kind", "text", "ast", "node", "guards")

    def __init__(self, kind, text, node_ast=None, node=None):
        self.kind, self.text, self.ast, self.node = kind, text, node_ast, node

    def key(self):
        return (self.kind, self.text)

    def __hash__(self):
        return hash(self.key())

    def __eq__(self, other):
        return self.key() == other.key()

    def __repr__(self):
        return "%s:%s" % (self.kind, self.text)


class Def(object):
    __slots__ = ("name", "node", "kind", "value", "weak")

    def __init__(self, name, node, kind, value, weak=False):
        self.name, self.node, self.kind, self.value, self.weak = \
            name, node, kind, value, weak

    def __repr__(self):
        return "<def %s@%s %s>" % (self.name, self.node, self.kind)


def _target_names(t):
    return [n.id for n in ast.walk(t) if isinstance(n, ast.Name)]


class ReachingDefs(object):
    def __init__(self, cfg):
        self.cfg = cfg
        self.defs = []          # list of Def
        self.gen = {}           # node id -> [def idx]
        self._collect()
        self._solve()

    def _add(self, nid, name, kind, value, weak=False):
        self.defs.append(Def(name, nid, kind, value, weak))
        self.gen.setdefault(nid, []).append(len(self.defs) - 1)

    def _collect(self):
        cfg = self.cfg
        a = cfg.func.args
        params = [x.arg for x in a.posonlyargs + a.args + a.kwonlyargs]
        if a.vararg:
            params.append(a.vararg.arg)
        if a.kwarg:
            params.append(a.kwarg.arg)
        for p in params:
            self._add(cfg.entry, p, "param", None)
        for n in cfg.nodes:
            s = n.ast
            if n.kind == "stmt":
                if isinstance(s, ast.Assign):
                    for t in s.targets:
                        self._assign_target(n.id, t, s.value)
                elif isinstance(s, ast.AnnAssign) and s.value is not None:
                    self._assign_target(n.id, s.target, s.value)
                elif isinstance(s, ast.AugAssign):
                    if isinstance(s.target, ast.Name):
                        self._add(n.id, s.target.id, "aug", s.value, weak=True)
                    else:
                        self._assign_target(n.id, s.target, s.value)
                elif isinstance(s, (ast.Import, ast.ImportFrom)):
                    for al in s.names:
                        self._add(n.id, (al.asname or al.name).split(".")[0],
                                  "import", s)
                elif isinstance(s, (ast.FunctionDef, ast.ClassDef)):
                    self._add(n.id, s.name, "def", s)
                elif isinstance(s, ast.Expr) and isinstance(s.value, ast.Call):
                    c = s.value
                    if isinstance(c.func, ast.Attribute) and \
                            c.func.attr in MUTATORS:
                        root = c.func.value
                        while isinstance(root, (ast.Attribute, ast.Subscript)):
                            root = root.value
                        if isinstance(root, ast.Name) and \
                                isinstance(c.func.value, ast.Name):
                            self._add(n.id, root.id, "mutcall", c, weak=True)
                elif isinstance(s, ast.Delete):
                    pass
            elif n.kind == "iter":
                for nm in _target_names(s.target):
                    self._add(n.id, nm, "iter", s.iter)
            elif n.kind == "with":
                for it in s.items:
                    if it.optional_vars is not None:
                        for nm in _target_names(it.optional_vars):
                            self._add(n.id, nm, "with", it.context_expr)
            elif n.kind == "handler" and s.name:
                self._add(n.id, s.name, "exc", s.type)

    def _assign_target(self, nid, t, value):
        if isinstance(t, ast.Name):
            self._add(nid, t.id, "assign", value)
        elif isinstance(t, (ast.Tuple, ast.List)):
            for i, e in enumerate(t.elts):
                if isinstance(value, (ast.Tuple, ast.List)) and \
                        len(value.elts) == len(t.elts):
                    self._assign_target(nid, e, value.elts[i])
                else:
                    for nm in _target_names(e):
                        self._add(nid, nm, "unpack", value)
        elif isinstance(t, (ast.Attribute, ast.Subscript)):
            root = t.value
            while isinstance(root, (ast.Attribute, ast.Subscript)):
                root = root.value
            if isinstance(root, ast.Name) and isinstance(t, ast.Subscript) \
                    and isinstance(t.value, ast.Name):
                self._add(nid, root.id, "setitem", value, weak=True)
        elif isinstance(t, ast.Starred):
            self._assign_target(nid, t.value, value)

    def _solve(self):
        cfg = self.cfg
        n_nodes = len(cfg.nodes)
        by_name = {}
        for i, d in enumerate(self.defs):
            by_name.setdefault(d.name, set()).add(i)
        IN = [set() for _ in range(n_nodes)]
        OUT = [set() for _ in range(n_nodes)]
        work = list(range(n_nodes))
        inwork = set(work)
        while work:
            n = work.pop()
            inwork.discard(n)
            new_in = set()
            for p in cfg.pred[n]:
                new_in |= OUT[p]
            IN[n] = new_in
            out = set(new_in)
            for di in self.gen.get(n, ()):
                d = self.defs[di]
                if not d.weak:
                    out -= by_name[d.name]
            for di in self.gen.get(n, ()):
                out.add(di)
            if out != OUT[n]:
                OUT[n] = out
                for s in cfg.succ[n]:
                    if s not in inwork:
                        work.append(s)
                        inwork.add(s)
        self.IN, self.OUT = IN, OUT

    def reaching(self, name, nid):
        """Definitions of `name` that reach the *start* of node nid."""
        return [self.defs[i] for i in sorted(self.IN[nid])
                if self.defs[i].name == name]

    def defs_of(self, name):
        return [d for d in self.defs if d.name == name]


DEFAULT_TRANSPARENT = {
    # callee last-name -> which positional args flow through ("all" or indices)
    "str": "all", "bool": "all", "int": "all", "list": "all", "tuple": "all",
    "set": "all", "dict": "all", "sorted": "all", "reversed": "all",
    "strip": "recv", "lower": "recv", "upper": "recv", "encode": "recv",
    "decode": "recv", "copy": "recv", "format": "recv+all", "join": "all",
    "items": "recv", "keys": "recv", "values": "recv", "get": "recv",
    "deepcopy": "all", "enumerate": "all", "zip": "all", "filter": "all",
}


def _alternatives(e):
    """expressions one of which IS the value of e (conditional expressions,
    boolean operators, getattr defaults)"""
    if isinstance(e, ast.IfExp):
        return _alternatives(e.body) + _alternatives(e.orelse)
    if isinstance(e, ast.BoolOp):
        return [x for v in e.values for x in _alternatives(v)]
    if isinstance(e, ast.Call) and isinstance(e.func, ast.Name) and \
            e.func.id == "getattr" and len(e.args) == 3:
        return [e.args[2]]
    return [e]


class Origins(object):
    def __init__(self, cfg, rd=None, transparent=None, max_depth=40,
                 follow_new_helpers=True, _level=0):
        self.cfg = cfg
        self._tr_arg = transparent
        self._level = _level
        self.follow = follow_new_helpers and _level < 3
        self.rd = rd or ReachingDefs(cfg)
        self.transparent = dict(DEFAULT_TRANSPARENT)
        if transparent:
            self.transparent.update(transparent)
        self.max_depth = max_depth
        self.params = {d.name for d in self.rd.defs if d.kind == "param"}
        self.locals = {d.name for d in self.rd.defs}

    def of(self, expr, nid, comp_env=None):
        out = set()
        self._expand(expr, nid, out, set(), comp_env or {}, 0)
        return out

    def texts(self, expr, nid):
        return {a.text for a in self.of(expr, nid)}

    def _expand(self, e, nid, out, seen, env, depth):
        if depth > self.max_depth:
            out.add(Atom("unknown", unparse(e), e, nid))
            return
        rec = lambda x, at=nid, en=env: self._expand(x, at, out, seen, en,
                                                      depth + 1)
        if e is None:
            return
        if isinstance(e, ast.Constant):
            out.add(Atom("const", repr(e.value), e, nid))
        elif isinstance(e, ast.Name):
            if e.id in env:
                rec(env[e.id])
                return
            if e.id not in self.locals:
                # a module-level name bound once to a literal is that literal
                model = getattr(self.cfg, "model", None)
                fi = getattr(self.cfg, "fi", None)
                mi = model.modules.get(fi.module) if model and fi else None
                vals = mi.assigns.get(e.id) if mi is not None else None
                if vals and len(vals) == 1 and \
                        isinstance(vals[0], ast.Constant):
                    out.add(Atom("const", repr(vals[0].value), vals[0], nid))
                    return
                out.add(Atom("global", e.id, e, nid))
                return
            defs = self.rd.reaching(e.id, nid)
            if not defs:
                # defined nowhere before this point on any path
                out.add(Atom("unknown", e.id, e, nid))
            for d in defs:
                k = (id(d), )
                if k in seen:
                    continue
                seen.add(k)
                if d.kind == "param":
                    out.add(Atom("param", d.name, None, d.node))
                elif d.kind in ("assign", "aug", "setitem"):
                    self._expand(d.value, d.node, out, seen, env, depth + 1)
                elif d.kind == "unpack":
                    self._expand(d.value, d.node, out, seen, env, depth + 1)
                elif d.kind == "iter":
                    self._expand(d.value, d.node, out, seen, env, depth + 1)
                elif d.kind == "with":
                    self._expand(d.value, d.node, out, seen, env, depth + 1)
                elif d.kind == "mutcall":
                    for a in d.value.args:
                        self._expand(a, d.node, out, seen, env, depth + 1)
                    for kw in d.value.keywords:
                        self._expand(kw.value, d.node, out, seen, env,
                                     depth + 1)
                elif d.kind == "exc":
                    out.add(Atom("unknown", "exception:" + unparse(d.value),
                                 d.value, d.node))
                else:
                    out.add(Atom("global", d.name, None, d.node))
        elif isinstance(e, ast.Attribute):
            ch = attr_chain(e)
            if ch is not None and "()" not in ch and "[]" not in ch:
                root = ch.split(".")[0]
                if root in env:
                    # attribute of a comprehension variable: element of iter
                    sub = set()
                    self._expand(env[root], nid, sub, seen, env, depth + 1)
                    for a in sub:
                        out.add(Atom("attr", a.text + "[*]." +
                                     ".".join(ch.split(".")[1:]), e, nid))
                    return
                out.add(Atom("attr", ch, e, nid))
            else:
                # attribute of a call/subscript result
                base = set()
                self._expand(e.value, nid, base, seen, env, depth + 1)
                for a in base:
                    out.add(Atom(a.kind if a.kind in ("call", "attr") else
                                 "attr", a.text + "." + e.attr, e, nid))
        elif isinstance(e, ast.Subscript):
            rec(e.value)
        elif isinstance(e, ast.Call):
            self._call(e, nid, out, seen, env, depth)
        elif isinstance(e, (ast.BinOp,)):
            rec(e.left)
            rec(e.right)
        elif isinstance(e, ast.BoolOp):
            # `a or b` never evaluates to a falsy alternative of a (nor
            # `a and b` to a truthy one): those constants are not origins
            is_or = isinstance(e.op, ast.Or)
            for i, v in enumerate(e.values):
                if i == len(e.values) - 1:
                    rec(v)
                    continue
                sub = set()
                self._expand(v, nid, sub, seen, env, depth + 1)
                drop = {id(c) for c in _alternatives(v)
                        if isinstance(c, ast.Constant) and
                        bool(c.value) != is_or}
                out |= {a for a in sub if not (a.kind == "const" and
                                               id(a.ast) in drop)}
        elif isinstance(e, ast.UnaryOp):
            rec(e.operand)
        elif isinstance(e, ast.IfExp):
            rec(e.body)
            rec(e.orelse)
        elif isinstance(e, (ast.List, ast.Tuple, ast.Set)):
            for x in e.elts:
                rec(x)
        elif isinstance(e, ast.Dict):
            for k, v in zip(e.keys, e.values):
                rec(v)
        elif isinstance(e, ast.JoinedStr):
            for v in e.values:
                if isinstance(v, ast.FormattedValue):
                    rec(v.value)
        elif isinstance(e, ast.FormattedValue):
            rec(e.value)
        elif isinstance(e, ast.Starred):
            rec(e.value)
        elif isinstance(e, (ast.ListComp, ast.SetComp, ast.GeneratorExp,
                            ast.DictComp)):
            env2 = dict(env)
            for g in e.generators:
                for nm in _target_names(g.target):
                    env2[nm] = g.iter
            if isinstance(e, ast.DictComp):
                self._expand(e.value, nid, out, seen, env2, depth + 1)
            else:
                self._expand(e.elt, nid, out, seen, env2, depth + 1)
        elif isinstance(e, ast.Compare):
            out.add(Atom("unknown", "cmp:" + unparse(e), e, nid))
        elif isinstance(e, ast.Lambda):
            out.add(Atom("unknown", "lambda", e, nid))
        else:
            out.add(Atom("unknown", unparse(e), e, nid))

    def _call(self, c, nid, out, seen, env, depth):
        f = c.func
        name = f.attr if isinstance(f, ast.Attribute) else \
            (f.id if isinstance(f, ast.Name) else None)
        mode = self.transparent.get(name)
        rec = lambda x: self._expand(x, nid, out, seen, env, depth + 1)
        if mode:
            if isinstance(mode, (tuple, list)):
                for i in mode:
                    if i < len(c.args):
                        rec(c.args[i])
                return
            if "recv" in mode and isinstance(f, ast.Attribute):
                rec(f.value)
            if "all" in mode or not isinstance(f, ast.Attribute):
                for a in c.args:
                    rec(a)
                for kw in c.keywords:
                    rec(kw.value)
            return
        if name == "getattr" and isinstance(f, ast.Name) and \
                len(c.args) in (2, 3) and isinstance(c.args[1], ast.Constant) \
                and isinstance(c.args[1].value, str) and \
                c.args[1].value.isidentifier():
            # getattr(x, "name"[, default]) is x.name (or the default)
            rec(ast.copy_location(ast.Attribute(
                value=c.args[0], attr=c.args[1].value, ctx=ast.Load()), c))
            if len(c.args) == 3:
                rec(c.args[2])
            return
        if self.follow and self._follow_helper(c, nid, out, seen, env, depth):
            return
        ch = attr_chain(f)
        out.add(Atom("call", ch or unparse(f), c, nid))

    def _follow_helper(self, c, nid, out, seen, env, depth):
        """A call to a helper that does not exist in the reference tree and
        could not be expanded inline (returns inside try/loops) is followed
        into: the origins of its returned values, with its parameters replaced
        by the origins of the actual arguments."""
        fi = getattr(self.cfg, "fi", None)
        model = getattr(self.cfg, "model", None)
        if fi is None or model is None:
            return False
        from . import inline
        ex = getattr(model, "_expander", None)
        if ex is None:
            ex = inline.Expander(model)
            model._expander = ex
        if ex.ref is None:
            return False
        nested = {n.name: n for n in fi.node.body
                  if isinstance(n, ast.FunctionDef)}
        try:
            tgt = ex.resolve(fi, c, nested)
        except Exception:
            tgt = None
        if not tgt:
            return False
        fn, drop_self = tgt
        hfi = None
        for q, cand in model.funcs.items():
            if cand.node is fn:
                hfi = cand
        if hfi is None:
            return False
        from .cfg import cfg_of
        hcfg = cfg_of(hfi, model)
        horg = Origins(hcfg, transparent=self._tr_arg, _level=self._level + 1)
        params = [a.arg for a in fn.args.args]
        if drop_self:
            params = params[1:]
        actual = dict(zip(params, c.args))
        for k in c.keywords:
            if k.arg:
                actual[k.arg] = k.value
        rets = hcfg.by_kind("return")
        if not rets:
            return False
        for r in rets:
            if r.ast.value is None:
                out.add(Atom("const", "None", None, nid))
                continue
            for a in horg.of(r.ast.value, r.id):
                if a.kind == "param" and a.text in actual:
                    self._expand(actual[a.text], nid, out, seen, env, depth + 1)
                elif a.kind == "param" and a.text == "self":
                    out.add(Atom("attr", "self", None, nid))
                elif a.kind == "param":
                    d = hfi.param_default(a.text)
                    if d is not None:
                        self._expand(d, nid, out, seen, env, depth + 1)
                    else:
                        out.add(a)
                else:
                    out.add(a)
        return True


def self_attr_assignments(model, cls_qual, attr, include_subclasses=True):
    """All `self.<attr> = value` assignments in the hierarchy of cls_qual:
    [(FuncInfo, Assign stmt, value)]."""
    out = []
    quals = set(model.mro(cls_qual))
    if include_subclasses:
        quals |= set(model.subclasses(cls_qual))
    for q in sorted(quals):
        ci = model.classes.get(q)
        if not ci:
            continue
        for fi in ci.methods.values():
            for n in walk_no_nested(fi.node):
                if isinstance(n, ast.Assign):
                    for t in n.targets:
                        for tt in (t.elts if isinstance(t, ast.Tuple) else [t]):
                            if isinstance(tt, ast.Attribute) and \
                                    tt.attr == attr and \
                                    isinstance(tt.value, ast.Name) and \
                                    tt.value.id == "self":
                                out.append((fi, n, n.value))
    return out


def inline_expr(rd, expr, nid, depth=8, keep=()):
    """Copy of `expr` in which every local name with exactly one reaching
    plain assignment is replaced by the assigned expression (recursively).
    Names in `keep` are left alone."""
    import copy

    def rec(e, at, d, stack):
        if isinstance(e, ast.Name) and isinstance(e.ctx, ast.Load) and d > 0 \
                and e.id not in keep:
            defs = rd.reaching(e.id, at)
            if len(defs) == 1 and defs[0].kind == "assign" and \
                    defs[0].value is not None and id(defs[0]) not in stack:
                return rec(defs[0].value, defs[0].node, d - 1,
                           stack | {id(defs[0])})
            return copy.copy(e)
        if isinstance(e, (ast.Lambda, ast.ListComp, ast.SetComp, ast.DictComp,
                          ast.GeneratorExp)):
            return copy.deepcopy(e)
        new = copy.copy(e)
        for field, val in ast.iter_fields(e):
            if isinstance(val, ast.AST):
                setattr(new, field, rec(val, at, d, stack))
            elif isinstance(val, list):
                setattr(new, field, [rec(x, at, d, stack)
                                     if isinstance(x, ast.AST) else x
                                     for x in val])
        return new
    return rec(expr, nid, depth, frozenset())
