"""Statement-level control-flow graph for one Python function, with explicit
branch-edge nodes, exception edges, duplicated `finally` bodies, dominators,
path witnesses, guard sets and a small flag-sensitive reachability search.

Node kinds
  entry, return_exit, raise_exit      function boundaries
  stmt      a simple statement that completed normally (ast = the statement)
  exc       the same statement raising instead (ast = the statement)
  test      evaluation of an if/while test (ast = test expression)
  true/false  branch taken (ast = test expression; .test = id of test node)
  foriter   evaluation of the iterable of a for loop (ast = For)
  for       loop header
  iter      one more item bound to the target (ast = For)
  exhausted loop finished normally (ast = For)
  with      context managers entered (ast = With)
  handler   an except clause entered (ast = ExceptHandler)
  return    a return statement (ast = Return)
  raise     a raise statement (ast = Raise)
  join      structural no-op
"""
import ast
from collections import deque

from .srcmodel import AnalysisError, unparse, walk_no_nested, call_name

CATCH_ALL = ("Exception", "BaseException")
T, F, U = "T", "F", "U"   # abstract truthiness


class Node(object):
    __slots__ = ("id", "kind", "ast", "test", "lineno", "caught", "stmt")

    def __init__(self, nid, kind, node=None, test=None, caught=None):
        self.id, self.kind, self.ast, self.test, self.caught = \
            nid, kind, node, test, caught
        self.lineno = getattr(node, "lineno", None)
        self.stmt = None

    def text(self):
        if self.kind in ("entry", "return_exit", "raise_exit", "join", "for"):
            return self.kind
        if self.kind in ("foriter", "iter", "exhausted"):
            return "%s(for %s in %s)" % (self.kind, unparse(self.ast.target),
                                          unparse(self.ast.iter))
        if self.kind == "handler":
            return "except %s" % (unparse(self.ast.type) or "<bare>")
        if self.kind == "with":
            return "with " + ", ".join(unparse(i) for i in self.ast.items)
        s = " ".join(unparse(self.ast).split())
        if len(s) > 110:
            s = s[:107] + "..."
        return "%s[%s]" % (self.kind, s)

    def ctext(self):
        """text() with a branch expressed canonically: negations are folded
        into the branch kind, so `false[not x]` and `true[x]` (the two ways of
        writing the same arm) read the same."""
        if self.kind not in ("true", "false"):
            return self.text()
        from . import canon
        e = canon.normalize(self.ast)
        kind = self.kind
        while isinstance(e, ast.UnaryOp) and isinstance(e.op, ast.Not):
            e = e.operand
            kind = "false" if kind == "true" else "true"
        s = canon.ctext(e)
        if len(s) > 110:
            s = s[:107] + "..."
        return "%s[%s]" % (kind, s)

    def __repr__(self):
        return "<%d:%s@%s>" % (self.id, self.text(), self.lineno)


def may_raise(node):
    """Over-approximation: can evaluating this statement/expression raise?"""
    if isinstance(node, (ast.Pass, ast.Break, ast.Continue, ast.Global,
                         ast.Nonlocal)):
        return False
    if isinstance(node, (ast.FunctionDef, ast.AsyncFunctionDef, ast.ClassDef)):
        return False
    if isinstance(node, (ast.Assert, ast.Raise, ast.Delete, ast.Import,
                         ast.ImportFrom)):
        return True
    for n in walk_no_nested(node):
        if isinstance(n, (ast.Call, ast.Subscript, ast.BinOp, ast.Await,
                          ast.Yield, ast.YieldFrom, ast.Starred)):
            return True
        if isinstance(n, ast.Attribute) and isinstance(n.ctx, ast.Load):
            return True
        if isinstance(n, ast.Compare) and any(
                isinstance(o, (ast.In, ast.NotIn, ast.Lt, ast.Gt, ast.LtE,
                               ast.GtE)) for o in n.ops):
            return True
        if isinstance(n, (ast.Tuple, ast.List)) and isinstance(n.ctx, ast.Store):
            return True  # unpacking
    return False


def handler_names(h):
    """Class names an ExceptHandler catches; None for a bare except."""
    if h.type is None:
        return None
    t = h.type
    elts = t.elts if isinstance(t, ast.Tuple) else [t]
    out = []
    for e in elts:
        if isinstance(e, ast.Attribute):
            out.append(e.attr)
        elif isinstance(e, ast.Name):
            out.append(e.id)
        else:
            out.append(unparse(e))
    return out


def raised_class(r):
    """Class name raised by `raise X(...)`/`raise X`; None when unknown
    (bare re-raise, variable)."""
    e = r.exc
    if e is None:
        return None
    if isinstance(e, ast.Call):
        e = e.func
    if isinstance(e, ast.Attribute):
        nm = e.attr
    elif isinstance(e, ast.Name):
        nm = e.id
    else:
        return None
    return nm if nm[:1].isupper() else None


class CFG(object):
    def __init__(self, func_node, model=None, name=None):
        self.func = func_node
        self.model = model
        self.name = name or getattr(func_node, "name", "<lambda>")
        self.nodes = []
        self.succ = {}
        self.pred = {}
        self.entry = self._add("entry")
        self.return_exit = self._add("return_exit")
        self.raise_exit = self._add("raise_exit")
        self._frames = []
        exits = self._block(func_node.body, [self.entry])
        for e in exits:           # fall off the end: implicit `return None`
            self._jump("return", e)
        self._dom = None
        self._pdom = {}

    # ------------------------------------------------------------ building
    def _add(self, kind, node=None, test=None, caught=None):
        n = Node(len(self.nodes), kind, node, test, caught)
        self.nodes.append(n)
        self.succ[n.id] = []
        self.pred[n.id] = []
        return n.id

    def _edge(self, a, b):
        if b not in self.succ[a]:
            self.succ[a].append(b)
            self.pred[b].append(a)

    def _edges(self, preds, b):
        for p in preds:
            self._edge(p, b)

    def _exc_is_sub(self, name, base):
        if name == base:
            return True
        if self.model is not None:
            return self.model.exc_is_subclass(name, base)
        return None

    def _route_exception(self, src, clsname, start=None):
        """Connect `src` (an exc/raise node) to whatever may catch it."""
        i = len(self._frames) - 1 if start is None else start
        covered = []     # classes an inner handler has already taken
        while i >= 0:
            fr = self._frames[i]
            if fr[0] == "finally":
                fr[1]["raise"].append((src, clsname))
                return
            if fr[0] == "try":
                for hnode, names in fr[1]:
                    if names is None:
                        self._edge(src, hnode)
                        return
                    if clsname is None:
                        # an exception of a class that an inner handler
                        # catches never arrives at this one
                        if covered and all(any(self._exc_is_sub(n, c) is True
                                               for c in covered)
                                           for n in names):
                            continue
                        self._edge(src, hnode)
                        if any(n in CATCH_ALL for n in names):
                            return
                        covered.extend(names)
                        continue
                    verdicts = [self._exc_is_sub(clsname, n) for n in names]
                    if any(v is True for v in verdicts):
                        self._edge(src, hnode)
                        return
                    if any(v is None for v in verdicts):
                        self._edge(src, hnode)
            i -= 1
        self._edge(src, self.raise_exit)

    def _jump(self, kind, src):
        i = len(self._frames) - 1
        while i >= 0:
            fr = self._frames[i]
            if fr[0] == "finally":
                fr[1][kind].append(src)
                return
            if fr[0] == "loop" and kind in ("break", "continue"):
                if kind == "break":
                    fr[1].append(src)
                else:
                    self._edge(src, fr[2])
                return
            i -= 1
        if kind == "return":
            self._edge(src, self.return_exit)
        else:
            raise AnalysisError("%s outside loop in %s" % (kind, self.name))

    def _simple(self, stmt, preds, kind="stmt"):
        """A simple statement: normal-completion node (+ exc twin)."""
        if may_raise(stmt):
            x = self._add("exc", stmt)
            self.nodes[x].stmt = stmt
            self._edges(preds, x)
            cls = None
            if isinstance(stmt, ast.Assert):
                cls = None  # AssertionError or anything raised by the test
            self._route_exception(x, cls)
            if isinstance(stmt, ast.Assert):
                x2 = self._add("exc", stmt)
                self._edges(preds, x2)
                self._route_exception(x2, "AssertionError")
        n = self._add(kind, stmt)
        self._edges(preds, n)
        return n

    def _test(self, expr, preds, owner):
        t = self._add("test", expr)
        self.nodes[t].stmt = owner
        self._edges(preds, t)
        if may_raise(expr):
            x = self._add("exc", expr)
            self.nodes[x].stmt = owner
            self._edges(preds, x)
            self._route_exception(x, None)
        tn = self._add("true", expr, test=t)
        fn = self._add("false", expr, test=t)
        self._edge(t, tn)
        self._edge(t, fn)
        return t, tn, fn

    def _block(self, stmts, preds):
        cur = list(preds)
        for s in stmts:
            if not cur:
                break       # unreachable code after return/raise
            cur = self._stmt(s, cur)
        return cur

    def _stmt(self, s, preds):
        if isinstance(s, ast.If):
            t, tn, fn = self._test(s.test, preds, s)
            a = self._block(s.body, [tn])
            b = self._block(s.orelse, [fn]) if s.orelse else [fn]
            return a + b
        if isinstance(s, ast.While):
            brk = []
            t, tn, fn = self._test(s.test, preds, s)
            const = s.test.value if isinstance(s.test, ast.Constant) else None
            self._frames.append(("loop", brk, t))
            body = self._block(s.body, [tn])
            self._frames.pop()
            self._edges(body, t)
            out = []
            if const in (True, 1):
                # false edge is dead
                self.pred[fn] = []
                self.succ[t] = [x for x in self.succ[t] if x != fn]
            else:
                out = self._block(s.orelse, [fn]) if s.orelse else [fn]
            return out + brk
        if isinstance(s, (ast.For, ast.AsyncFor)):
            fi = self._simple(s, preds, "foriter")
            h = self._add("for", s)
            self._edge(fi, h)
            it = self._add("iter", s)
            ex = self._add("exhausted", s)
            self._edge(h, it)
            self._edge(h, ex)
            brk = []
            self._frames.append(("loop", brk, h))
            body = self._block(s.body, [it])
            self._frames.pop()
            self._edges(body, h)
            out = self._block(s.orelse, [ex]) if s.orelse else [ex]
            return out + brk
        if isinstance(s, (ast.With, ast.AsyncWith)):
            w = self._simple(s, preds, "with")
            return self._block(s.body, [w])
        if isinstance(s, ast.Try) or type(s).__name__ == "TryStar":
            return self._try(s, preds)
        if isinstance(s, ast.Return):
            n = self._simple(s, preds, "return")
            self._jump("return", n)
            return []
        if isinstance(s, ast.Raise):
            n = self._add("raise", s)
            self._edges(preds, n)
            self._route_exception(n, raised_class(s))
            return []
        if isinstance(s, ast.Break):
            n = self._add("stmt", s)
            self._edges(preds, n)
            self._jump("break", n)
            return []
        if isinstance(s, ast.Continue):
            n = self._add("stmt", s)
            self._edges(preds, n)
            self._jump("continue", n)
            return []
        if type(s).__name__ == "Match":
            raise AnalysisError("match statement not supported (%s)" % self.name)
        return [self._simple(s, preds)]

    def _try(self, s, preds):
        has_final = bool(s.finalbody)
        coll = None
        if has_final:
            coll = {"return": [], "break": [], "continue": [], "raise": []}
            self._frames.append(("finally", coll))
        handlers = []
        for h in s.handlers:
            hn = self._add("handler", h, caught=handler_names(h))
            handlers.append((hn, handler_names(h)))
        if handlers:
            self._frames.append(("try", handlers))
        body = self._block(s.body, preds)
        if handlers:
            self._frames.pop()
        normal = self._block(s.orelse, body) if s.orelse else body
        for (hn, _names), h in zip(handlers, s.handlers):
            normal = normal + self._block(h.body, [hn])
        if not has_final:
            return normal
        self._frames.pop()
        out = []
        if normal:
            out = self._block(s.finalbody, normal)
        for kind in ("return", "break", "continue"):
            if coll[kind]:
                ex = self._block(s.finalbody, coll[kind])
                for e in ex:
                    self._jump(kind, e)
        if coll["raise"]:
            srcs = [a for a, _ in coll["raise"]]
            classes = {c for _, c in coll["raise"]}
            cls = classes.pop() if len(classes) == 1 else None
            ex = self._block(s.finalbody, srcs)
            for e in ex:
                j = self._add("join")
                self._edge(e, j)
                self._route_exception(j, cls)
        return out

    # -------------------------------------------------------------- queries
    def reachable_from(self, src, avoid=()):
        avoid = set(avoid)
        seen = set()
        dq = deque([src] if src not in avoid else [])
        while dq:
            n = dq.popleft()
            if n in seen:
                continue
            seen.add(n)
            for m in self.succ[n]:
                if m not in seen and m not in avoid:
                    dq.append(m)
        return seen

    def path(self, src, dst, avoid=()):
        """Shortest node path src..dst avoiding `avoid`, or None."""
        avoid = set(avoid)
        if src in avoid or dst in avoid:
            return None
        prev = {src: None}
        dq = deque([src])
        while dq:
            n = dq.popleft()
            if n == dst:
                out = []
                while n is not None:
                    out.append(n)
                    n = prev[n]
                return out[::-1]
            for m in self.succ[n]:
                if m not in prev and m not in avoid:
                    prev[m] = n
                    dq.append(m)
        return None

    def describe_path(self, path, limit=14):
        items = [self.nodes[i] for i in path if self.nodes[i].kind not in
                 ("join", "for", "test")]
        txt = ["L%s %s" % (n.lineno, n.text()) if n.lineno else n.text()
               for n in items]
        if len(txt) > limit:
            txt = txt[:limit // 2] + ["..."] + txt[-limit // 2:]
        return txt

    def dominators(self):
        if self._dom is not None:
            return self._dom
        reach = self.reachable_from(self.entry)
        order = [n for n in range(len(self.nodes)) if n in reach]
        dom = {n: set(order) for n in order}
        dom[self.entry] = {self.entry}
        changed = True
        while changed:
            changed = False
            for n in order:
                if n == self.entry:
                    continue
                ps = [p for p in self.pred[n] if p in reach]
                new = set.intersection(*[dom[p] for p in ps]) if ps else set()
                new = new | {n}
                if new != dom[n]:
                    dom[n] = new
                    changed = True
        self._dom = dom
        return dom

    def dominates(self, a, b):
        d = self.dominators()
        return b in d and a in d[b]

    def must_pass(self, src, dst, through, avoid=()):
        """Every path src->dst (avoiding `avoid`) visits a node of `through`.
        Returns (True, None) or (False, witness path)."""
        p = self.path(src, dst, set(avoid) | set(through))
        return (p is None), p

    def live(self, n):
        return n in self.dominators()

    def by_kind(self, *kinds):
        return [n for n in self.nodes if n.kind in kinds and self.live(n.id)]

    def stmt_nodes(self):
        """Nodes that carry an executed statement/expression (not exc twins)."""
        return [n for n in self.nodes
                if n.kind in ("stmt", "test", "return", "raise", "foriter",
                              "with") and self.live(n.id)]

    def call_nodes(self, name, receiver=None):
        """(node, Call) for every live node whose own expression contains a call
        whose callee's last identifier is `name` (optionally the full attribute
        chain must equal `receiver + '.' + name`)."""
        out = []
        for n in self.stmt_nodes():
            for c in self.own_calls(n):
                if call_name(c) != name:
                    continue
                if receiver is not None:
                    from .srcmodel import attr_chain
                    if attr_chain(c.func) != receiver + "." + name:
                        continue
                out.append((n, c))
        return out

    def own_exprs(self, n):
        """AST roots evaluated by node n itself (a compound statement's body is
        not part of its header node)."""
        a = n.ast
        if n.kind == "foriter":
            return [a.iter]
        if n.kind == "with":
            return [i.context_expr for i in a.items]
        if n.kind in ("iter", "exhausted", "for", "handler", "join", "entry",
                      "return_exit", "raise_exit", "true", "false", "exc"):
            return []
        return [a] if a is not None else []

    def own_calls(self, n):
        out = []
        for r in self.own_exprs(n):
            out.extend(x for x in walk_no_nested(r) if isinstance(x, ast.Call))
        return out

    def node_of_stmt(self, stmt):
        for n in self.nodes:
            if n.ast is stmt and n.kind not in ("exc", "true", "false"):
                return n
        return None

    # ---------------------------------------------------------------- guards
    @property
    def rd(self):
        if getattr(self, "_rd", None) is None:
            from .dataflow import ReachingDefs
            self._rd = ReachingDefs(self)
        return self._rd

    def ctest(self, nid, keep=()):
        """Test expression of a test/true/false node with single-definition
        locals inlined (evaluated at the test node)."""
        n = self.nodes[nid]
        tn = n.test if n.kind in ("true", "false") else nid
        key = (tn, frozenset(keep))
        cache = self.__dict__.setdefault("_ctest", {})
        if key not in cache:
            from .dataflow import inline_expr
            cache[key] = inline_expr(self.rd, self.nodes[tn].ast, tn,
                                     keep=keep)
        return cache[key]

    def itext(self, expr, nid, keep=()):
        """Canonical text of `expr` as evaluated at node nid, with
        single-definition locals replaced by their defining expression - the
        same whether or not the source names intermediate results."""
        from .dataflow import inline_expr
        from . import canon
        e = inline_expr(self.rd, expr, nid, keep=keep)
        try:
            e = canon.normalize(e) if isinstance(e, ast.expr) else e
        except Exception:
            pass
        return canon.ctext(e)

    def same(self, expr, nid, text):
        """Is `expr` (evaluated at node nid) the expression `text` (written
        with the function's local names)?  Both are compared with
        single-definition locals expanded, so neither introducing nor removing
        a temporary on either side matters."""
        if expr is None:
            return False
        want = ast.parse(text, mode="eval").body
        return self.itext(expr, nid) == self.itext(want, nid)

    def iexprs(self):
        """{itext: [node ids]} for every sub-expression evaluated by the
        function (used for 'the function computes X somewhere' obligations)."""
        cache = self.__dict__.get("_iexprs")
        if cache is None:
            cache = {}
            for n in self.nodes:
                if n.kind in ("true", "false", "exc", "handler"):
                    continue
                for top in self.own_exprs(n):
                    for sub in ast.walk(top):
                        if isinstance(sub, ast.expr) and not isinstance(
                                sub, (ast.Constant,)) and not isinstance(
                                getattr(sub, "ctx", None), (ast.Store, ast.Del)):
                            try:
                                t = self.itext(sub, n.id)
                            except Exception:
                                continue
                            cache.setdefault(t, []).append(n.id)
            self.__dict__["_iexprs"] = cache
        return cache

    def computes(self, text):
        """Does the function evaluate an expression equal (after inlining
        temporaries and canonicalisation) to `text`?"""
        from . import canon
        want = canon.ctext(canon.normalize(ast.parse(text, mode="eval").body))
        return want in self.iexprs()

    def guards(self, nid, inline=False):
        """[(expr, polarity, branch_node_id)] for every branch node dominating
        `nid`, as canonical atoms (see sa/canon.py): negative operators are
        folded into the polarity, operands ordered, and/or/not decomposed where
        sound; with inline=True single-definition locals are replaced by their
        defining expression first."""
        from . import canon
        out = []
        dom = self.dominators().get(nid, set())
        for d in sorted(dom):
            n = self.nodes[d]
            if n.kind in ("true", "false") and d != nid:
                test = self.ctest(d) if inline else n.ast
                for e, pol in canon._atoms(test, n.kind == "true"):
                    out.append((e, pol, d))
        return out

    def branch_atoms(self, nid, inline=False):
        """Canonical (text, polarity) atoms asserted by the branch node itself
        (a true/false node), not by what dominates it."""
        from . import canon
        n = self.nodes[nid]
        if n.kind not in ("true", "false"):
            return set()
        test = self.ctest(nid) if inline else n.ast
        return {(canon.ctext(e), p)
                for e, p in canon._atoms(test, n.kind == "true")}

    def rd_locals(self):
        """Names bound in the function (parameters and assigned names)."""
        return {d.name for d in self.rd.defs}

    def branch_atom_asts(self, nid, inline=False):
        """[(ast, polarity)] canonical atoms asserted by a branch node."""
        from . import canon
        n = self.nodes[nid]
        if n.kind not in ("true", "false"):
            return []
        test = self.ctest(nid) if inline else n.ast
        return canon._atoms(test, n.kind == "true")

    def guard_texts(self, nid, inline=False):
        from . import canon
        return {(canon.ctext(e), p) for e, p, _ in self.guards(nid, inline)}

    def has_guard(self, nid, text, polarity=True):
        """Is the fact `text` (natural source text, any equivalent spelling)
        with `polarity` among the canonical guards of node nid - either as
        written or with single-definition locals inlined?"""
        from . import canon
        want = canon.query(text, polarity)
        return want in self.guard_texts(nid) or \
            want in self.guard_texts(nid, inline=True)

    def cdnf(self, nid, inline=False):
        """DNF of canonical atoms of a true/false branch node."""
        from . import canon
        n = self.nodes[nid]
        return canon._dnf(self.ctest(nid) if inline else n.ast,
                          n.kind == "true")

    def guard_handlers(self, nid):
        dom = self.dominators().get(nid, set())
        return [self.nodes[d] for d in sorted(dom)
                if self.nodes[d].kind == "handler"]

    # ------------------------------------------------- flag-sensitive search
    def flag_search(self, src, flags, goal, avoid=(), edge_filter=None,
                    assume=None):
        """Explore (node, valuation) pairs.  `flags` maps local names to an
        initial abstract value T/F/U.  Returns a witness path (list of node ids)
        to the first state for which goal(node_id, valuation_dict) is true, else
        None.  Assignments `name = <constant>` update the valuation, any other
        assignment to a flag makes it U; branch nodes whose test is decided the
        other way by the valuation are pruned."""
        from . import canon
        import re as _re
        # the "has returned" flags that expanding a helper with returns inside
        # loops / try blocks introduces are always followed exactly
        flags = dict(flags)
        for d in self.rd.defs:
            if _re.match(r"_ret__\d+$", d.name) and d.name not in flags:
                flags[d.name] = U
        names = sorted(flags)
        avoid = set(avoid)
        self._assume_raw = dict(assume) if assume else None
        self._assume_inl = {}
        assume = canon.canon_env(assume) if assume else None
        self._keep = frozenset(names)
        start = (src, tuple(flags[n] for n in names))
        prev = {start: None}
        dq = deque([start])
        while dq:
            st = dq.popleft()
            nid, val = st
            vd = dict(zip(names, val))
            if goal(nid, vd):
                out = []
                while st is not None:
                    out.append(st[0])
                    st = prev[st]
                return out[::-1]
            for m in self.succ[nid]:
                if m in avoid:
                    continue
                if edge_filter and not edge_filter(nid, m):
                    continue
                nv = self._transfer(self.nodes[m], vd, assume)
                if nv is None:
                    continue
                st2 = (m, tuple(nv[n] for n in names))
                if st2 not in prev:
                    prev[st2] = st
                    dq.append(st2)
        return None

    def _inline_env(self, raw, nid):
        """The assumed facts with single-definition locals expanded as they
        are at node nid (so that they match the expanded test there)."""
        from . import canon
        from .dataflow import inline_expr
        out = {}
        for k, v in raw.items():
            try:
                e = ast.parse(k, mode="eval").body
            except SyntaxError:
                continue
            e2 = inline_expr(self.rd, e, nid, keep=getattr(self, "_keep", ()))
            out[unparse(e2)] = v
        return canon.canon_env(out)

    def _transfer(self, node, vd, assume=None):
        vd = dict(vd)
        if node.kind in ("true", "false"):
            from . import canon
            env = vd
            if assume:
                env = dict(vd)
                env.update(assume)
            v = canon.eval3(node.ast, env)
            if v == U:
                # the same test with single-definition locals inlined - and
                # the assumed facts expanded the same way at this test
                env2 = env
                raw = getattr(self, "_assume_raw", None)
                if raw:
                    tn = node.test
                    if tn not in self._assume_inl:
                        self._assume_inl[tn] = self._inline_env(raw, tn)
                    env2 = dict(env)
                    env2.update(self._assume_inl[tn])
                v = canon.eval3(self.ctest(node.id,
                                           keep=getattr(self, "_keep", ())),
                                env2)
            want = T if node.kind == "true" else F
            if v != U and v != want:
                return None
            for e, pol in canon._atoms(node.ast, node.kind == "true"):
                if isinstance(e, ast.Name) and e.id in vd:
                    vd[e.id] = T if pol else F
            return vd
        if node.kind in ("stmt",) and isinstance(node.ast, (ast.Assign,
                                                             ast.AugAssign,
                                                             ast.AnnAssign)):
            targets = node.ast.targets if isinstance(node.ast, ast.Assign) \
                else [node.ast.target]
            for t in targets:
                for nm in ast.walk(t):
                    if isinstance(nm, ast.Name) and nm.id in vd:
                        if isinstance(node.ast, ast.Assign) and \
                                isinstance(t, ast.Name):
                            vd[nm.id] = eval3(node.ast.value, vd)
                        else:
                            vd[nm.id] = U
            return vd
        if node.kind == "iter":
            for nm in ast.walk(node.ast.target):
                if isinstance(nm, ast.Name) and nm.id in vd:
                    vd[nm.id] = U
            return vd
        if node.kind == "handler" and node.ast.name and node.ast.name in vd:
            vd[node.ast.name] = T
        return vd


def atoms(expr, polarity):
    """Decompose a test that is known to be `polarity` into atomic facts."""
    if isinstance(expr, ast.UnaryOp) and isinstance(expr.op, ast.Not):
        return atoms(expr.operand, not polarity)
    if isinstance(expr, ast.BoolOp):
        if isinstance(expr.op, ast.And) and polarity:
            out = []
            for v in expr.values:
                out.extend(atoms(v, True))
            return out
        if isinstance(expr.op, ast.Or) and not polarity:
            out = []
            for v in expr.values:
                out.extend(atoms(v, False))
            return out
    return [(expr, polarity)]


def eval3(expr, vd):
    """Three-valued truthiness of an expression under a flag valuation.  Keys of
    the valuation are names or the source text of any sub-expression."""
    if not isinstance(expr, (ast.Constant, ast.Name)):
        k = unparse(expr)
        if k in vd:
            return vd[k]
    if isinstance(expr, ast.Constant):
        return T if expr.value else F
    if isinstance(expr, ast.Name):
        return vd.get(expr.id, U)
    if isinstance(expr, ast.Attribute):
        return vd.get(unparse(expr), U)
    if isinstance(expr, ast.UnaryOp) and isinstance(expr.op, ast.Not):
        v = eval3(expr.operand, vd)
        return {T: F, F: T, U: U}[v]
    if isinstance(expr, ast.BoolOp):
        vals = [eval3(v, vd) for v in expr.values]
        if isinstance(expr.op, ast.And):
            if F in vals:
                return F
            return T if all(v == T for v in vals) else U
        if T in vals:
            return T
        return F if all(v == F for v in vals) else U
    if isinstance(expr, (ast.List, ast.Tuple, ast.Dict, ast.Set)):
        n = len(expr.keys) if isinstance(expr, ast.Dict) else len(expr.elts)
        return T if n else F
    return U


_CACHE = {}


def cfg_of(fi, model=None):
    key = id(fi.node)
    if key not in _CACHE:
        _CACHE[key] = CFG(fi.node, model, fi.qual)
        _CACHE[key].fi = fi
        _CACHE[key].model = model
    return _CACHE[key]
