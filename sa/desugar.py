"""Desugaring of list comprehensions that build a local list.

`x = [e for a in A for b in B if c]` and

    x = []
    for a in A:
        for b in B:
            if c:
                x.append(e)

compute the same list (the comprehension evaluates A, B, c and e in exactly this
order).  Rewriting a loop into a comprehension - or back - is a common
behaviour-preserving edit, so before any rule runs every such assignment is put
into the loop form, which is the one the rules' path and guard queries speak
about.  The comprehension's variables are private to it; when one of them is
also a name of the enclosing function it is renamed so that the loop form does
not clobber that name.
"""
import ast
import copy

from .srcmodel import unparse


def _names(fn):
    out = set()
    for n in ast.walk(fn):
        if isinstance(n, ast.Name):
            out.add(n.id)
        elif isinstance(n, ast.arg):
            out.add(n.arg)
    return out


class _Ren(ast.NodeTransformer):
    def __init__(self, mp):
        self.mp = mp

    def visit_Name(self, n):
        if n.id in self.mp:
            return ast.copy_location(ast.Name(id=self.mp[n.id], ctx=n.ctx), n)
        return n


def _target_names(t):
    return [n.id for n in ast.walk(t) if isinstance(n, ast.Name)]


def _loop_form(stmt, used_outside, counter):
    comp = stmt.value
    tgt = stmt.targets[0]
    # names of the comprehension that are also used elsewhere in the function
    mp = {}
    for g in comp.generators:
        for nm in _target_names(g.target):
            if nm in used_outside:
                counter[0] += 1
                mp[nm] = "%s__c%d" % (nm, counter[0])
    comp = copy.deepcopy(comp)
    if mp:
        # the first iterable is evaluated in the enclosing scope
        first = comp.generators[0].iter
        comp = _Ren(mp).visit(comp)
        comp.generators[0].iter = first
    body = [ast.Expr(value=ast.Call(
        func=ast.Attribute(value=ast.Name(id=tgt.id, ctx=ast.Load()),
                           attr="append", ctx=ast.Load()),
        args=[comp.elt], keywords=[]))]
    for g in reversed(comp.generators):
        for cond in reversed(g.ifs):
            body = [ast.If(test=cond, body=body, orelse=[])]
        body = [ast.For(target=g.target, iter=g.iter, body=body, orelse=[])]
        _store(g.target)
    init = ast.Assign(targets=[ast.Name(id=tgt.id, ctx=ast.Store())],
                      value=ast.List(elts=[], ctx=ast.Load()))
    out = [init] + body
    for n in out:
        ast.copy_location(n, stmt)
        for sub in ast.walk(n):
            if not hasattr(sub, "lineno") and isinstance(sub, (ast.expr,
                                                               ast.stmt)):
                ast.copy_location(sub, stmt)
        ast.fix_missing_locations(n)
    return out


def _store(t):
    for n in ast.walk(t):
        if isinstance(n, (ast.Name, ast.Tuple, ast.List)):
            n.ctx = ast.Store()


def _eligible(s):
    if not (isinstance(s, ast.Assign) and len(s.targets) == 1 and
            isinstance(s.targets[0], ast.Name) and
            isinstance(s.value, ast.ListComp)):
        return False
    comp = s.value
    if any(g.is_async for g in comp.generators):
        return False
    # the target must not be read by the comprehension itself
    t = s.targets[0].id
    if any(isinstance(n, ast.Name) and n.id == t for n in ast.walk(comp)):
        return False
    if any(isinstance(n, (ast.Lambda, ast.NamedExpr, ast.Yield, ast.Await))
           for n in ast.walk(comp)):
        return False
    return True


def _ifexp_form(s):
    """`t = a if c else b` -> `if c: t = a  else: t = b` (same for return):
    the conditional expression evaluates c, then exactly one of a / b, then
    binds - as the statement form does.  Only for targets whose evaluation has
    no part that runs before c (plain names and self attributes)."""
    if isinstance(s, ast.Assign) and len(s.targets) == 1 and \
            isinstance(s.value, ast.IfExp):
        t = s.targets[0]
        simple = isinstance(t, ast.Name) or (
            isinstance(t, ast.Attribute) and isinstance(t.value, ast.Name))
        if not simple:
            return None

        def mk(v):
            return ast.copy_location(ast.Assign(
                targets=[copy.deepcopy(t)], value=v, lineno=s.lineno), s)
    elif isinstance(s, ast.Return) and isinstance(s.value, ast.IfExp):
        def mk(v):
            return ast.copy_location(ast.Return(value=v), s)
    else:
        return None
    e = s.value
    new = ast.copy_location(ast.If(test=e.test, body=[mk(e.body)],
                                   orelse=[mk(e.orelse)]), s)
    ast.fix_missing_locations(new)
    return new


def _has_loop_ctl(stmts):
    """break/continue that would bind to a newly introduced loop."""
    stack = list(stmts)
    while stack:
        n = stack.pop()
        if isinstance(n, (ast.Break, ast.Continue)):
            return True
        if isinstance(n, (ast.For, ast.While, ast.FunctionDef, ast.ClassDef,
                          ast.AsyncFor, ast.Lambda)):
            continue
        stack.extend(ast.iter_child_nodes(n))
    return False


def _anyall_form(s, used_outside, counter):
    """`if any(P for x in X): A else: B` ->
           for x in X:
               if P: A; break
           else: B
    (all(P ...) is not any(not P ...)).  any() stops at the first truthy P, as
    the loop does; A and B must not contain break/continue of an outer loop."""
    if not isinstance(s, ast.If):
        return None
    t, neg = s.test, False
    if isinstance(t, ast.UnaryOp) and isinstance(t.op, ast.Not):
        t, neg = t.operand, True
    if not (isinstance(t, ast.Call) and isinstance(t.func, ast.Name) and
            t.func.id in ("any", "all") and len(t.args) == 1 and
            not t.keywords and isinstance(t.args[0], ast.GeneratorExp)):
        return None
    gen = t.args[0]
    if len(gen.generators) != 1 or gen.generators[0].is_async:
        return None
    if _has_loop_ctl(s.body) or _has_loop_ctl(s.orelse):
        return None
    g = copy.deepcopy(gen.generators[0])
    elt = copy.deepcopy(gen.elt)
    mp = {}
    for nm in _target_names(g.target):
        if nm in used_outside:
            counter[0] += 1
            mp[nm] = "%s__c%d" % (nm, counter[0])
    if mp:
        r = _Ren(mp)
        elt = r.visit(elt)
        g.target = r.visit(g.target)
        g.ifs = [r.visit(x) for x in g.ifs]
    pred = elt
    if t.func.id == "all":
        pred = ast.UnaryOp(op=ast.Not(), operand=elt)
        neg = not neg
    found, missing = (s.orelse, s.body) if neg else (s.body, s.orelse)
    inner = ast.If(test=pred, body=list(found) + (
        [] if _ends_in_jump(list(found)) else [ast.Break()]), orelse=[])
    body = [inner]
    for cond in reversed(g.ifs):
        body = [ast.If(test=cond, body=body, orelse=[])]
    _store(g.target)
    loop = ast.For(target=g.target, iter=g.iter, body=body,
                   orelse=list(missing))
    ast.copy_location(loop, s)
    for sub in ast.walk(loop):
        if isinstance(sub, (ast.expr, ast.stmt)) and not hasattr(sub, "lineno"):
            ast.copy_location(sub, s)
    ast.fix_missing_locations(loop)
    return loop


def _extend_form(s, counter):
    """`X.extend(Y)` (Y a plain name / attribute) as a statement ->
    `for e in Y: X.append(e)`: the bulk and the element-wise form add the same
    elements in the same order."""
    if not (isinstance(s, ast.Expr) and isinstance(s.value, ast.Call)):
        return None
    c = s.value
    if not (isinstance(c.func, ast.Attribute) and c.func.attr == "extend" and
            len(c.args) == 1 and not c.keywords and
            isinstance(c.args[0], (ast.Name, ast.Attribute)) and
            isinstance(c.func.value, (ast.Name, ast.Attribute))):
        return None
    if unparse(c.args[0]) == unparse(c.func.value):
        return None
    counter[0] += 1
    v = "_elem__e%d" % counter[0]
    loop = ast.For(
        target=ast.Name(id=v, ctx=ast.Store()), iter=c.args[0],
        body=[ast.Expr(value=ast.Call(
            func=ast.Attribute(value=copy.deepcopy(c.func.value), attr="append",
                               ctx=ast.Load()),
            args=[ast.Name(id=v, ctx=ast.Load())], keywords=[]))],
        orelse=[])
    ast.copy_location(loop, s)
    for sub_ in ast.walk(loop):
        if isinstance(sub_, (ast.expr, ast.stmt)) and not hasattr(sub_, "lineno"):
            ast.copy_location(sub_, s)
    ast.fix_missing_locations(loop)
    return loop


def _bulk_form(s, used_outside, counter):
    """`X.update({k: v for ...})` -> nested loops doing `X[k] = v`;
    `X.extend([e for ...])` / `X.extend(e for ...)` -> nested loops doing
    `X.append(e)`.  The bulk call adds the same items in the same order; X must
    not be read by the comprehension."""
    if not (isinstance(s, ast.Expr) and isinstance(s.value, ast.Call)):
        return None
    c = s.value
    if not (isinstance(c.func, ast.Attribute) and len(c.args) == 1 and
            not c.keywords and
            isinstance(c.func.value, (ast.Name, ast.Attribute))):
        return None
    comp = c.args[0]
    if c.func.attr == "update" and isinstance(comp, ast.DictComp):
        kind = "update"
    elif c.func.attr == "extend" and isinstance(comp, (ast.ListComp,
                                                      ast.GeneratorExp)):
        kind = "extend"
    else:
        return None
    if any(g.is_async for g in comp.generators):
        return None
    if any(isinstance(n, (ast.Lambda, ast.NamedExpr, ast.Yield, ast.Await))
           for n in ast.walk(comp)):
        return None
    xt = unparse(c.func.value)
    root = xt.split(".")[0]
    if any(isinstance(n, ast.Name) and n.id == root and xt.count(".") == 0
           for n in ast.walk(comp)) or xt in unparse(comp):
        return None
    mp = {}
    for g in comp.generators:
        for nm in _target_names(g.target):
            if nm in used_outside:
                counter[0] += 1
                mp[nm] = "%s__c%d" % (nm, counter[0])
    comp = copy.deepcopy(comp)
    if mp:
        first = comp.generators[0].iter
        comp = _Ren(mp).visit(comp)
        comp.generators[0].iter = first
    if kind == "update":
        body = [ast.Assign(targets=[ast.Subscript(
            value=copy.deepcopy(c.func.value), slice=comp.key,
            ctx=ast.Store())], value=comp.value, lineno=s.lineno)]
    else:
        body = [ast.Expr(value=ast.Call(
            func=ast.Attribute(value=copy.deepcopy(c.func.value),
                               attr="append", ctx=ast.Load()),
            args=[comp.elt], keywords=[]))]
    for g in reversed(comp.generators):
        for cond in reversed(g.ifs):
            body = [ast.If(test=cond, body=body, orelse=[])]
        body = [ast.For(target=g.target, iter=g.iter, body=body, orelse=[])]
        _store(g.target)
    loop = body[0]
    ast.copy_location(loop, s)
    for sub_ in ast.walk(loop):
        if isinstance(sub_, (ast.expr, ast.stmt)) and not hasattr(sub_, "lineno"):
            ast.copy_location(sub_, s)
    ast.fix_missing_locations(loop)
    return loop


def _hoist_ifexp(s, taken, counter):
    """`f(x, a if c else b)` (statement) -> `if c: _t = a  else: _t = b` +
    `f(x, _t)` when the conditional expression is evaluated unconditionally
    and only loads of names / constants / attribute chains come before it (the
    same side condition as sa/foldtemps.py, whose inverse this is)."""
    from .foldtemps import _eval_order, _root_of
    hf = _root_of(s)
    if hf is None or isinstance(s, ast.If):
        return None
    holder, field = hf
    root = getattr(holder, field)
    if isinstance(root, ast.IfExp) and isinstance(s, (ast.Assign,
                                                      ast.Return)):
        return None              # the statement forms handle these
    order = []
    _eval_order(root, order)
    for k, (x, cond) in enumerate(order):
        if isinstance(x, ast.IfExp) and not cond:
            inner = {id(n) for n in ast.walk(x)}
            before = [y for y, c in order[:k] if id(y) not in inner]
            if any(not isinstance(y, (ast.Name, ast.Constant, ast.Attribute))
                   for y in before):
                return None
            counter[0] += 1
            nm = "_ifx__%d" % counter[0]
            while nm in taken:
                counter[0] += 1
                nm = "_ifx__%d" % counter[0]
            taken.add(nm)

            class Sub(ast.NodeTransformer):
                def visit_IfExp(self, n):
                    if n is x:
                        return ast.copy_location(
                            ast.Name(id=nm, ctx=ast.Load()), n)
                    return self.generic_visit(n)
            setattr(holder, field, Sub().visit(root))

            def mk(v):
                return ast.copy_location(ast.Assign(
                    targets=[ast.Name(id=nm, ctx=ast.Store())], value=v,
                    lineno=s.lineno), s)
            pre = ast.copy_location(ast.If(test=x.test, body=[mk(x.body)],
                                           orelse=[mk(x.orelse)]), s)
            ast.fix_missing_locations(pre)
            ast.fix_missing_locations(s)
            return [pre, s]
    return None


def _for_over_genexp(s, used_outside, counter):
    """`for v in (e for t in it if c): BODY` -> `for t in it: if c: v = e; BODY`
    - a generator expression yields each item right before the body runs, so
    the interleaving is the same; one generator clause, no for-else"""
    if not (isinstance(s, ast.For) and isinstance(s.iter, ast.GeneratorExp)
            and not s.orelse and len(s.iter.generators) == 1 and
            not s.iter.generators[0].is_async):
        return None
    g = copy.deepcopy(s.iter.generators[0])
    elt = copy.deepcopy(s.iter.elt)
    mp = {}
    for nm in _target_names(g.target):
        if nm in used_outside:
            counter[0] += 1
            mp[nm] = "%s__c%d" % (nm, counter[0])
    if mp:
        r = _Ren(mp)
        elt = r.visit(elt)
        g.target = r.visit(g.target)
        g.ifs = [r.visit(x) for x in g.ifs]
    bind = ast.Assign(targets=[s.target], value=elt, lineno=s.lineno)
    body = [bind] + s.body
    for cond in reversed(g.ifs):
        body = [ast.If(test=cond, body=body, orelse=[])]
    _store(g.target)
    loop = ast.For(target=g.target, iter=g.iter, body=body, orelse=[])
    ast.copy_location(loop, s)
    for sub_ in ast.walk(loop):
        if isinstance(sub_, (ast.expr, ast.stmt)) and not hasattr(sub_, "lineno"):
            ast.copy_location(sub_, s)
    ast.fix_missing_locations(loop)
    return loop


def _ends_in_jump(stmts):
    if not stmts:
        return False
    s = stmts[-1]
    if isinstance(s, (ast.Return, ast.Raise, ast.Continue, ast.Break)):
        return True
    if isinstance(s, ast.If) and s.orelse:
        return _ends_in_jump(s.body) and _ends_in_jump(s.orelse)
    return False


def _small_forms(fn):
    """dict(k=v, ...) -> {"k": v, ...} (builtin dict, keyword arguments only);
    bare `return` -> `return None`.  Same value either way."""
    n_done = 0
    shadow = any(isinstance(n, ast.Name) and n.id == "dict" and
                 isinstance(n.ctx, (ast.Store, ast.Del)) for n in ast.walk(fn)) \
        or any(a.arg == "dict" for a in ast.walk(fn) if isinstance(a, ast.arg))

    class T(ast.NodeTransformer):
        def visit_Call(self, n):
            self.generic_visit(n)
            if not shadow and isinstance(n.func, ast.Name) and \
                    n.func.id == "dict" and not n.args and n.keywords and \
                    all(k.arg is not None for k in n.keywords):
                return ast.copy_location(ast.Dict(
                    keys=[ast.Constant(value=k.arg) for k in n.keywords],
                    values=[k.value for k in n.keywords]), n)
            return n

        def visit_Return(self, n):
            self.generic_visit(n)
            if n.value is None:
                n.value = ast.copy_location(ast.Constant(value=None), n)
            return n

        def visit_FunctionDef(self, n):
            if n is fn:
                self.generic_visit(n)
            return n

        def visit_Lambda(self, n):
            return n
    if not any((isinstance(n, ast.Return) and n.value is None) or
               (isinstance(n, ast.Call) and isinstance(n.func, ast.Name) and
                n.func.id == "dict") for n in ast.walk(fn)):
        return 0
    T().visit(fn)
    ast.fix_missing_locations(fn)
    return 1


def desugar_function(fn):
    counter = [0]
    done = [0]
    taken = _names(fn)
    done[0] += _small_forms(fn)
    has_ifexp = any(isinstance(n, ast.IfExp) for n in ast.walk(fn))

    def block(stmts):
        out = []
        stmts = list(stmts)
        i = 0
        while i < len(stmts):
            h = _hoist_ifexp(stmts[i], taken, counter) if has_ifexp and any(
                isinstance(n, ast.IfExp) for n in ast.walk(stmts[i])) and \
                not isinstance(stmts[i], (ast.FunctionDef, ast.ClassDef,
                                          ast.AsyncFunctionDef,
                                          ast.While, ast.With, ast.Try)) \
                else None
            if h is not None:
                stmts[i:i + 1] = h
                done[0] += 1
                continue
            i += 1
        # `if c: ...jump  else: REST` -> `if c: ...jump` + REST
        i = 0
        while i < len(stmts):
            s0 = stmts[i]
            if isinstance(s0, ast.If) and s0.orelse and _ends_in_jump(s0.body):
                rest = s0.orelse
                s0.orelse = []
                stmts[i + 1:i + 1] = rest
                done[0] += 1
            i += 1
        for s in stmts:
            for field in ("body", "orelse", "finalbody"):
                blk = getattr(s, field, None)
                if isinstance(blk, list) and blk and \
                        isinstance(blk[0], ast.stmt) and not isinstance(
                            s, (ast.FunctionDef, ast.AsyncFunctionDef,
                                ast.ClassDef)):
                    setattr(s, field, block(blk))
            if isinstance(s, ast.Try):
                for h in s.handlers:
                    h.body = block(h.body)
            guard = 0
            while guard < 4:
                f = _ifexp_form(s)
                if f is None:
                    break
                # nested conditional expressions in the arms
                f.body = block(f.body)
                f.orelse = block(f.orelse)
                s = f
                done[0] += 1
                guard += 1
                break
            # `x = next((e for t in it if c), d)` -> `x = d` + loop that binds
            # the first item and stops
            if isinstance(s, ast.Assign) and len(s.targets) == 1 and \
                    isinstance(s.targets[0], ast.Name) and \
                    isinstance(s.value, ast.Call) and \
                    isinstance(s.value.func, ast.Name) and \
                    s.value.func.id == "next" and len(s.value.args) == 2 and \
                    not s.value.keywords and \
                    isinstance(s.value.args[0], ast.GeneratorExp) and \
                    len(s.value.args[0].generators) == 1 and \
                    isinstance(s.value.args[1], (ast.Constant, ast.Name)) and \
                    not any(isinstance(n, ast.Name) and
                            n.id == s.targets[0].id
                            for n in ast.walk(s.value.args[0])):
                gen = s.value.args[0]
                inside = {id(n) for n in ast.walk(gen)}
                used = {n.id for n in ast.walk(fn) if isinstance(n, ast.Name)
                        and id(n) not in inside}
                used |= {a.arg for a in ast.walk(fn) if isinstance(a, ast.arg)}
                g = copy.deepcopy(gen.generators[0])
                elt = copy.deepcopy(gen.elt)
                mp = {}
                for nm in _target_names(g.target):
                    if nm in used:
                        counter[0] += 1
                        mp[nm] = "%s__c%d" % (nm, counter[0])
                if mp:
                    r = _Ren(mp)
                    elt = r.visit(elt)
                    g.target = r.visit(g.target)
                    g.ifs = [r.visit(x) for x in g.ifs]
                tgt = s.targets[0].id
                init = ast.copy_location(ast.Assign(
                    targets=[ast.Name(id=tgt, ctx=ast.Store())],
                    value=s.value.args[1], lineno=s.lineno), s)
                body = [ast.Assign(targets=[ast.Name(id=tgt, ctx=ast.Store())],
                                   value=elt, lineno=s.lineno), ast.Break()]
                for cond in reversed(g.ifs):
                    body = [ast.If(test=cond, body=body, orelse=[])]
                _store(g.target)
                loop = ast.For(target=g.target, iter=g.iter, body=body,
                               orelse=[])
                ast.copy_location(loop, s)
                for sub_ in ast.walk(loop):
                    if isinstance(sub_, (ast.expr, ast.stmt)) and \
                            not hasattr(sub_, "lineno"):
                        ast.copy_location(sub_, s)
                ast.fix_missing_locations(init)
                ast.fix_missing_locations(loop)
                out.append(init)
                s = loop
                done[0] += 1
            # `return any(...)` / `x = all(...)`: any/all yield True or False,
            # so this is `if any(...): return True  else: return False`
            v0 = s.value if isinstance(s, (ast.Return, ast.Assign)) else None
            neg0 = False
            if isinstance(v0, ast.UnaryOp) and isinstance(v0.op, ast.Not):
                v0, neg0 = v0.operand, True
            if isinstance(v0, ast.Call) and isinstance(v0.func, ast.Name) and \
                    v0.func.id in ("any", "all") and len(v0.args) == 1 and \
                    not v0.keywords and \
                    isinstance(v0.args[0], ast.GeneratorExp) and (
                        isinstance(s, ast.Return) or (
                            len(s.targets) == 1 and
                            isinstance(s.targets[0], ast.Name) and
                            # (a name read once is a temporary that goes back
                            # into the statement that uses it first)
                            sum(1 for n in ast.walk(fn)
                                if isinstance(n, ast.Name) and
                                n.id == s.targets[0].id and
                                isinstance(n.ctx, ast.Load)) != 1)):
                def mkc(val, s=s):
                    c = ast.Constant(value=val)
                    if isinstance(s, ast.Return):
                        return ast.copy_location(ast.Return(value=c), s)
                    return ast.copy_location(ast.Assign(
                        targets=[copy.deepcopy(s.targets[0])], value=c,
                        lineno=s.lineno), s)
                s = ast.copy_location(ast.If(
                    test=v0, body=[mkc(not neg0)], orelse=[mkc(neg0)]), s)
                ast.fix_missing_locations(s)
                done[0] += 1
            if isinstance(s, ast.If) and isinstance(
                    s.test, (ast.Call, ast.UnaryOp)):
                inside = {id(n) for n in ast.walk(s.test)}
                used = {n.id for n in ast.walk(fn) if isinstance(n, ast.Name)
                        and id(n) not in inside}
                used |= {a.arg for a in ast.walk(fn) if isinstance(a, ast.arg)}
                f = _anyall_form(s, used, counter)
                if f is not None:
                    s = f
                    done[0] += 1
                    # the arms may hold further any()/all() tests
                    s.body = block(s.body)
                    s.orelse = block(s.orelse)
            ef = _extend_form(s, counter)
            if ef is not None:
                s = ef
                done[0] += 1
            if isinstance(s, ast.For) and isinstance(s.iter, ast.GeneratorExp):
                inside = {id(n) for n in ast.walk(s.iter)}
                used = {n.id for n in ast.walk(fn) if isinstance(n, ast.Name)
                        and id(n) not in inside}
                used |= {a.arg for a in ast.walk(fn) if isinstance(a, ast.arg)}
                gf = _for_over_genexp(s, used, counter)
                if gf is not None:
                    s = gf
                    done[0] += 1
            if isinstance(s, ast.Expr) and isinstance(s.value, ast.Call) and \
                    isinstance(s.value.func, ast.Attribute) and \
                    s.value.func.attr in ("update", "extend") and \
                    len(s.value.args) == 1 and isinstance(
                        s.value.args[0], (ast.DictComp, ast.ListComp,
                                          ast.GeneratorExp)):
                inside = {id(n) for n in ast.walk(s)}
                used = {n.id for n in ast.walk(fn) if isinstance(n, ast.Name)
                        and id(n) not in inside}
                used |= {a.arg for a in ast.walk(fn) if isinstance(a, ast.arg)}
                bf = _bulk_form(s, used, counter)
                if bf is not None:
                    s = bf
                    done[0] += 1
            if _eligible(s):
                inside = {id(n) for n in ast.walk(s.value)}
                used = {n.id for n in ast.walk(fn) if isinstance(n, ast.Name)
                        and id(n) not in inside}
                used |= {a.arg for a in ast.walk(fn) if isinstance(a, ast.arg)}
                out.extend(_loop_form(s, used, counter))
                done[0] += 1
            else:
                out.append(s)
        return out
    fn.body = block(fn.body)
    return done[0]
