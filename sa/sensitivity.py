"""Thorough tier: checker sensitivity on the tree under analysis.

After the rules of a property have passed, every single-edit variant recorded for
it in selftest/mutants.py is applied to a scratch copy of the *current* tree
(outside /repo and /verif, removed afterwards) and the property's quick check is
run on the copy - still source analysis only, nothing is executed.

  V   a small edit known to break the property: the check must report it under
      the rule it was written for
  OK  a behaviour-preserving edit: the check must stay silent

A variant whose edit target no longer occurs in the tree is skipped (counted).  A
V variant that applies but is not reported means the rule has gone blind on this
tree (its anchors moved); that is recorded as UNDECIDED - the run fails closed
with exit 2 rather than claiming the clause.  The result tells a reader how many
distinct ways of breaking the property the check demonstrably notices on today's
source, which a passing verdict alone does not.
"""
import os
import shutil
import subprocess
import sys
import tempfile
import warnings
from concurrent.futures import ThreadPoolExecutor

HERE = os.path.dirname(os.path.abspath(__file__))
VERIF = os.path.dirname(HERE)
PY = sys.executable or "/venv/bin/python"


def _variants(prop):
    sys.path.insert(0, os.path.join(VERIF, "selftest"))
    try:
        from mutants import VARIANTS
    finally:
        sys.path.pop(0)
    # the breaking variants only: the behaviour-preserving ones test the
    # checker's tolerance (selftest/run.py, tools/corpus.py), not its sight
    return [v for v in VARIANTS if prop in v["props"] and v["expect"] == "V"]


def _one(args):
    root, prop, v = args
    scratch = tempfile.mkdtemp(prefix="verif-sens-")
    try:
        pkg = os.path.join(scratch, "src", "saml2_tophat")
        shutil.copytree(os.path.join(root, "src", "saml2_tophat"), pkg,
                        ignore=shutil.ignore_patterns("__pycache__"))
        edits = v.get("edits") or [(v["file"], v["old"], v["new"],
                                    v.get("count", 1))]
        edits = [e if len(e) == 4 else tuple(e) + (1,) for e in edits]
        for rel, old, new, count in edits:
            path = os.path.join(pkg, rel)
            try:
                with open(path, encoding="utf-8") as fh:
                    src = fh.read()
            except OSError:
                return v, "skipped", "file missing: %s" % rel
            if src.count(old) != count:
                return v, "skipped", "edit target not found in %s" % rel
            src = src.replace(old, new)
            try:
                with warnings.catch_warnings():
                    warnings.simplefilter("ignore")
                    compile(src, path, "exec")
            except SyntaxError:
                return v, "skipped", "variant does not compile on this tree"
            with open(path, "w", encoding="utf-8") as fh:
                fh.write(src)
        env = dict(os.environ, VERIF_REPO=scratch, PYTHONDONTWRITEBYTECODE="1",
                   VERIF_TIER="quick")
        p = subprocess.run([PY, "-W", "ignore", "-m", "sa.cli", prop,
                            "--no-write", "--tier", "quick"], cwd=VERIF,
                           env=env, capture_output=True, text=True, timeout=600)
        out = p.stdout + p.stderr
        if v["expect"] == "V":
            rule = v.get("rule")
            named = rule is None or ("%s %s]" % (prop, rule)) in out
            if p.returncode == 1 and named:
                return v, "detected", ""
            if p.returncode == 1:
                return v, "detected-other-rule", ""
            return v, "missed", "exit %d" % p.returncode
        if p.returncode == 0:
            return v, "silent", ""
        lines = [l for l in out.splitlines() if l.startswith(("  [", "ANALYSIS"))]
        return v, "false-alarm", "; ".join(lines)[:300]
    finally:
        shutil.rmtree(scratch, ignore_errors=True)


def sensitivity(run, jobs=None):
    prop = run.prop
    known = {(k["rule"], k["key"]) for k in run._known()}
    if any((r["rule"], r["construct"]) not in known
           for r in run.results if r["verdict"] == "VIOLATED"):
        return          # an unlisted violation: nothing further to establish
    vs = _variants(prop)
    if not vs:
        return
    run.rule("SENS", "checker sensitivity on this tree: each recorded single-edit "
             "variant that still applies is reported (breaking edits) / stays "
             "silent (behaviour-preserving edits)")
    jobs = jobs or min(16, os.cpu_count() or 4)
    res = {}
    with ThreadPoolExecutor(jobs) as ex:
        for v, verdict, why in ex.map(_one, [(run.model.root, prop, v)
                                             for v in vs]):
            res.setdefault(verdict, []).append((v, why))
    for k, items in sorted(res.items()):
        run.count("SENS." + k, len(items))
    for v, why in res.get("missed", []):
        run.undecided("SENS", "variant:" + v["id"],
                      "the breaking variant %r (expected under rule %s) applies "
                      "to this tree but is not reported (%s): the rule's anchors "
                      "no longer match here" % (v["id"], v.get("rule"), why),
                      "selftest/mutants.py")
    for v, why in res.get("false-alarm", []):
        run.undecided("SENS", "variant:" + v["id"],
                      "the behaviour-preserving variant %r is reported on this "
                      "tree: %s" % (v["id"], why), "selftest/mutants.py")
    n_v = len(res.get("detected", [])) + len(res.get("detected-other-rule", []))
    run.holds("SENS", "variants",
              "%d breaking variants reported (%d under another rule than "
              "recorded), %d benign variants silent, %d skipped (edit target "
              "absent from this tree)" % (
                  n_v, len(res.get("detected-other-rule", [])),
                  len(res.get("silent", [])), len(res.get("skipped", []))),
              "selftest/mutants.py")
