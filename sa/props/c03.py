"""C03 - Signatures are trusted only under the issuer's keys from metadata."""
import ast

from ..match import facts, Q
from ..srcmodel import attr_chain, call_name, unparse, norm_text, walk_no_nested
from ..cfg import cfg_of, CFG
from ..dataflow import Origins
from ..match import (all_calls_named, arg_of, assigns_to_attr, only_raises_from,
                     compare_parts, is_true_const)

SC = "sigver.SecurityContext"
WRAP = {"make_temp": (0,), "pem_format": (0,), "repack_cert": (0,)}


def _sigcheck(run):
    m = run.model
    fi = m.func(SC + "._check_signature")
    cfg = cfg_of(fi, m)
    org = Origins(cfg, transparent=WRAP)
    vc = cfg.call_nodes("verify_signature")
    run.require(len(vc) == 1, "_check_signature: verify_signature call count %d"
                % len(vc))
    return fi, cfg, org, vc[0]


def r1_cert_provenance(run):
    run.rule("R1", "every certificate handed to the verifier comes from "
             "metadata.certs(<issuer>, 'any', 'signing') or, in the guarded "
             "fallback, from the element's own KeyInfo - nothing else")
    fi, cfg, org, (vn, vcall) = _sigcheck(run)
    a = arg_of(vcall, 1, "cert_file")
    run.require(a is not None, "_check_signature: verifier call lost cert_file")
    atoms = org.of(a, vn.id)
    bad = []
    srcs = set()
    for at in atoms:
        if at.kind == "const":
            continue
        if at.kind == "call" and at.text in ("self.metadata.certs",
                                             "cert_from_instance"):
            srcs.add(at.text)
            continue
        bad.append(repr(at))
    run.check(not bad and "self.metadata.certs" in srcs, "R1",
              fi.qual + "::cert_file-origins",
              "certificate files derive only from %s" % sorted(srcs),
              "certificate handed to the verifier may come from %s" % bad,
              fi.loc(vcall))
    n = 0
    for nd, c in cfg.call_nodes("certs"):
        if attr_chain(c.func) != "self.metadata.certs":
            continue
        n += 1
        use = arg_of(c, 2, "use")
        desc = arg_of(c, 1, "descriptor")
        run.check(isinstance(use, ast.Constant) and use.value == "signing", "R1",
                  fi.qual + "::certs.use",
                  "only keys usable for signing are requested",
                  "metadata.certs(..., use=%s): keys of another use would "
                  "authenticate the issuer" % (unparse(use) if use is not None
                                               else "<default>"), fi.loc(c))
        run.check(isinstance(desc, ast.Constant) and desc.value == "any", "R1",
                  fi.qual + "::certs.descriptor", "descriptor 'any'",
                  "descriptor argument is %s" % unparse(desc), fi.loc(c),
                  nontrivial=False)
    run.floor("R1", "metadata.certs calls", n, 1)


def r2_fallback_guard(run):
    run.rule("R2", "certificates embedded in the message are consulted only "
             "when metadata yielded none AND only_use_keys_in_metadata is off; "
             "nothing else on an acceptance path reads embedded certificates")
    m = run.model
    fi, cfg, org, _ = _sigcheck(run)
    sites = cfg.call_nodes("cert_from_instance")
    run.floor("R2", "cert_from_instance sites in _check_signature", len(sites), 1)
    for nd, c in sites:
        gs = facts(cfg, nd.id)
        ok = Q("certs", False) in gs and \
            Q("self.only_use_keys_in_metadata", False) in gs
        run.check(ok, "R2", fi.qual + "::embedded-cert-fallback",
                  "guarded by `not certs and not self.only_use_keys_in_metadata`",
                  "embedded certificates are used under guards %s: with the "
                  "default setting (or when metadata has a key) they must "
                  "never be trusted" % sorted(gs), fi.loc(c))
        a0 = arg_of(c, 0)
        run.check(unparse(a0) == "item", "R2", fi.qual + "::embedded-cert-source",
                  "taken from the inspected item", "taken from %s" % unparse(a0),
                  fi.loc(c), nontrivial=False)
    allowed = {"saml2_tophat.sigver.SecurityContext._check_signature",
               "saml2_tophat.sigver.cert_from_instance"}
    for mi in m.modules.values():
        for c in all_calls_named(mi.tree, "cert_from_instance",
                                 "cert_from_key_info",
                                 "cert_from_key_info_dict"):
            f = m.enclosing_function(mi, c)
            q = f.qual if f else mi.name
            if call_name(c) == "cert_from_key_info_dict" and \
                    q.startswith("saml2_tophat.mdstore"):
                continue
            run.check(q in allowed, "R2", "%s -> %s" % (q, call_name(c)),
                      "known reader of embedded certificates",
                      "new reader of certificates embedded in a message",
                      "%s:%d" % (mi.relpath, c.lineno))


def r3_empty_rejects(run):
    run.rule("R3", "no usable certificate => MissingKey before the verifier is "
             "reached")
    fi, cfg, org, (vn, vcall) = _sigcheck(run)
    ok_branches = []
    for t in cfg.by_kind("test"):
        for b in cfg.succ[t.id]:
            bn = cfg.nodes[b]
            if bn.kind not in ("true", "false"):
                continue
            facts = [(unparse(e), p) for e, p in
                     __import__("sa.cfg", fromlist=["atoms"]).atoms(
                         bn.ast, bn.kind == "true")]
            if Q("certs", True) in facts:
                other = [x for x in cfg.succ[t.id] if x != b and
                         cfg.nodes[x].kind in ("true", "false")]
                if other and all(only_raises_from(cfg, o) for o in other):
                    ok_branches.append(b)
    ok, wit = cfg.must_pass(cfg.entry, vn.id, ok_branches) if ok_branches \
        else (False, cfg.path(cfg.entry, vn.id))
    run.check(ok, "R3", fi.qual + "::no-certs=>raise",
              "`if not certs: raise` dominates the verifier call",
              "the verifier can be reached with an empty certificate list "
              "(an issuer without a signing key would not be rejected here)",
              fi.loc(vcall), witness=cfg.describe_path(wit) if wit else None)
    from ..cfg import raised_class
    mk = [r for r in cfg.by_kind("raise") if raised_class(r.ast) == "MissingKey"]
    run.check(bool(mk), "R3", fi.qual + "::MissingKey", "raises MissingKey",
              "MissingKey is no longer raised", fi.loc(), nontrivial=False)


def r4_issuer_provenance(run):
    run.rule("R4", "the entity whose keys are looked up is the Issuer of the "
             "inspected element itself (falling back only to the issuer "
             "parameter)")
    fi, cfg, org, _ = _sigcheck(run)
    for nd, c in cfg.call_nodes("certs"):
        if attr_chain(c.func) != "self.metadata.certs":
            continue
        a0 = arg_of(c, 0, "entity_id")
        atoms = org.of(a0, nd.id)
        texts = {a.text for a in atoms if a.kind != "const"}
        consts = {a.text for a in atoms if a.kind == "const"}
        ok = "item.issuer.text" in texts and \
            texts <= {"item.issuer.text", "issuer.text"} and consts <= {"None"}
        run.check(ok, "R4", fi.qual + "::issuer-origins",
                  "issuer derives from item.issuer.text (fallback: issuer "
                  "parameter)", "issuer used for the key lookup derives from "
                  "%s %s" % (sorted(texts), sorted(consts)), fi.loc(c))
    # the parameter fallback is consulted only when the item has no issuer
    for nd in cfg.by_kind("stmt"):
        s = nd.ast
        if isinstance(s, ast.Assign) and "issuer.text" in unparse(s.value) and \
                "item." not in unparse(s.value):
            gs = facts(cfg, nd.id)
            # guarded by "<the variable being (re)assigned> is None"
            tgt = unparse(s.targets[0])
            ok = Q("%s is None" % tgt, True) in gs
            if not ok:
                # ... or by "<a variable holding the element's own Issuer> is
                # None" under whatever name (a helper's result)
                for e, pol, _b in cfg.guards(nd.id):
                    if pol and isinstance(e, ast.Compare) and \
                            isinstance(e.ops[0], ast.Is) and \
                            isinstance(e.left, ast.Name) and \
                            isinstance(e.comparators[0], ast.Constant) and \
                            e.comparators[0].value is None:
                        src = {(a.kind, a.text) for a in org.of(e.left, nd.id)}
                        if ("attr", "item.issuer.text") in src and all(
                                k == "const" or t == "item.issuer.text"
                                for k, t in src):
                            ok = True
            run.check(ok, "R4",
                      fi.qual + "::issuer-fallback-guard",
                      "parameter issuer used only when the element has none",
                      "issuer parameter overrides the element's own Issuer "
                      "(guards %s)" % sorted(gs), fi.loc(s))


def r5_default(run):
    run.rule("R5", "only_use_keys_in_metadata defaults to True and reaches "
             "SecurityContext unchanged")
    m = run.model
    ci = m.func("config.Config.__init__")
    vals = [v for st, t, v in assigns_to_attr(ci.node, "only_use_keys_in_metadata")]
    run.check(len(vals) == 1 and is_true_const(vals[0]), "R5",
              ci.qual + "::default", "default True",
              "Config default is %s" % [unparse(v) for v in vals], ci.loc())
    sc = m.func("sigver.security_context")
    ctor = [c for c in ast.walk(sc.node) if isinstance(c, ast.Call) and
            call_name(c) == "SecurityContext"]
    run.require(len(ctor) == 1, "security_context: SecurityContext(...) vanished")
    a = arg_of(ctor[0], None, "only_use_keys_in_metadata")
    run.check(a is not None and
              attr_chain(a) == "conf.only_use_keys_in_metadata", "R5",
              sc.qual + "::forward", "forwards conf.only_use_keys_in_metadata",
              "SecurityContext receives only_use_keys_in_metadata=%s" %
              unparse(a), sc.loc(ctor[0]))
    si = m.func(SC + ".__init__")
    cfg = cfg_of(si, m)
    org = Origins(cfg)
    hits = [(nd, nd.ast) for nd in cfg.by_kind("stmt")
            if isinstance(nd.ast, ast.Assign) and any(
                attr_chain(t) == "self.only_use_keys_in_metadata"
                for t in nd.ast.targets)]
    run.require(hits, "SecurityContext.__init__: attribute assignment vanished")
    for nd, s in hits:
        got = org.texts(s.value, nd.id)
        run.check(got == {"only_use_keys_in_metadata"}, "R5",
                  si.qual + "::store", "stored unchanged",
                  "stored from %s" % sorted(got), si.loc(s))
    # no other writer
    for mi in m.modules.values():
        for st, t, v in assigns_to_attr(mi.tree, "only_use_keys_in_metadata"):
            f = m.enclosing_function(mi, st)
            q = f.qual if f else mi.name
            if q in (ci.qual, si.qual):
                continue
            run.violated("R5", "%s::%s" % (q, norm_text(st)),
                         "only_use_keys_in_metadata is overwritten outside the "
                         "configuration/constructor path",
                         "%s:%d" % (mi.relpath, st.lineno))


def key_filter_sites(run):
    """Accept sites of MetaData.certs with, per site, the verdict of the key
    filter in the three cases of KeyDescriptor/@use (absent / equal to the
    requested use / different).  Shared by C03.R6 and C17.R7.

    Returns (fi, [(label, loc, {case: (verdict, tests)})])."""
    from .. import symbolic
    m = run.model
    fi = m.func("mdstore.MetaData.certs")
    scopes = [n for n in ast.walk(fi.node) if isinstance(n, ast.FunctionDef)]
    field_re = ("'use'", '"use"')

    def record_names(fn):
        out = set()
        for n in walk_no_nested(fn):
            if isinstance(n, ast.Compare) and len(n.ops) == 1 and \
                    isinstance(n.ops[0], (ast.In, ast.NotIn)) and \
                    isinstance(n.left, ast.Constant) and n.left.value == "use" \
                    and isinstance(n.comparators[0], ast.Name):
                out.add(n.comparators[0].id)
            if isinstance(n, ast.Subscript) and isinstance(n.value, ast.Name) \
                    and isinstance(n.slice, ast.Constant) and \
                    n.slice.value == "use":
                out.add(n.value.id)
            if isinstance(n, ast.Call) and isinstance(n.func, ast.Attribute) \
                    and n.func.attr == "get" and \
                    isinstance(n.func.value, ast.Name) and n.args and \
                    isinstance(n.args[0], ast.Constant) and \
                    n.args[0].value == "use":
                out.add(n.func.value.id)
        return out
    # helpers that only collect (no use test of their own): their call sites
    # are the accept sites
    collectors = set()
    for fn in scopes:
        own = [n for n in walk_no_nested(fn)]
        has_append = any(isinstance(n, ast.Call) and call_name(n) == "append"
                         for n in own)
        tests_use = any(record_names(t) for t in own
                        if isinstance(t, (ast.If, ast.IfExp, ast.While)))
        if fn is not fi.node and has_append and not tests_use and \
                not record_names(fn):
            collectors.add(fn.name)
    sites = []
    for fn in scopes:
        recs = record_names(fn)
        if len(recs) != 1:
            continue
        rec = sorted(recs)[0]
        cfg = CFG(fn, m, fi.qual + ("." + fn.name if fn is not fi.node else ""))
        accept = [(nd, c) for nd, c in cfg.call_nodes("append")]
        for name in collectors:
            accept += cfg.call_nodes(name)
        for nd, c in accept:
            per = {}
            for case in (symbolic.ABSENT, symbolic.SAME, symbolic.OTHER):
                fc = symbolic.FieldCase(case, rec, "use", "use")
                per[case] = symbolic.guard_verdict(cfg, nd.id, fc)
            sites.append(("%s::%s" % (cfg.name, norm_text(c)), fi.loc(c), per))
    return fi, sites


def r6_certs_filter(run):
    run.rule("R6", "MetaData.certs returns a key only if its use equals the "
             "requested use or it declares none, and only from the entity "
             "looked up by the given entity_id")
    from .. import symbolic
    m = run.model
    fi, sites = key_filter_sites(run)
    run.floor("R6", "certificate accept sites in MetaData.certs", len(sites), 1)
    for label, loc, per in sites:
        v, tests = per[symbolic.OTHER]
        run.check(v == "excluded", "R6", label + "::other-use=>excluded",
                  "a key descriptor whose use differs from the requested one "
                  "never reaches this statement",
                  "a certificate of a different use can be returned: with "
                  "use != requested the guards evaluate to %s" % tests, loc)
    ok = any(per[symbolic.SAME][0] == "consistent" for _, _, per in sites)
    run.check(ok, "R6", fi.qual + "::same-use=>included",
              "a key descriptor of the requested use is returned",
              "no accept site is reached for a key of the requested use: %s" %
              [(l, per[symbolic.SAME]) for l, _, per in sites], fi.loc())
    # requested use flows from the parameter (closure variable `use`)
    run.check("use" in fi.params(), "R6", fi.qual + "::use-param",
              "use is a parameter", "parameter `use` vanished", fi.loc(),
              nontrivial=False)
    cfg = cfg_of(fi, m)
    org = Origins(cfg)
    ents = [(nd, nd.ast) for nd in cfg.by_kind("stmt")
            if isinstance(nd.ast, ast.Assign) and any(
                isinstance(t, ast.Name) and t.id == "ent" for t in nd.ast.targets)]
    run.require(ents, "MetaData.certs: `ent = self[entity_id]` vanished")
    for nd, s in ents:
        ok = isinstance(s.value, ast.Subscript) and \
            unparse(s.value.value) == "self" and \
            unparse(s.value.slice) == "entity_id"
        run.check(ok, "R6", fi.qual + "::entity", "ent = self[entity_id]",
                  "entity taken from %s" % unparse(s.value), fi.loc(s))
    for nd, c in cfg.call_nodes("extract_certs"):
        got = org.texts(arg_of(c, 0), nd.id)
        run.check(all(t.startswith("ent") or t == "self" or t == "entity_id"
                      or t.startswith("'") for t in got) and got, "R6",
                  fi.qual + "::srvs-origin:" + norm_text(c),
                  "descriptors come from that entity only",
                  "descriptors derive from %s" % sorted(got), fi.loc(c))


def check(run):
    run.explanation = (
        "C03: provenance (reaching definitions through make_temp/pem_format) of "
        "every certificate file given to the verifier, the guard of the "
        "embedded-certificate fallback, MissingKey dominance, issuer "
        "provenance, the only_use_keys_in_metadata default and plumbing, and "
        "the use/entity filter of MetaData.certs. Not decided: cryptographic "
        "verification, real federation documents.")
    run.assumptions = ["self.metadata is the MetadataStore built from the "
                       "configuration", "make_temp/pem_format only repackage "
                       "their first argument"]
    r1_cert_provenance(run)
    r2_fallback_guard(run)
    r3_empty_rejects(run)
    r4_issuer_provenance(run)
    r5_default(run)
    r6_certs_filter(run)
    from ..common_rules import memo_rule
    memo_rule(run, "R7", {"mdstore", "sigver"}, "certificate and key lookups")
    from ..common_rules import misplaced_rule
    misplaced_rule(run, "R8", {"sigver", "response", "entity"},
                   "signature checking (issuer / key / certificate arguments)")
