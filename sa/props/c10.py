"""C10 - Incoming requests are validated before an IdP or SP acts on them."""
import ast

from ..srcmodel import attr_chain, call_name, unparse, norm_text, walk_no_nested
from ..cfg import cfg_of, raised_class
from ..dataflow import Origins
from .. import excflow
from ..match import (calls_named, all_calls_named, arg_of, unguarded_path,
                     only_raises_from, is_falsy_const, is_true_const, str_consts)
from . import c01, c04

SC = "sigver.SecurityContext"


def r1_pipeline(run):
    run.rule("R1", "_parse_request: unravel -> loads(must, only_valid_cert) -> "
             "verify; a falsy result of either is returned as None")
    m = run.model
    fi = m.func("entity.Entity._parse_request")
    cfg = cfg_of(fi, m)
    org = Origins(cfg)
    loads = cfg.call_nodes("loads")
    verifies = cfg.call_nodes("verify")
    unr = cfg.call_nodes("unravel")
    run.require(len(loads) == 1 and len(verifies) == 1 and len(unr) == 1,
                "_parse_request: expected one unravel/loads/verify call each "
                "(found %d/%d/%d)" % (len(unr), len(loads), len(verifies)))
    ln, lc = loads[0]
    vn, vc = verifies[0]
    un, uc = unr[0]
    truthy = [r for r in cfg.by_kind("return") if not
              is_falsy_const(r.ast.value)]
    run.require(truthy, "_parse_request: truthy return vanished")
    for r in truthy:
        ok = cfg.dominates(un.id, ln.id) and cfg.dominates(ln.id, r.id)
        wit = cfg.flag_search(cfg.entry, {"_request": "U"},
                              lambda n, vd: n == r.id, avoid=[vn.id])
        run.check(ok and wit is None, "R1", fi.qual + "::pipeline",
                  "unravel, loads and verify all precede the accepting return",
                  "the accepting return can be reached without %s" %
                  ("verify()" if wit else "unravel/loads"), fi.loc(r.ast),
                  witness=cfg.describe_path(wit) if wit else None)
        got = org.of(r.ast.value, r.id)
        ok = got and all(a.kind == "call" and a.text in (
            "_request.verify", "_request.loads") for a in got) and any(
            a.text == "_request.verify" for a in got)
        run.check(ok, "R1", fi.qual + "::returns-verify-result",
                  "what is returned is the result of verify() (of loads())",
                  "returned object derives from %s" % sorted(a.text for a in got),
                  fi.loc(r.ast))
    wit = cfg.flag_search(cfg.entry, {"_request": "U"},
                          lambda n, vd: n in [r.id for r in truthy] and
                          vd["_request"] == "F")
    run.check(wit is None, "R1", fi.qual + "::falsy=>None",
              "a falsy intermediate result is never returned as a request",
              "falsy result can reach the accepting return", fi.loc())
    # verify() is applied to what loads returned
    st = ln.ast
    ok = isinstance(st, ast.Assign) and unparse(st.targets[0]) == "_request" and \
        attr_chain(vc.func) == "_request.verify" and \
        attr_chain(lc.func) == "_request.loads"
    run.check(ok, "R1", fi.qual + "::same-object",
              "loads() and verify() act on the same request object",
              "loads/verify are applied to different objects", fi.loc(lc))
    a0 = arg_of(lc, 0)
    got = org.of(a0, ln.id)
    run.check(all(a.kind == "call" and a.text == "self.unravel" for a in got)
              and got, "R1", fi.qual + "::loads(xmlstr)",
              "loads() receives the unravelled text",
              "loads() receives %s" % sorted(a.text for a in got), fi.loc(lc))
    ua = [unparse(a) for a in uc.args]
    run.check(ua == ["enc_request", "binding", "request_cls.msgtype"], "R1",
              fi.qual + "::unravel-args",
              "unravel(enc_request, binding, request_cls.msgtype)",
              "unravel(%s)" % ua, fi.loc(uc))
    ctor = cfg.call_nodes("request_cls")
    run.check(len(ctor) == 1 and [unparse(a) for a in ctor[0][1].args][:2] ==
              ["self.sec", "receiver_addresses"], "R1", fi.qual + "::ctor",
              "request_cls(self.sec, receiver_addresses, ...)",
              "request object constructed differently", fi.loc())
    kw = arg_of(lc, None, "must")
    kv = arg_of(lc, None, "only_valid_cert")
    run.check(kw is not None and unparse(kw) == "must" and kv is not None and
              unparse(kv) == "only_valid_cert", "R1", fi.qual + "::loads-kwargs",
              "must= and only_valid_cert= are forwarded",
              "loads(..., must=%s, only_valid_cert=%s)" %
              (unparse(kw), unparse(kv)), fi.loc(lc))
    return fi, cfg, org, ln, lc


def r2_must_provenance(run, ctx):
    run.rule("R2", "`must` is the configured want_authn_requests_signed (or "
             "True when only certificates matter)")
    fi, cfg, org, ln, lc = ctx
    got = org.of(arg_of(lc, None, "must"), ln.id)
    ok = True
    seen_cfg = False
    for a in got:
        if a.kind == "call" and a.text == "self.config.getattr":
            args = [unparse(x) for x in a.ast.args]
            if args == ["'want_authn_requests_signed'", "'idp'"]:
                seen_cfg = True
            else:
                ok = False
        elif a.kind == "const" and a.text == "True":
            pass
        else:
            ok = False
    run.check(ok and seen_cfg, "R2", fi.qual + "::must-origins",
              "config.getattr('want_authn_requests_signed', 'idp') or True",
              "must derives from %s" % sorted(repr(a) for a in got), fi.loc(lc))


def r3_request_loads(run):
    run.rule("R3", "Request._loads: the signature check result is the only "
             "source of self.message; its swallowing handler is post-dominated "
             "by `if not self.message: raise`; schema validation precedes "
             "`return self`")
    m = run.model
    fi = m.func("request.Request._loads")
    cfg = cfg_of(fi, m)
    sc = cfg.call_nodes("signature_check")
    run.require(len(sc) == 1, "_loads: signature_check call vanished")
    nd, c = sc[0]
    org3 = Origins(cfg)
    for kw in ("must", "only_valid_cert", "origdoc"):
        a = arg_of(c, None, kw)
        got = org3.of(a, nd.id) if a is not None else set()
        run.check(a is not None and {(x.kind, x.text) for x in got} ==
                  {("param", kw)}, "R3",
                  fi.qual + "::signature_check." + kw,
                  "the caller's %s reaches the signature check unchanged on "
                  "every path" % kw,
                  "%s handed to the signature check may be %s" % (
                      kw, sorted(repr(x) for x in got)), fi.loc(c))
    got = org3.of(arg_of(c, 0), nd.id)
    run.check({(x.kind, x.text) for x in got} == {("param", "xmldata")}, "R3",
              fi.qual + "::signature_check.text", "checks the received text",
              "checks %s" % sorted(repr(x) for x in got), fi.loc(c),
              nontrivial=False)
    st = nd.ast
    run.check(isinstance(st, ast.Assign) and
              attr_chain(st.targets[0]) == "self.message", "R3",
              fi.qual + "::self.message", "self.message <- signature_check(...)",
              "the result of signature_check is not what becomes the message",
              fi.loc(c))
    # writers of self.message in the hierarchy
    from ..dataflow import self_attr_assignments
    ws = self_attr_assignments(m, "saml2_tophat.request.Request", "message")
    for wf, wst, wv in ws:
        ok = is_falsy_const(wv) or (wf.qual == fi.qual and
                                    isinstance(wv, ast.Call) and
                                    call_name(wv) == "signature_check")
        run.check(ok, "R3", "%s::%s" % (wf.qual, norm_text(wst)[:70]),
                  "None or the signature check result",
                  "self.message is written from %s" % unparse(wv), wf.loc(wst))
    accept = [r.id for r in cfg.by_kind("return")
              if unparse(r.ast.value) == "self"]
    run.require(accept, "_loads: `return self` vanished")
    hs = [h for h in excflow.handlers_of(fi, m)
          if "signature_check" in h.body_calls() and h.swallows()]
    for h in hs:
        wit = cfg.flag_search(h.cfgnode, {}, lambda n, vd: n in accept,
                              assume={"not self.message": "T",
                                      "self.message": "F"})
        run.check(wit is None and h.caught == ["Exception"], "R3",
                  h.key + "::obligation",
                  "after the swallowing handler an empty message raises "
                  "IncorrectlySigned",
                  "a failed signature check can reach `return self`", h.loc(),
                  witness=cfg.describe_path(wit) if wit else None)
    tests = {unparse(t.ast) for t in cfg.by_kind("test")}
    run.check("not self.message" in tests, "R3", fi.qual + "::empty=>raise",
              "`if not self.message: raise` present",
              "the empty-message test vanished", fi.loc())
    vi = [nd2.id for nd2, c2 in cfg.call_nodes("valid_instance")
          if unparse(arg_of(c2, 0)) == "self.message"]
    if not vi:
        run.violated("R3", fi.qual + "::valid_instance",
                     "schema validation of the request vanished", fi.loc())
    else:
        wit = unguarded_path(cfg, cfg.entry, accept, vi, lambda e, p: False)
        run.check(wit is None, "R3", fi.qual + "::valid_instance",
                  "valid_instance(self.message) on every path to `return self`",
                  "`return self` reachable without schema validation", fi.loc(),
                  witness=cfg.describe_path(wit) if wit else None)
        for h in excflow.handlers_of(fi, m):
            if "valid_instance" in h.body_calls():
                run.check(not h.swallows(), "R3", h.key,
                          "NotValid is re-raised",
                          "a NotValid result is swallowed", h.loc())
    # loads delegates
    ld = m.func("request.Request.loads")
    cs = [c2 for c2 in calls_named(ld.node, "_loads")]
    got = {}
    if len(cs) == 1:
        for i, pn in enumerate(("xmldata", "binding", "origdoc", "must",
                                "only_valid_cert")):
            a = arg_of(cs[0], i, pn)
            got[pn] = unparse(a) if a is not None else None
    ok = bool(got) and all(v == k for k, v in got.items())
    run.check(ok, "R3", ld.qual + "::delegate", "loads() forwards everything",
              "loads() forwards %s" % got, ld.loc())


def r4_class_parser_agreement(run):
    run.rule("R4", "every request class checks its signature with the parser "
             "of its own message type, and no class keeps the _dummy check")
    m = run.model
    subs = m.subclasses("saml2_tophat.request.Request", strict=True)
    run.floor("R4", "Request subclasses", len(subs), 8)
    samlp_m = m.module("samlp")
    saml_m = m.module("saml")
    for q in subs:
        ci = m.classes[q]
        init = ci.methods.get("__init__")
        key = q + "::signature_check"
        if init is None:
            run.violated("R4", key, "no constructor: keeps the _dummy check",
                         ci.path)
            continue
        vals = [s.value for s in walk_no_nested(init.node)
                if isinstance(s, ast.Assign) and any(
                    attr_chain(t) == "self.signature_check" for t in s.targets)]
        if len(vals) != 1:
            run.violated("R4", key, "signature_check assigned %d times" %
                         len(vals), init.loc())
            continue
        ch = attr_chain(vals[0]) or ""
        if not ch.startswith("self.sec.correctly_signed_"):
            run.violated("R4", key, "signature_check is %s" % unparse(vals[0]),
                         init.loc())
            continue
        meth = m.func(SC + "." + ch.split(".")[-1], required=False)
        if meth is None:
            run.violated("R4", key, "SecurityContext has no %s" % ch, init.loc())
            continue
        cs = [c for c in calls_named(meth.node, "correctly_signed_message")]
        mt = unparse(arg_of(cs[0], 1, "msgtype")).strip("'\"") if cs else None
        cls_mt = ci.assigns.get("msgtype")
        cls_mt = cls_mt.value if isinstance(cls_mt, ast.Constant) else None
        parser = "%s_from_string" % mt
        has_parser = parser in samlp_m.functions or parser in saml_m.functions
        ok = mt is not None and mt == cls_mt and has_parser
        run.check(ok, "R4", key,
                  "%s -> correctly_signed_message(..., %r) -> %s" %
                  (ch.split(".")[-1], mt, parser),
                  "class msgtype %r, checker parses %r (parser %s %s)" %
                  (cls_mt, mt, parser, "exists" if has_parser else "missing"),
                  init.loc())
        if cs:
            args = [unparse(a) for a in cs[0].args]
            kws = {k.arg: unparse(k.value) for k in cs[0].keywords}
            ovc = args[4] if len(args) > 4 else kws.get("only_valid_cert")
            ok = args[0] == "decoded_xml" and args[2] == "must" and \
                args[3] == "origdoc" and ovc == "only_valid_cert"
            run.check(ok, "R4", key + "::forward",
                      "forwards (decoded_xml, must, origdoc, only_valid_cert)",
                      "forwards %s %s" % (args, kws), meth.loc(cs[0]),
                      nontrivial=False)
    rq = m.module("request")
    em = m.module("entity")
    s2r = rq.assigns.get("SERVICE2REQUEST", [None])[-1]
    s2m = em.assigns.get("SERVICE2MESSAGE", [None])[-1]
    run.require(isinstance(s2r, ast.Dict) and isinstance(s2m, ast.Dict),
                "SERVICE2REQUEST / SERVICE2MESSAGE vanished")
    kr = {k.value: unparse(v) for k, v in zip(s2r.keys, s2r.values)}
    km = {k.value: unparse(v) for k, v in zip(s2m.keys, s2m.values)}
    missing = set(km) - set(kr) - {"artifact_resolve_service"}
    run.check(not missing and not (set(kr) - set(km)), "R4",
              "request.SERVICE2REQUEST::coverage",
              "covers the services of entity.SERVICE2MESSAGE",
              "services without a request class: %s" % sorted(missing),
              rq.relpath)
    for k in sorted(set(kr) & set(km)):
        run.check(kr[k] == km[k], "R4", "SERVICE2REQUEST[%s]" % k,
                  "same message class name as SERVICE2MESSAGE",
                  "%s: request class %s vs message class %s" % (k, kr[k], km[k]),
                  rq.relpath, nontrivial=False)
    # _parse_request callers pass matching (class, service)
    n = 0
    for mi in m.modules.values():
        for c in all_calls_named(mi.tree, "_parse_request"):
            a_cls = arg_of(c, 1, "request_cls")
            a_svc = arg_of(c, 2, "service")
            if a_cls is None or a_svc is None:
                continue
            cls = unparse(a_cls).split(".")[-1]
            svc = a_svc.value if isinstance(a_svc, ast.Constant) else None
            n += 1
            ok = svc in kr and kr[svc] == cls
            run.check(ok, "R4", "%s::_parse_request(%s, %r)" % (mi.name, cls, svc),
                      "request class matches the service",
                      "service %r is parsed as %s (table says %s)" %
                      (svc, cls, kr.get(svc)), "%s:%d" % (mi.relpath, c.lineno),
                      nontrivial=False)
    run.floor("R4", "_parse_request call sites", n, 8)


def r5_correctly_signed_message(run):
    run.rule("R5", "correctly_signed_message: not the expected type => "
             "TypeError; unsigned and must => SignatureError")
    m = run.model
    fi = m.func(SC + ".correctly_signed_message")
    cfg = cfg_of(fi, m)
    wit = cfg.flag_search(cfg.entry, {"must": "T"},
                          lambda n, vd: n == cfg.return_exit,
                          assume={"not msg.signature": "T",
                                  "msg.signature": "F"})
    run.check(wit is None, "R5", fi.qual + "::unsigned+must=>raise",
              "no normal return for an unsigned message when must is set",
              "an unsigned message is returned although a signature is "
              "required", fi.loc(),
              witness=cfg.describe_path(wit) if wit else None)
    wit = cfg.flag_search(cfg.entry, {"msg": "U"},
                          lambda n, vd: n == cfg.return_exit and
                          vd["msg"] == "F")
    run.check(wit is None, "R5", fi.qual + "::wrong-type=>raise",
              "a falsy parse result never returns normally",
              "a message that is not of the expected type is returned",
              fi.loc(), witness=cfg.describe_path(wit) if wit else None)
    te = [r for r in cfg.by_kind("raise") if raised_class(r.ast) == "TypeError"]
    run.check(bool(te), "R5", fi.qual + "::TypeError", "raises TypeError",
              "TypeError no longer raised", fi.loc(), nontrivial=False)
    # parser chosen from msgtype
    # (the name handed to getattr(saml / samlp, <name>), temporaries expanded)
    at = [cfg.itext(c.args[1], nd.id) for nd, c in cfg.call_nodes("getattr")
          if len(c.args) >= 2 and unparse(c.args[0]) in ("saml", "samlp")]
    run.check(bool(at) and all("_from_string" in t and "msgtype" in t
                               for t in at), "R5", fi.qual + "::parser-name",
              "parser is '<msgtype>_from_string'",
              "parser name derives from %s" % at,
              fi.loc(), nontrivial=False)


def r6_request_verify(run):
    run.rule("R6", "Request._verify: a present Destination that is not one of "
             "the receiver's own endpoints is refused; IssueInstant window as "
             "for responses")
    m = run.model
    fi = m.func("request.Request._verify")
    cfg = cfg_of(fi, m)
    acc = [r.id for r in cfg.by_kind("return") if unparse(r.ast.value) == "self"]
    run.require(acc, "Request._verify: `return self` vanished")
    dest = "self.message.destination"
    tests = [t for t in cfg.by_kind("test")
             if dest in unparse(t.ast) or dest in unparse(cfg.ctest(t.id))]
    key = fi.qual + "::foreign-destination=>raise"
    if not tests:
        run.violated("R6", key, "the Destination is no longer examined", fi.loc())
    else:
        notin = dest + " not in self.receiver_addrs"
        wit = cfg.flag_search(cfg.entry, {}, lambda n, vd: n in acc,
                              assume={dest: "T", notin: "T",
                                      dest + " in self.receiver_addrs": "F",
                                      "self.receiver_addrs": "T"})
        run.check(wit is None, "R6", key,
                  "foreign Destination refused (own endpoints configured)",
                  "`return self` reachable for a Destination outside the own "
                  "endpoints", fi.loc(),
                  witness=cfg.describe_path(wit) if wit else None)
        wit = cfg.flag_search(cfg.entry, {}, lambda n, vd: n in acc,
                              assume={dest: "T", notin: "T",
                                      dest + " in self.receiver_addrs": "F",
                                      "self.receiver_addrs": "F"})
        run.check(wit is None, "R6", key + "::empty-endpoint-list",
                  "refused also when no own endpoint is configured for the "
                  "service and binding",
                  "the destination test is short-circuited by an empty "
                  "endpoint list (`and self.receiver_addrs`): a request "
                  "addressed to somebody else is accepted whenever the "
                  "receiver has no endpoint configured for that binding",
                  fi.loc(tests[0].ast),
                  witness=cfg.describe_path(wit) if wit else None)
    asserts = [nd.id for nd in cfg.by_kind("stmt")
               if isinstance(nd.ast, ast.Assert) and
               unparse(nd.ast.test) == "self.issue_instant_ok()"]
    if not asserts:
        run.violated("R6", fi.qual + "::issue_instant",
                     "`assert self.issue_instant_ok()` vanished", fi.loc())
    else:
        wit = unguarded_path(cfg, cfg.entry, acc, asserts, lambda e, p: False)
        run.check(wit is None, "R6", fi.qual + "::issue_instant",
                  "asserted on every path to `return self`",
                  "`return self` reachable without the IssueInstant check",
                  fi.loc(), witness=cfg.describe_path(wit) if wit else None)
    c04.r1_issue_instant(run, "request.Request.issue_instant_ok",
                         "self.message.issue_instant", rule="R6")
    si = m.func("request.Request.__init__")
    for attr, par in (("receiver_addrs", "receiver_addrs"),
                      ("timeslack", "timeslack")):
        vals = [s.value for s in walk_no_nested(si.node)
                if isinstance(s, ast.Assign) and
                any(attr_chain(t) == "self." + attr for t in s.targets)]
        run.check(vals and all(unparse(v) == par for v in vals), "R6",
                  si.qual + "::self." + attr, "stored unchanged",
                  "self.%s <- %s" % (attr, [unparse(v) for v in vals]), si.loc(),
                  nontrivial=False)
    for sub in m.subclasses("saml2_tophat.request.Request", strict=True):
        for meth in ("_verify", "verify", "_loads", "loads", "issue_instant_ok"):
            if meth in m.classes[sub].methods:
                run.violated("R6", "%s.%s::override" % (sub, meth),
                             "a request subclass overrides %s()" % meth,
                             m.classes[sub].methods[meth].loc())


def r7_accept_implies_verified(run):
    run.rule("R7", "a present request signature must verify: _check_signature "
             "returns normally only when a certificate verified it, whatever "
             "only_valid_cert is")
    c01.r7_accept_implies_verified(run, rule="R7", only_valid_cert="U",
                                   construct_suffix="::only_valid_cert-any")
    # the same verifier serves requests: the signature checked must be the
    # request's own (single Reference naming its ID) - C01.R3
    before = len(run.results)
    saved = dict(run.rules)
    c01.r3_reference_names_own_id(run)
    for r in run.results[before:]:
        r["rule"] = "R7"
    run.rules.clear()
    run.rules.update(saved)


def r8_receiver_addresses(run, ctx):
    run.rule("R8", "receiver addresses are the own endpoints configured for "
             "the service and binding")
    fi, cfg, org, ln, lc = ctx
    ctor = cfg.call_nodes("request_cls")[0]
    got = org.of(arg_of(ctor[1], 1), ctor[0].id)
    ok = got and all(a.kind == "call" and a.text == "self.config.endpoint"
                     for a in got)
    CONTEXTS = {"'sp'", "'idp'", "'aa'", "'aq'", "'pdp'"}
    for a in got:
        if a.kind == "call" and a.ast is not None:
            args = [unparse(x) for x in a.ast.args]
            ok = ok and args[:2] == ["service", "binding"]
    # every endpoint lookup names a real configuration context: the entity's
    # own type, or one of the literal section names of config.SPEC
    for nd2, c2 in cfg.call_nodes("endpoint"):
        if attr_chain(c2.func) != "self.config.endpoint":
            continue
        ctx = arg_of(c2, 2, "context")
        catoms = org.of(ctx, nd2.id) if ctx is not None else set()
        cok = bool(catoms) and all(
            (a.kind == "attr" and a.text == "self.entity_type") or
            (a.kind == "const" and a.text in CONTEXTS) for a in catoms)
        run.check(cok, "R8", fi.qual + "::endpoint-context:" + unparse(ctx),
                  "own endpoints are looked up in a real configuration section "
                  "(entity type or 'sp'/'idp'/'aa'/'aq'/'pdp')",
                  "endpoints are looked up under context %s (derives from %s), "
                  "which is not a configuration section name: the list of own "
                  "endpoints comes back empty and the Destination test is "
                  "skipped" % (unparse(ctx), sorted(repr(a) for a in catoms)),
                  fi.loc(c2))
    run.check(ok, "R8", fi.qual + "::receiver_addresses",
              "config.endpoint(service, binding, <own type>)",
              "receiver addresses derive from %s" % sorted(repr(a) for a in got),
              fi.loc())
    # the slack handed to the request object: the configured value (or 0)
    tcfg = cfg
    torg = org
    uses = [(nd, arg_of(c, None, "timeslack")) for nd in tcfg.nodes
            if nd.kind not in ("true", "false", "exc")
            for c in tcfg.own_calls(nd) if arg_of(c, None, "timeslack") is not None]
    got = set()
    for nd, a in uses:
        got |= {(x.kind, x.text) for x in torg.of(a, nd.id)}
    ok = bool(uses) and ("attr", "self.config.accepted_time_diff") in got and \
        got <= {("attr", "self.config.accepted_time_diff"), ("const", "0")}
    run.check(ok, "R8", fi.qual + "::timeslack", "configured accepted_time_diff",
              "timeslack derives from %s" % sorted(got), fi.loc())


CONE = ["entity.Entity._parse_request", "entity.Entity.unravel",
        "request.Request._loads", "request.Request.loads",
        "request.Request._verify", "request.Request.verify",
        "sigver.SecurityContext.correctly_signed_message",
        "sigver.SecurityContext._check_signature",
        "server.Server.parse_authn_request"]
PROTECTED = ["SignatureError", "SigverError", "MissingKey", "XmlsecError",
             "IncorrectlySigned", "NotValid", "OtherError", "CertificateError"]


def r9_handlers(run):
    run.rule("R9", "handler inventory over the request cone")
    m = run.model
    inv = excflow.inventory(m, [m.func(q) for q in CONE], PROTECTED)
    allowed = {
        ("saml2_tophat.request.Request._loads", "Exception"):
            "obligation R3 (empty message raises IncorrectlySigned)",
        ("saml2_tophat.sigver.SecurityContext._check_signature", "XmlsecError"):
            "per-certificate retry; obligation R7",
        ("saml2_tophat.entity.Entity.unravel", "Exception"):
            "converted to UnravelError",
    }
    n = 0
    for hi, hit in inv:
        if hi.caught and all(c in ("KeyError", "AttributeError", "IndexError")
                             for c in hi.caught):
            continue
        n += 1
        if not hi.swallows():
            run.holds("R9", hi.key, "re-raises/converts: %s" %
                      sorted(hi.dispositions), hi.loc())
            continue
        reasons = [allowed.get((hi.fi.qual, c)) for c in (hi.caught or ["<bare>"])]
        if hi.fi.qual.endswith("Request.verify") and \
                hi.caught == ["AssertionError"] and \
                hi.dispositions == {"return-falsy"}:
            run.holds("R9", hi.key, "AssertionError => None (rejection)",
                      hi.loc())
            continue
        run.check(all(reasons), "R9", hi.key, "enumerated idiom: %s" % reasons[0],
                  "may swallow %s (%s)" % (hit, sorted(hi.dispositions)),
                  hi.loc())
    run.floor("R9", "handlers", n, 4)


def check(run):
    run.explanation = (
        "C10: pipeline dominance in _parse_request, provenance of must/"
        "receiver addresses/timeslack, obligations of the swallowing handler in "
        "Request._loads, class/parser/service table agreement for all request "
        "classes, unsigned+must and wrong-type rejection, Destination and "
        "IssueInstant gates of Request._verify, flag-sensitive accept=>verified "
        "with only_valid_cert unconstrained, handler inventory. Not decided: "
        "garbled encodings at run time; xmlsec1.")
    run.assumptions = ["Request objects are created per call (self.message "
                       "starts as None)"]
    ctx = r1_pipeline(run)
    r2_must_provenance(run, ctx)
    r3_request_loads(run)
    r4_class_parser_agreement(run)
    r5_correctly_signed_message(run)
    r6_request_verify(run)
    r7_accept_implies_verified(run)
    r8_receiver_addresses(run, ctx)
    r9_handlers(run)
    from ..common_rules import misplaced_rule
    misplaced_rule(run, "R10", {"entity", "server", "request"}, "request parsing")
    # a signature that is present on a request is checked on every accepting
    # path of correctly_signed_message (shared with C01.R5: nothing remembered
    # from an earlier message may stand in for the check)
    from .c02 import _as
    _as(run, "R11", c01.r5_present_implies_checked, "R5")
