"""C12 - Schema element objects survive serialise/parse without loss.

Decided: agreement of the writer's and the reader's tables for every schema class
(exhaustive over the finite tables), and channel symmetry of the generic engine.
"""
import ast

from ..match import facts, Q
from ..srcmodel import attr_chain, call_name, unparse, norm_text, walk_no_nested
from ..cfg import cfg_of
from ..tables import reflect
from ..match import calls_named, arg_of


def _assigned_members(model, qual, seen=None):
    """Names assigned as `self.<name> = ...` by the constructor chain of a
    class (own __init__ plus every Base.__init__(self, ...) it calls)."""
    seen = seen or set()
    if qual in seen:
        return set()
    seen.add(qual)
    ci = model.classes.get(qual)
    if ci is None:
        return set()
    init = ci.methods.get("__init__")
    if init is None:
        out = set()
        for b in ci.bases:
            out |= _assigned_members(model, b, seen)
            if out:
                break
        return out
    out = set()
    mi = model.modules[ci.module]
    for n in walk_no_nested(init.node):
        if isinstance(n, ast.Assign):
            for t in n.targets:
                for tt in (t.elts if isinstance(t, ast.Tuple) else [t]):
                    if isinstance(tt, ast.Attribute) and \
                            isinstance(tt.value, ast.Name) and \
                            tt.value.id == "self":
                        out.add(tt.attr)
        if isinstance(n, ast.Call) and isinstance(n.func, ast.Attribute) and \
                n.func.attr == "__init__":
            base = model.resolve_expr(mi, n.func.value)
            if base:
                out |= _assigned_members(model, base, seen)
        if isinstance(n, ast.Call) and call_name(n) == "setattr" and n.args and \
                unparse(n.args[0]) == "self" and \
                isinstance(n.args[1], ast.Constant):
            out.add(n.args[1].value)
    return out


def table_rules(run, data):
    m = run.model
    run.rule("T1", "every c_children key equals '{ns}tag' of the child class it "
             "maps to (the writer emits the child under its own tag, the reader "
             "looks that tag up in the parent's keys)")
    run.rule("T2", "a non-empty c_child_order names exactly the child members")
    run.rule("T3", "member names are unique across children and attributes")
    run.rule("T4", "the constructor chain assigns every declared member (the "
             "writer's getattr cannot fail)")
    run.rule("T6", "a subclass's child table extends its base's: inherited keys "
             "and order are kept")
    n_children = n_attrs = 0
    for q, c in sorted(data["classes"].items()):
        loc = c["loc"]
        members = []
        for key, ch in c["c_children"].items():
            n_children += 1
            members.append(ch["member"])
            want = "{%s}%s" % (ch["cls_ns"], ch["cls_tag"])
            if ch["cls"] is None or key != want:
                run.violated("T1", "%s.c_children[%s]" % (q, key),
                             "key %s maps to %s whose own tag is %s: a "
                             "serialised %s child is not recognised when parsed "
                             "back (it lands in extension_elements)" %
                             (key, ch["cls"], want, ch["member"]), loc)
        ok2 = True
        order = c["c_child_order"]
        if order:
            missing = [x for x in members if x not in order]
            extra = [x for x in order if x not in members]
            if missing or extra:
                ok2 = False
                run.violated("T2", "%s.c_child_order" % q,
                             "members never emitted: %s; unknown names: %s" %
                             (missing, extra), loc)
        attr_members = []
        xml_names = []
        for key, at in c["c_attributes"].items():
            n_attrs += 1
            attr_members.append(at["member"])
            xml_names.append(key)
        allm = members + attr_members
        dup = sorted({x for x in allm if allm.count(x) > 1})
        if dup:
            run.violated("T3", "%s::members" % q,
                         "member name(s) %s used for more than one child/"
                         "attribute" % dup, loc)
        assigned = _assigned_members(m, q)
        if assigned:
            lacking = sorted(x for x in set(allm) if x not in assigned)
            if lacking:
                run.violated("T4", "%s::constructor" % q,
                             "declared member(s) %s are never assigned by the "
                             "constructor: serialising an instance raises "
                             "AttributeError" % lacking, loc)
        # inheritance
        for b in c["bases"]:
            bc = data["classes"].get(b)
            if not bc:
                continue
            for key, ch in bc["c_children"].items():
                mine = c["c_children"].get(key)
                if mine is None or mine["member"] != ch["member"]:
                    run.violated("T6", "%s<:%s[%s]" % (q, b, key),
                                 "inherited child %s of %s is missing/renamed "
                                 "in the subclass table" % (key, b), loc)
            bo = bc["c_child_order"]
            if bo and order[:len(bo)] != bo and not set(bo) <= set(order):
                run.violated("T6", "%s<:%s::order" % (q, b),
                             "base child order is not kept", loc)
            break
    run.count("classes", len(data["classes"]))
    run.count("c_children entries", n_children)
    run.count("c_attributes entries", n_attrs)
    for r in ("T1", "T2", "T3", "T4", "T6"):
        bad = [x for x in run.results if x["rule"] == r and
               x["verdict"] == "VIOLATED"]
        run.holds(r, "all-classes", "%d classes examined, %d deviations "
                  "(reported individually)" % (len(data["classes"]), len(bad)),
                  "src/saml2_tophat")
    run.floor("T1", "c_children entries", n_children, 1900)


def module_maps(run, data):
    run.rule("T5", "ELEMENT_FROM_STRING[tag] builds a class whose c_tag is "
             "tag and ELEMENT_BY_TAG[tag].c_tag == tag (the maps are keyed by "
             "tag, so classes sharing a tag legitimately share one entry)")
    m = run.model
    n = 0
    for mod, info in sorted(data["modules"].items()):
        mi = m.modules[mod]
        efs = info.get("ELEMENT_FROM_STRING") or {}
        ebt = info.get("ELEMENT_BY_TAG") or {}
        # function name -> class it builds (AST)
        builds = {}
        for fname, fi in mi.functions.items():
            if not fname.endswith("_from_string"):
                continue
            cs = [c for c in ast.walk(fi.node) if isinstance(c, ast.Call) and
                  call_name(c) == "create_class_from_xml_string"]
            if len(cs) == 1 and isinstance(arg_of(cs[0], 0), ast.Name):
                builds[fname] = mod + "." + arg_of(cs[0], 0).id
        for tag, fname in efs.items():
            n += 1
            cq = builds.get(fname)
            c = data["classes"].get(cq) if cq else None
            if c is None or c["c_tag"] != tag:
                run.violated("T5", "%s.ELEMENT_FROM_STRING[%s]" % (mod, tag),
                             "maps to %s which builds %s (c_tag %s)" %
                             (fname, cq, c["c_tag"] if c else None), mi.relpath)
        for tag, cq in ebt.items():
            n += 1
            c = data["classes"].get(cq)
            if c is None or c["c_tag"] != tag:
                run.violated("T5", "%s.ELEMENT_BY_TAG[%s]" % (mod, tag),
                             "maps to %s whose c_tag is %s" %
                             (cq, c["c_tag"] if c else None), mi.relpath)
    run.count("module map entries", n)
    bad = [x for x in run.results if x["rule"] == "T5"]
    run.holds("T5", "all-modules", "%d map entries over %d modules, %d "
              "deviations" % (n, len(data["modules"]), len(bad)),
              "src/saml2_tophat")
    run.floor("T5", "map entries", n, 2000)


def _loop_over(cfg, pred):
    """for-loops of the function whose (inlined, iter()-stripped) iterable
    satisfies pred(text)."""
    out = []
    for n in cfg.nodes:
        if n.kind != "foriter":
            continue
        it = n.ast.iter
        while isinstance(it, ast.Call) and call_name(it) == "iter" and \
                len(it.args) == 1:
            it = it.args[0]
        t = cfg.itext(it, n.id)
        if pred(t):
            out.append(n)
    return out


def _value_guards(cfg, nid, names):
    """Canonical guard facts of node nid that mention one of `names`."""
    out = set()
    for e, p, _ in cfg.guards(nid):
        if {x.id for x in ast.walk(e) if isinstance(x, ast.Name)} & set(names):
            out.add((" ".join(unparse(e).split()), p))
    return out


def engine_channels(run):
    run.rule("E1", "reader: harvest_element_tree consumes children, attributes "
             "and text; unknown children/attributes fall back to the extension "
             "container")
    run.rule("E2", "writer: _add_members_to_element_tree emits every child "
             "member (in order), every declared attribute that is set (also to "
             "an empty value), and then the extension children/attributes/text")
    run.rule("E3", "reader and writer use the same table entries for the same "
             "channel")
    m = run.model
    h = m.func("ExtensionContainer.harvest_element_tree")
    hcfg = cfg_of(h, m)
    kids = [nd for nd, c in hcfg.call_nodes("_convert_element_tree_to_member")]
    ok = bool(kids) and bool(_loop_over(hcfg, lambda t: t == "tree")) and \
        not _value_guards(hcfg, kids[0].id, h.params())
    run.check(ok, "E1", h.qual + "::children", "iterates all child elements",
              "children are no longer all converted", h.loc())
    atts = [nd for nd, c in
            hcfg.call_nodes("_convert_element_attribute_to_member")]
    ok = bool(atts) and bool(_loop_over(
        hcfg, lambda t: t in ("tree.attrib.items()", "tree.items()"))) and \
        not _value_guards(hcfg, atts[0].id, h.params())
    run.check(ok, "E1", h.qual + "::attributes", "iterates all XML attributes",
              "attributes are no longer all converted", h.loc())
    text = [nd for nd in hcfg.by_kind("stmt") if isinstance(nd.ast, ast.Assign)
            and attr_chain(nd.ast.targets[0]) == "self.text" and
            hcfg.itext(nd.ast.value, nd.id) == "tree.text" and
            not hcfg.guards(nd.id)]
    run.check(len(text) == 1, "E1", h.qual + "::text", "text is kept",
              "element text is no longer read (unconditionally)", h.loc())
    # SamlBase reader: known -> member, else -> ExtensionContainer version
    redesigned = set()
    for meth, table, key in (
            ("_convert_element_tree_to_member", "c_children", "child_tree.tag"),
            ("_convert_element_attribute_to_member", "c_attributes",
             "attribute")):
        fi = m.func("SamlBase." + meth)
        cfg = cfg_of(fi, m)
        member = Q("%s in self.__class__.%s" % (key, table))
        if table not in unparse(fi.node):
            # the reader no longer consults the generated table itself (a
            # derived lookup structure): the membership rules below are written
            # for the table and decide nothing about it - undecided, not a
            # violation; E7 and the table rules still apply
            redesigned.add(meth)
            run.undecided("E1", fi.qual + "::reader-form",
                          "%s does not consult %s directly; the known/unknown "
                          "split of this form is not decided" % (meth, table),
                          fi.loc())
            continue
        fb = [nd for nd, c in cfg.call_nodes(meth)
              if attr_chain(c.func) in ("ExtensionContainer." + meth,
                                        "super()." + meth)
              or attr_chain(c.func).endswith(")." + meth)]
        ok = len(fb) == 1 and (member[0], False) in facts(cfg, fb[0].id, True)
        run.check(ok, "E1", fi.qual + "::unknown=>extension",
                  "content not in %s goes to the extension container" % table,
                  "unknown content is dropped instead of being kept as "
                  "extension content", fi.loc())
        sets = cfg.call_nodes("setattr")
        ok = bool(sets)
        for nd, c in sets:
            ok = ok and member in facts(cfg, nd.id, True)
        run.check(ok, "E1", fi.qual + "::known=>member",
                  "known content is stored on the member named by the table",
                  "member assignment no longer guarded by table membership",
                  fi.loc())
        # the name / element looked up and handed on is the one received: no
        # rewriting of the key on the way (a rewritten key is stored under a
        # different name than it was read under)
        pnames = [p for p in fi.params() if p != "self"]
        rebound = sorted({d.name for d in cfg.rd.defs
                          if d.name in pnames and d.kind != "param"})
        run.check(not rebound, "E1", fi.qual + "::key-unchanged",
                  "the received %s is used as it is" % "/".join(pnames),
                  "%s is re-bound before it is looked up / stored: content "
                  "read under one name is kept under another" % rebound,
                  fi.loc())
    if redesigned:
        return
    fi = m.func("SamlBase._convert_element_tree_to_member")
    cfg = cfg_of(fi, m)
    entry = "self.__class__.c_children[child_tree.tag]"
    name = "%s[0]" % entry
    stores = [cfg.itext(arg_of(c, 1), nd.id) for nd, c in
              cfg.call_nodes("setattr")] + \
        [cfg.itext(arg_of(c, 1), nd.id) for nd, c in cfg.call_nodes("getattr")]
    run.check(stores and set(stores) == {name}, "E3",
              fi.qual + "::table-entry", "member name = entry[0] of the tag's "
              "entry", "reader stores children under %s" % sorted(set(stores)),
              fi.loc())
    built = sorted({cfg.itext(arg_of(c, 0), nd.id) for nd, c in
                    cfg.call_nodes("create_class_from_element_tree")})
    targ = {cfg.itext(arg_of(c, 1), nd.id) for nd, c in
            cfg.call_nodes("create_class_from_element_tree")}
    run.check(built == sorted(["%s[1]" % entry, "%s[1][0]" % entry]) and
              targ == {"child_tree"}, "E3", fi.qual + "::child-class",
              "children are built with the class from the table (entry[1], or "
              "its element for list members)",
              "children are built from %s over %s" % (built, sorted(targ)),
              fi.loc())
    fa = m.func("SamlBase._convert_element_attribute_to_member")
    acfg = cfg_of(fa, m)
    st = [(acfg.itext(arg_of(c, 1), nd.id), acfg.itext(arg_of(c, 2), nd.id))
          for nd, c in acfg.call_nodes("setattr")]
    run.check(st == [("self.__class__.c_attributes[attribute][0]", "value")],
              "E3", fa.qual + "::table-entry",
              "attribute stored under entry[0]", "attribute reader stores %s"
              % st, fa.loc())
    # writer
    w = m.func("SamlBase._add_members_to_element_tree")
    cfg = cfg_of(w, m)
    cl = _loop_over(cfg, lambda t: t == "self._get_all_c_children_with_order()")
    run.check(len(cl) == 1, "E2", w.qual + "::children",
              "iterates all child members in order",
              "writer no longer iterates _get_all_c_children_with_order()",
              w.loc())
    al = _loop_over(cfg, lambda t: t in ("self.__class__.c_attributes.items()",
                                         "self.c_attributes.items()"))
    wr = [nd for nd in cfg.by_kind("stmt") if isinstance(nd.ast, ast.Assign) and
          isinstance(nd.ast.targets[0], ast.Subscript) and
          attr_chain(nd.ast.targets[0].value) == "tree.attrib" and
          nd.id not in {x.id for x, _ in cfg.call_nodes(
              "_add_members_to_element_tree")}]
    ok = len(al) == 1 and len(wr) == 1
    run.check(ok, "E2", w.qual + "::attributes", "one loop over the declared "
              "attributes writing tree.attrib", "attribute writer changed",
              w.loc())
    if ok:
        nd = wr[0]
        vnames = {x.id for x in ast.walk(nd.ast.value)
                  if isinstance(x, ast.Name)}
        vg = _value_guards(cfg, nd.id, vnames)
        v = unparse(nd.ast.value)
        run.check(vg == {Q("%s is None" % v, False)}, "E2",
                  w.qual + "::attribute-set=>written",
                  "a declared attribute is written whenever it is not None "
                  "(an empty string is a value)",
                  "the attribute is written only under %s: a value that is "
                  "set can be dropped" % sorted(vg), w.loc(nd.ast))
        kt = cfg.itext(nd.ast.targets[0].slice, nd.id)
        vt = cfg.itext(nd.ast.value, nd.id)
        run.check(vt.startswith("getattr(self, "), "E2",
                  w.qual + "::attribute-value",
                  "the value written is the member's", "the value written is "
                  "%s (key %s)" % (vt, kt), w.loc(nd.ast))
    ext = [c for c in calls_named(w.node, "_add_members_to_element_tree")
           if attr_chain(c.func) ==
           "ExtensionContainer._add_members_to_element_tree"]
    run.check(len(ext) == 1 and [unparse(a) for a in ext[0].args] ==
              ["self", "tree"], "E2", w.qual + "::extension",
              "then emits the extension content",
              "extension elements/attributes/text are no longer written",
              w.loc())
    bc = [nd for nd, c in cfg.call_nodes("become_child_element_of")]
    run.check(len(bc) == 2, "E2", w.qual + "::list-and-single",
              "list members and single members are both emitted",
              "%d emission sites" % len(bc), w.loc())
    ew = m.func("ExtensionContainer._add_members_to_element_tree")
    ecfg = cfg_of(ew, m)
    ch = [nd for nd, c in ecfg.call_nodes("become_child_element_of")
          if unparse(arg_of(c, 0)) == "tree"]
    at = [nd for nd in ecfg.by_kind("stmt") if isinstance(nd.ast, ast.Assign)
          and isinstance(nd.ast.targets[0], ast.Subscript) and
          attr_chain(nd.ast.targets[0].value) == "tree.attrib"]
    tx = [nd for nd in ecfg.by_kind("stmt") if isinstance(nd.ast, ast.Assign)
          and attr_chain(nd.ast.targets[0]) == "tree.text" and
          ecfg.itext(nd.ast.value, nd.id) == "self.text"]
    run.check(ch and at and tx and
              _loop_over(ecfg, lambda t: t == "self.extension_elements") and
              _loop_over(ecfg, lambda t: t ==
                         "self.extension_attributes.items()"), "E2",
              ew.qual + "::channels",
              "extension children, extension attributes and text are written",
              "an extension channel is no longer written", ew.loc())
    g = m.func("SamlBase._get_all_c_children_with_order")
    gcfg = cfg_of(g, m)
    ys = sorted({gcfg.itext(y.value, n.id) for n in gcfg.nodes
                 if n.kind not in ("true", "false", "exc")
                 for r in gcfg.own_exprs(n) for y in ast.walk(r)
                 if isinstance(y, ast.Yield) and y.value is not None})
    run.check(len(ys) == 2 and
              bool(_loop_over(gcfg, lambda t: t in ("self.c_child_order",
                                                    "self.__class__.c_child_order")))
              and bool(_loop_over(gcfg, lambda t: t in (
                  "self.__class__.c_children.items()",
                  "self.c_children.items()",
                  "self.__class__.c_children.values()",
                  "self.c_children.values()"))), "E2", g.qual,
              "order list, else all table members", "ordering helper changed: "
              "yields %s" % ys, g.loc())
    t = m.func("SamlBase._to_element_tree")
    tcfg = cfg_of(t, m)
    run.check(tcfg.computes("'{%s}%s' % (self.__class__.c_namespace, "
                            "self.__class__.c_tag)"), "E3", t.qual + "::own-tag",
              "an element is written under its class's own {ns}tag",
              "element tag no longer built from c_namespace/c_tag", t.loc())
    c = m.func("create_class_from_element_tree")
    ccfg = cfg_of(c, m)
    hv = [nd for nd, cc in ccfg.call_nodes("harvest_element_tree")]
    ok = len(hv) == 1 and Q("tree.tag == '{%s}%s' % (namespace, tag)") in \
        facts(ccfg, hv[0].id, True)
    run.check(ok, "E3", c.qual + "::own-tag", "an element is read by the class "
              "with the same {ns}tag", "root tag test changed", c.loc())


def e4_foreign_content(run):
    run.rule("E4", "foreign (unknown) content: _extension_element_from_"
             "element_tree keeps every child element in document order (one "
             "append per child, inside a loop over the parsed element itself), "
             "every attribute and the text")
    m = run.model
    fi = m.func("_extension_element_from_element_tree")
    cfg = cfg_of(fi, m)
    p = [a for a in fi.params() if a != "self"][0]
    loops = _loop_over(cfg, lambda t: t == p)
    apps = [(nd, c) for nd, c in cfg.call_nodes("append") +
            cfg.call_nodes("extend") + cfg.call_nodes("insert")
            if (attr_chain(c.func) or "").split(".")[-2:-1] == ["children"]]
    run.floor("E4", "child stores in the foreign-content reader", len(apps), 1)
    for nd, c in apps:
        key = "%s::%s" % (fi.qual, norm_text(c)[:60])
        inl = [lp for lp in loops if any(x is c for x in ast.walk(lp.ast))]
        lv = {x.id for lp in inl for x in ast.walk(lp.ast.target)
              if isinstance(x, ast.Name)}
        used = {x.id for a in c.args for x in ast.walk(a)
                if isinstance(x, ast.Name)}
        # no test made inside the loop decides whether a child is kept
        inner = [unparse(e) for e, pol, bn in cfg.guards(nd.id)
                 if any(any(x is cfg.nodes[bn].ast for x in ast.walk(st))
                        for lp in inl for st in lp.ast.body)]
        ok = call_name(c) == "append" and bool(inl) and bool(lv & used) and \
            not _value_guards(cfg, nd.id, lv) and not inner
        run.check(ok, "E4", key,
                  "each child is appended as it is met, in document order",
                  "children of a foreign element are not stored one by one "
                  "in a loop over the parsed element (work lists / stacks "
                  "change sibling order): what is serialised again differs "
                  "from what was parsed", fi.loc(c))
    at = _loop_over(cfg, lambda t: t.endswith(".attrib.items()") or
                    t == "%s.items()" % p) or \
        [nd for nd, c in cfg.call_nodes("update")
         if c.args and cfg.itext(c.args[0], nd.id).endswith(".attrib")]
    tx = [nd for nd in cfg.by_kind("stmt") if isinstance(nd.ast, ast.Assign)
          and (attr_chain(nd.ast.targets[0]) or "").endswith(".text") and
          cfg.itext(nd.ast.value, nd.id).endswith(".text")] or \
        [nd for nd, c in cfg.call_nodes("ExtensionElement")
         if arg_of(c, None, "text") is not None and
         cfg.itext(arg_of(c, None, "text"), nd.id).endswith(".text")]
    run.check(bool(at) and bool(tx), "E4", fi.qual + "::attributes-and-text",
              "attributes and text of a foreign element are kept",
              "attributes or text of foreign content are no longer read",
              fi.loc())


def e6_foreign_writer(run):
    run.rule("E6", "foreign (unknown) content is written back as it was read: "
             "ExtensionElement.transfer_to_element_tree sets the element's own "
             "text (not a child's tail), copies every attribute and appends "
             "every child in order")
    m = run.model
    fi = m.func("ExtensionElement.transfer_to_element_tree")
    cfg = cfg_of(fi, m)
    tx = [nd for nd in cfg.by_kind("stmt") if isinstance(nd.ast, ast.Assign)
          and isinstance(nd.ast.targets[0], ast.Attribute) and
          nd.ast.targets[0].attr == "text" and
          cfg.itext(nd.ast.value, nd.id) == "self.text"]
    streaming = [c for c in ast.walk(fi.node) if isinstance(c, ast.Call) and
                 isinstance(c.func, ast.Attribute) and
                 c.func.attr in ("data", "start", "end") and
                 "uilder" in unparse(c.func.value)]
    run.check(bool(tx) and not streaming, "E6", fi.qual + "::own-text",
              "element.text = self.text",
              "the text of a foreign element is not assigned to the element "
              "itself (a streamed builder puts text that follows a child into "
              "that child's tail): mixed content changes on the way out",
              fi.loc())
    kids = _loop_over(cfg, lambda t: t == "self.children")
    at = _loop_over(cfg, lambda t: t in ("self.attributes.items()",))
    run.check(bool(kids) and bool(at), "E6", fi.qual + "::children-and-attributes",
              "every child and attribute is written",
              "children / attributes of foreign content are no longer all "
              "written", fi.loc())


_CTL_E7 = """
class Base(object):
    c_children = {}

    @classmethod
    def table(cls):
        try:
            return cls._table
        except AttributeError:
            cls._table = dict(cls.c_children)
            return cls._table

    @classmethod
    def own_table(cls):
        try:
            return cls.__dict__["_own"]
        except KeyError:
            cls._own = dict(cls.c_children)
            return cls._own
"""


def per_class_caches(model, modules):
    """`cls.X = ...` / `self.__class__.X = ...` / `type(self).X = ...` inside a
    method: something computed once per class and kept on the class.  Every
    read of that name through ordinary attribute lookup (cls.X, self.X,
    getattr(cls, "X"), hasattr) also finds a BASE class's value - the derived
    class, whose tables differ, is then served the base's.  Reads through the
    class's own namespace (cls.__dict__, vars(cls)) are exact.
    -> [(FuncInfo, node, attr)] inheriting reads."""
    out = []
    for q, fi in sorted(model.funcs.items()):
        short = fi.module[len(model.pkg) + 1:] if fi.module != model.pkg else ""
        if short not in modules or not fi.cls:
            continue
        roots = {"cls", "self.__class__", "type(self)"}
        kept = set()
        for x in ast.walk(fi.node):
            tg = x.targets if isinstance(x, ast.Assign) else (
                [x.target] if isinstance(x, ast.AugAssign) else [])
            for t in tg:
                if isinstance(t, ast.Attribute) and unparse(t.value) in roots:
                    kept.add(t.attr)
            if isinstance(x, ast.Call) and call_name(x) == "setattr" and \
                    len(x.args) == 3 and unparse(x.args[0]) in roots and \
                    isinstance(x.args[1], ast.Constant):
                kept.add(x.args[1].value)
        if not kept:
            continue
        # reads that follow an assignment of the same name in the same block
        # see the class's own value
        own = set()
        for blk in ast.walk(fi.node):
            for fld in ("body", "orelse", "finalbody"):
                seq = getattr(blk, fld, None)
                if not isinstance(seq, list):
                    continue
                done = set()
                for st in seq:
                    for x in ast.walk(st):
                        if isinstance(x, ast.Attribute) and \
                                isinstance(x.ctx, ast.Load) and x.attr in done:
                            own.add(id(x))
                    if isinstance(st, ast.Assign):
                        for t in st.targets:
                            if isinstance(t, ast.Attribute) and \
                                    unparse(t.value) in roots:
                                done.add(t.attr)
        for x in ast.walk(fi.node):
            if id(x) in own:
                continue
            if isinstance(x, ast.Attribute) and isinstance(x.ctx, ast.Load) and \
                    x.attr in kept and (unparse(x.value) in roots or
                                        unparse(x.value) == "self"):
                out.append((fi, x, x.attr))
            if isinstance(x, ast.Call) and call_name(x) in ("getattr", "hasattr") \
                    and len(x.args) >= 2 and isinstance(x.args[1], ast.Constant) \
                    and x.args[1].value in kept and \
                    (unparse(x.args[0]) in roots or unparse(x.args[0]) == "self"):
                out.append((fi, x, x.args[1].value))
    return out


def e7_per_class_cache(run):
    run.rule("E7", "whatever the element engine computes once per class and "
             "keeps on the class is read back through the class's own "
             "namespace: ordinary attribute lookup would hand a derived class "
             "(whose child/attribute tables differ) the table of a base class "
             "parsed earlier, and its own children would turn into extension "
             "content")
    from ..common_rules import _control_model
    mm = _control_model(_CTL_E7)
    got = sorted({(fi.name, a) for fi, x, a in per_class_caches(mm, {"ctl"})})
    run.require(got == [("table", "_table")], "E7 positive control: the "
                "inherited per-class cache of the embedded example is not "
                "flagged (or its exact twin is)")
    hits = per_class_caches(run.model, {"", "saml2_tophat"})
    for fi, x, a in hits:
        run.violated("E7", "%s::%s" % (fi.qual, norm_text(x)[:60]),
                     "`%s` is kept on the class and read back by attribute "
                     "lookup: a subclass that has not been through here yet "
                     "gets its base class's value" % a, fi.loc(x))
    run.holds("E7", "per-class-caches", "%d inheriting reads of per-class "
              "caches in the element engine (positive control flagged, exact "
              "twin silent)" % len(hits), "")


def check(run):
    run.explanation = (
        "C12: exhaustive agreement of the generated tables for all schema "
        "classes (child key == child's own {ns}tag, order covers members, "
        "unique member names, constructor assigns every member, module maps, "
        "inheritance) obtained by importing the schema modules in a child "
        "process (module top level only), plus channel symmetry of the generic "
        "reader/writer in SamlBase/ExtensionContainer. Not decided: equality "
        "of arbitrary instance trees, byte stability of ElementTree output.")
    run.exhaustive = True
    run.assumptions = ["reflection faithfully reports the class attributes "
                       "built at import time",
                       "ElementTree serialises/parses tags, attributes and "
                       "text losslessly"]
    data = reflect(run.model)
    table_rules(run, data)
    module_maps(run, data)
    engine_channels(run)
    e4_foreign_content(run)
    e6_foreign_writer(run)
    e7_per_class_cache(run)
    from ..common_rules import shared_state_rule
    shared_state_rule(run, "E5", {"", "saml2_tophat", "extension_elements_to_elements"},
                      "parsing / serialising one element")
