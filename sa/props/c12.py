"""C12 - Schema element objects survive serialise/parse without loss.

Decided: agreement of the writer's and the reader's tables for every schema class
(exhaustive over the finite tables), and channel symmetry of the generic engine.
"""
import ast

from ..match import facts, Q
from ..srcmodel import attr_chain, call_name, unparse, norm_text, walk_no_nested
from ..cfg import cfg_of
from ..tables import reflect
from ..match import calls_named, arg_of


def _assigned_members(model, qual, seen=None):
    """Names assigned as `self.<name> = ...` by the constructor chain of a
    class (own __init__ plus every Base.__init__(self, ...) it calls)."""
    seen = seen or set()
    if qual in seen:
        return set()
    seen.add(qual)
    ci = model.classes.get(qual)
    if ci is None:
        return set()
    init = ci.methods.get("__init__")
    if init is None:
        out = set()
        for b in ci.bases:
            out |= _assigned_members(model, b, seen)
            if out:
                break
        return out
    out = set()
    mi = model.modules[ci.module]
    for n in walk_no_nested(init.node):
        if isinstance(n, ast.Assign):
            for t in n.targets:
                for tt in (t.elts if isinstance(t, ast.Tuple) else [t]):
                    if isinstance(tt, ast.Attribute) and \
                            isinstance(tt.value, ast.Name) and \
                            tt.value.id == "self":
                        out.add(tt.attr)
        if isinstance(n, ast.Call) and isinstance(n.func, ast.Attribute) and \
                n.func.attr == "__init__":
            base = model.resolve_expr(mi, n.func.value)
            if base:
                out |= _assigned_members(model, base, seen)
        if isinstance(n, ast.Call) and call_name(n) == "setattr" and n.args and \
                unparse(n.args[0]) == "self" and \
                isinstance(n.args[1], ast.Constant):
            out.add(n.args[1].value)
    return out


def table_rules(run, data):
    m = run.model
    run.rule("T1", "every c_children key equals '{ns}tag' of the child class it "
             "maps to (the writer emits the child under its own tag, the reader "
             "looks that tag up in the parent's keys)")
    run.rule("T2", "a non-empty c_child_order names exactly the child members")
    run.rule("T3", "member names are unique across children and attributes")
    run.rule("T4", "the constructor chain assigns every declared member (the "
             "writer's getattr cannot fail)")
    run.rule("T6", "a subclass's child table extends its base's: inherited keys "
             "and order are kept")
    n_children = n_attrs = 0
    for q, c in sorted(data["classes"].items()):
        loc = c["loc"]
        members = []
        for key, ch in c["c_children"].items():
            n_children += 1
            members.append(ch["member"])
            want = "{%s}%s" % (ch["cls_ns"], ch["cls_tag"])
            if ch["cls"] is None or key != want:
                run.violated("T1", "%s.c_children[%s]" % (q, key),
                             "key %s maps to %s whose own tag is %s: a "
                             "serialised %s child is not recognised when parsed "
                             "back (it lands in extension_elements)" %
                             (key, ch["cls"], want, ch["member"]), loc)
        ok2 = True
        order = c["c_child_order"]
        if order:
            missing = [x for x in members if x not in order]
            extra = [x for x in order if x not in members]
            if missing or extra:
                ok2 = False
                run.violated("T2", "%s.c_child_order" % q,
                             "members never emitted: %s; unknown names: %s" %
                             (missing, extra), loc)
        attr_members = []
        xml_names = []
        for key, at in c["c_attributes"].items():
            n_attrs += 1
            attr_members.append(at["member"])
            xml_names.append(key)
        allm = members + attr_members
        dup = sorted({x for x in allm if allm.count(x) > 1})
        if dup:
            run.violated("T3", "%s::members" % q,
                         "member name(s) %s used for more than one child/"
                         "attribute" % dup, loc)
        assigned = _assigned_members(m, q)
        if assigned:
            lacking = sorted(x for x in set(allm) if x not in assigned)
            if lacking:
                run.violated("T4", "%s::constructor" % q,
                             "declared member(s) %s are never assigned by the "
                             "constructor: serialising an instance raises "
                             "AttributeError" % lacking, loc)
        # inheritance
        for b in c["bases"]:
            bc = data["classes"].get(b)
            if not bc:
                continue
            for key, ch in bc["c_children"].items():
                mine = c["c_children"].get(key)
                if mine is None or mine["member"] != ch["member"]:
                    run.violated("T6", "%s<:%s[%s]" % (q, b, key),
                                 "inherited child %s of %s is missing/renamed "
                                 "in the subclass table" % (key, b), loc)
            bo = bc["c_child_order"]
            if bo and order[:len(bo)] != bo and not set(bo) <= set(order):
                run.violated("T6", "%s<:%s::order" % (q, b),
                             "base child order is not kept", loc)
            break
    run.count("classes", len(data["classes"]))
    run.count("c_children entries", n_children)
    run.count("c_attributes entries", n_attrs)
    for r in ("T1", "T2", "T3", "T4", "T6"):
        bad = [x for x in run.results if x["rule"] == r and
               x["verdict"] == "VIOLATED"]
        run.holds(r, "all-classes", "%d classes examined, %d deviations "
                  "(reported individually)" % (len(data["classes"]), len(bad)),
                  "src/saml2_tophat")
    run.floor("T1", "c_children entries", n_children, 1900)


def module_maps(run, data):
    run.rule("T5", "ELEMENT_FROM_STRING[tag] builds a class whose c_tag is "
             "tag and ELEMENT_BY_TAG[tag].c_tag == tag (the maps are keyed by "
             "tag, so classes sharing a tag legitimately share one entry)")
    m = run.model
    n = 0
    for mod, info in sorted(data["modules"].items()):
        mi = m.modules[mod]
        efs = info.get("ELEMENT_FROM_STRING") or {}
        ebt = info.get("ELEMENT_BY_TAG") or {}
        # function name -> class it builds (AST)
        builds = {}
        for fname, fi in mi.functions.items():
            if not fname.endswith("_from_string"):
                continue
            cs = [c for c in ast.walk(fi.node) if isinstance(c, ast.Call) and
                  call_name(c) == "create_class_from_xml_string"]
            if len(cs) == 1 and isinstance(arg_of(cs[0], 0), ast.Name):
                builds[fname] = mod + "." + arg_of(cs[0], 0).id
        for tag, fname in efs.items():
            n += 1
            cq = builds.get(fname)
            c = data["classes"].get(cq) if cq else None
            if c is None or c["c_tag"] != tag:
                run.violated("T5", "%s.ELEMENT_FROM_STRING[%s]" % (mod, tag),
                             "maps to %s which builds %s (c_tag %s)" %
                             (fname, cq, c["c_tag"] if c else None), mi.relpath)
        for tag, cq in ebt.items():
            n += 1
            c = data["classes"].get(cq)
            if c is None or c["c_tag"] != tag:
                run.violated("T5", "%s.ELEMENT_BY_TAG[%s]" % (mod, tag),
                             "maps to %s whose c_tag is %s" %
                             (cq, c["c_tag"] if c else None), mi.relpath)
    run.count("module map entries", n)
    bad = [x for x in run.results if x["rule"] == "T5"]
    run.holds("T5", "all-modules", "%d map entries over %d modules, %d "
              "deviations" % (n, len(data["modules"]), len(bad)),
              "src/saml2_tophat")
    run.floor("T5", "map entries", n, 2000)


def engine_channels(run):
    run.rule("E1", "reader: harvest_element_tree consumes children, attributes "
             "and text; unknown children/attributes fall back to the extension "
             "container")
    run.rule("E2", "writer: _add_members_to_element_tree emits every child "
             "member (in order), every declared attribute, and then the "
             "extension children/attributes/text")
    run.rule("E3", "reader and writer use the same table entries for the same "
             "channel")
    m = run.model
    h = m.func("ExtensionContainer.harvest_element_tree")
    calls = {call_name(c) for c in ast.walk(h.node) if isinstance(c, ast.Call)}
    loops = [unparse(l.iter) for l in walk_no_nested(h.node)
             if isinstance(l, ast.For)]
    text = [s for s in walk_no_nested(h.node) if isinstance(s, ast.Assign) and
            attr_chain(s.targets[0]) == "self.text" and
            unparse(s.value) == "tree.text"]
    run.check("_convert_element_tree_to_member" in calls and "tree" in loops,
              "E1", h.qual + "::children", "iterates all child elements",
              "children are no longer all converted", h.loc())
    run.check("_convert_element_attribute_to_member" in calls and
              any("tree.attrib" in l for l in loops), "E1",
              h.qual + "::attributes", "iterates all XML attributes",
              "attributes are no longer all converted", h.loc())
    run.check(len(text) == 1, "E1", h.qual + "::text", "text is kept",
              "element text is no longer read", h.loc())
    # SamlBase reader: known -> member, else -> ExtensionContainer version
    for meth, table in (("_convert_element_tree_to_member", "c_children"),
                        ("_convert_element_attribute_to_member",
                         "c_attributes")):
        fi = m.func("SamlBase." + meth)
        cfg = cfg_of(fi, m)
        fb = [nd for nd, c in cfg.call_nodes(meth)
              if attr_chain(c.func) == "ExtensionContainer." + meth]
        ok = len(fb) == 1
        if ok:
            gs = facts(cfg, fb[0].id)
            ok = any(("self.__class__.%s" % table) in g and " in " in g and
                     p is False for g, p in gs)
        run.check(ok, "E1", fi.qual + "::unknown=>extension",
                  "content not in %s goes to the extension container" % table,
                  "unknown content is dropped instead of being kept as "
                  "extension content", fi.loc())
        sets = cfg.call_nodes("setattr")
        ok = bool(sets)
        for nd, c in sets:
            gs = facts(cfg, nd.id)
            ok = ok and any(("self.__class__.%s" % table) in g and p
                            for g, p in gs)
        run.check(ok, "E1", fi.qual + "::known=>member",
                  "known content is stored on the member named by the table",
                  "member assignment no longer guarded by table membership",
                  fi.loc())
    fi = m.func("SamlBase._convert_element_tree_to_member")
    src = unparse(fi.node)
    run.check("self.__class__.c_children[child_tree.tag][0]" in src and
              "self.__class__.c_children[child_tree.tag][1]" in src, "E3",
              fi.qual + "::table-entry", "member name = entry[0], class = "
              "entry[1] of the tag's entry", "reader indexes the table "
              "differently", fi.loc())
    run.check("create_class_from_element_tree(member_class[0], child_tree)"
              in src and "create_class_from_element_tree(member_class, "
              "child_tree)" in src, "E3", fi.qual + "::child-class",
              "children are built with the class from the table",
              "child construction changed", fi.loc())
    fa = m.func("SamlBase._convert_element_attribute_to_member")
    run.check("setattr(self, self.__class__.c_attributes[attribute][0], value)"
              in unparse(fa.node), "E3", fa.qual + "::table-entry",
              "attribute stored under entry[0]", "attribute reader changed",
              fa.loc())
    # writer
    w = m.func("SamlBase._add_members_to_element_tree")
    wsrc = unparse(w.node)
    loops = [unparse(l.iter) for l in walk_no_nested(w.node)
             if isinstance(l, ast.For)]
    run.check("self._get_all_c_children_with_order()" in loops, "E2",
              w.qual + "::children", "iterates all child members in order",
              "writer no longer iterates _get_all_c_children_with_order()",
              w.loc())
    run.check(any("self.__class__.c_attributes.items()" in l for l in loops) and
              "tree.attrib[xml_attribute] = member" in wsrc, "E2",
              w.qual + "::attributes", "emits every declared attribute that is "
              "set, under its XML name", "attribute writer changed", w.loc())
    ext = [c for c in calls_named(w.node, "_add_members_to_element_tree")
           if attr_chain(c.func) ==
           "ExtensionContainer._add_members_to_element_tree"]
    run.check(len(ext) == 1 and [unparse(a) for a in ext[0].args] ==
              ["self", "tree"], "E2", w.qual + "::extension",
              "then emits the extension content",
              "extension elements/attributes/text are no longer written",
              w.loc())
    cfg = cfg_of(w, m)
    bc = [nd for nd, c in cfg.call_nodes("become_child_element_of")]
    run.check(len(bc) == 2, "E2", w.qual + "::list-and-single",
              "list members and single members are both emitted",
              "%d emission sites" % len(bc), w.loc())
    ew = m.func("ExtensionContainer._add_members_to_element_tree")
    esrc = unparse(ew.node)
    run.check("child.become_child_element_of(tree)" in esrc and
              "tree.attrib[attribute] = value" in esrc and
              "tree.text = self.text" in esrc, "E2", ew.qual + "::channels",
              "extension children, extension attributes and text are written",
              "an extension channel is no longer written", ew.loc())
    g = m.func("SamlBase._get_all_c_children_with_order")
    gsrc = unparse(g.node)
    run.check("self.c_child_order" in gsrc and
              "self.__class__.c_children.items()" in gsrc and
              "yield values[0]" in gsrc, "E2", g.qual,
              "order list, else all table members", "ordering helper changed",
              g.loc())
    t = m.func("SamlBase._to_element_tree")
    run.check("'{%s}%s' % (self.__class__.c_namespace, self.__class__.c_tag)"
              in unparse(t.node), "E3", t.qual + "::own-tag",
              "an element is written under its class's own {ns}tag",
              "element tag no longer built from c_namespace/c_tag", t.loc())
    c = m.func("create_class_from_element_tree")
    run.check("tree.tag == '{%s}%s' % (namespace, tag)" in unparse(c.node) and
              "target.harvest_element_tree(tree)" in unparse(c.node), "E3",
              c.qual + "::own-tag", "an element is read by the class with the "
              "same {ns}tag", "root tag test changed", c.loc())


def check(run):
    run.explanation = (
        "C12: exhaustive agreement of the generated tables for all schema "
        "classes (child key == child's own {ns}tag, order covers members, "
        "unique member names, constructor assigns every member, module maps, "
        "inheritance) obtained by importing the schema modules in a child "
        "process (module top level only), plus channel symmetry of the generic "
        "reader/writer in SamlBase/ExtensionContainer. Not decided: equality "
        "of arbitrary instance trees, byte stability of ElementTree output.")
    run.exhaustive = True
    run.assumptions = ["reflection faithfully reports the class attributes "
                       "built at import time",
                       "ElementTree serialises/parses tags, attributes and "
                       "text losslessly"]
    data = reflect(run.model)
    table_rules(run, data)
    module_maps(run, data)
    engine_channels(run)
