"""C11 - No XML entry point resolves entities, DTD content or external resources.

The quantifier of this property is "programs": every XML-parsing call site in the
package, including ones added later.  The inventory below resolves every call's
callee through the module's import table (all alternatives of try/except import
fallbacks are kept).
"""
import ast
import os

from ..match import facts, Q
from ..srcmodel import (attr_chain, call_name, unparse, norm_text, walk_no_nested,
                        Model, AnalysisError)
from ..dataflow import Origins
from ..cfg import cfg_of
from .. import excflow
from ..match import calls_named, arg_of

STDLIB_ET = ("xml.etree.cElementTree", "xml.etree.ElementTree", "cElementTree",
             "elementtree.ElementTree", "xml.etree")
PARSE_FUNCS = {"fromstring", "XML", "XMLID", "parse", "iterparse",
               "fromstringlist", "XMLParser", "XMLPullParser", "XMLTreeBuilder",
               "feed", "parseString", "make_parser",
               "ParserCreate", "parse_xml", "loads", "load", "include",
               "HTML", "XMLSchema", "XSLT", "RelaxNG", "fromstringlist",
               "pulldom", "expatreader", "create_parser"}
UNSAFE_FAMILIES = ("xml.dom", "xml.sax", "xml.parsers", "lxml", "xmlrpc",
                   "plistlib", "xml.etree.ElementInclude", "xmlsec", "libxml2",
                   "xmltodict", "bs4", "html5lib", "genshi", "pyexpat")
SAFE_FAMILY = "defusedxml"
# delegated third-party parsing that cannot be analysed (named exclusions)
DELEGATED = {
    ("saml2_tophat.sigver.CryptoBackendXMLSecurity.sign_statement",
     "xmlsec.parse_xml"):
        "opt-in pyXMLSecurity backend (not installed); signs own output",
    ("saml2_tophat.sigver.CryptoBackendXMLSecurity.validate_signature",
     "xmlsec.parse_xml"):
        "opt-in pyXMLSecurity backend (not installed); parses with lxml "
        "outside this package",
}
NON_PARSING = {"tostring", "Element", "SubElement", "register_namespace",
               "iselement", "dump", "tostringlist", "QName", "Comment",
               "ElementTree", "sign", "verify", "XMLSigException"}


def _family(q):
    for f in UNSAFE_FAMILIES:
        if q == f or q.startswith(f + "."):
            return "unsafe"
    for f in STDLIB_ET:
        if q == f or q.startswith(f + "."):
            return "stdlib-et"
    if q == SAFE_FAMILY or q.startswith(SAFE_FAMILY + "."):
        return "defused"
    return None


def classify_call(model, mi, call):
    """-> list of (family, qualified callee) alternatives for an XML-related
    call, [] for anything else."""
    ch = attr_chain(call.func)
    if ch is None or "()" in ch or "[]" in ch:
        return []
    parts = ch.split(".")
    roots = mi.imports.get(parts[0])
    if not roots:
        return []
    out = []
    for r in sorted(roots):
        q = ".".join([r] + parts[1:])
        fam = _family(q)
        if fam:
            out.append((fam, q))
    return out


def inventory(run, model, rule="R1", informational=False):
    counts = {"defused-parse": 0, "stdlib-nonparse": 0, "calls": 0,
              "modules": 0}
    for mname, mi in sorted(model.modules.items()):
        counts["modules"] += 1
        for node in ast.walk(mi.tree):
            if not isinstance(node, ast.Call):
                continue
            counts["calls"] += 1
            alts = classify_call(model, mi, node)
            if not alts:
                continue
            fi = model.enclosing_function(mi, node)
            where = fi.qual if fi else mname
            loc = "%s:%d" % (mi.relpath, node.lineno)
            fams = {f for f, _ in alts}
            quals = sorted(q for _, q in alts)
            # the function actually called (an imported name may be aliased)
            name = quals[0].rsplit(".", 1)[-1]
            key = "%s::%s" % (where, attr_chain(node.func))
            if fams == {"defused"}:
                if name in PARSE_FUNCS:
                    counts["defused-parse"] += 1
                    bad = [k.arg for k in node.keywords if k.arg in (
                        "forbid_entities", "forbid_external", "parser")
                        and not (k.arg != "parser" and isinstance(
                            k.value, ast.Constant) and k.value.value is True)]
                    if len(node.args) > 1:
                        bad.append("positional parser/options")
                    if informational:
                        continue
                    run.check(not bad, rule, key + "@" + norm_text(node)[:50],
                              "defusedxml parser with default protections",
                              "defusedxml protections weakened: %s" % bad, loc)
                continue
            if "unsafe" in fams:
                delegated = DELEGATED.get((where, quals[0]))
                if name in NON_PARSING and name not in PARSE_FUNCS:
                    continue
                if informational:
                    run.note("%s: %s (%s)" % (loc, quals[0], "outside the "
                                              "package; informational"))
                    continue
                if delegated:
                    run.holds("R3", key, "named exclusion: %s" % delegated, loc,
                              nontrivial=False)
                else:
                    run.violated(rule, key,
                                 "XML text is handed to %s, a parser that "
                                 "resolves entities / DTDs / external "
                                 "resources (not defusedxml)" % quals[0], loc)
                continue
            # stdlib ElementTree family (possibly mixed alternatives)
            if name in PARSE_FUNCS:
                if informational:
                    run.note("%s: %s parses XML with the standard library" %
                             (loc, quals[0]))
                    continue
                run.violated(rule, key,
                             "%s() of the standard-library ElementTree (%s) "
                             "parses XML text: entities and DTD content are "
                             "processed; use defusedxml.ElementTree" %
                             (name, quals[0]), loc)
            else:
                counts["stdlib-nonparse"] += 1
    return counts


def r1_parser_inventory(run):
    run.rule("R1", "every call that turns XML text into a tree resolves to "
             "defusedxml; the standard-library ElementTree is used only to "
             "build and serialise")
    run.rule("R2", "no defusedxml call weakens forbid_entities / "
             "forbid_external or supplies its own parser")
    run.rule("R3", "delegated third-party parsing is limited to the two named "
             "sites of the opt-in pyXMLSecurity backend")
    m = run.model
    counts = inventory(run, m)
    for k, v in counts.items():
        run.count("R1." + k, v)
    run.floor("R1", "defusedxml parse sites", counts["defused-parse"], 6)
    run.floor("R1", "modules scanned", counts["modules"], 100)
    # imports of parser families
    allowed_import_sites = {
        "saml2_tophat.sigver": {"xmlsec", "lxml.etree"},
    }
    for mname, mi in sorted(m.modules.items()):
        for node in ast.walk(mi.tree):
            names = []
            if isinstance(node, ast.Import):
                names = [a.name for a in node.names]
            elif isinstance(node, ast.ImportFrom) and node.module and \
                    not node.level:
                names = [node.module + "." + a.name for a in node.names] + \
                    [node.module]
            for nm in names:
                if _family(nm) != "unsafe":
                    continue
                fi = m.enclosing_function(mi, node)
                ok = nm in allowed_import_sites.get(mname, set()) and \
                    fi is not None and ".CryptoBackendXMLSecurity." in fi.qual
                run.check(ok, "R3", "%s::import %s" % (
                    fi.qual if fi else mname, nm),
                    "import confined to the pyXMLSecurity backend",
                    "module imports the XML parser family %s" % nm,
                    "%s:%d" % (mi.relpath, node.lineno), nontrivial=False)
        for node in ast.walk(mi.tree):
            if isinstance(node, ast.Call) and call_name(node) in (
                    "import_module", "__import__") and node.args and \
                    isinstance(node.args[0], ast.Constant) and \
                    isinstance(node.args[0].value, str) and \
                    _family(node.args[0].value) in ("unsafe", "stdlib-et"):
                run.violated("R1", "%s::dynamic-import %s" % (
                    mname, node.args[0].value),
                    "XML parser module imported dynamically",
                    "%s:%d" % (mi.relpath, node.lineno))
    # positive control: the matcher must flag an unsafe snippet
    snippet = ("try:\n    from xml.etree import cElementTree as ElementTree\n"
               "except ImportError:\n    from xml.etree import ElementTree\n"
               "import xml.dom.minidom\n"
               "def f(x):\n    return ElementTree.fromstring(x)\n"
               "def g(x):\n    return xml.dom.minidom.parseString(x)\n")
    hits = positive_control(snippet)
    run.require(hits == 2, "positive control: the parser inventory flagged %d "
                "of 2 unsafe calls in the embedded example" % hits)
    run.holds("R1", "positive-control", "embedded unsafe example is flagged "
              "(2/2)", nontrivial=False)


def positive_control(src):
    from ..srcmodel import ModuleInfo
    tree = ast.parse(src)
    mi = ModuleInfo("control", "<control>", "<control>", tree, src)

    class _M(object):
        pass
    # minimal import indexing (same code path as Model._index_module)
    fake = Model.__new__(Model)
    fake.modules, fake.funcs, fake.classes, fake.pkg = {}, {}, {}, "control"
    fake._index_module(mi)
    n = 0
    for node in ast.walk(tree):
        if isinstance(node, ast.Call):
            alts = classify_call(fake, mi, node)
            fams = {f for f, _ in alts}
            if alts and alts[0][1].rsplit(".", 1)[-1] in PARSE_FUNCS and \
                    fams != {"defused"}:
                n += 1
    return n


def r4_single_funnel(run):
    run.rule("R4", "every <element>_from_string of the schema modules goes "
             "through saml2_tophat.create_class_from_xml_string, whose only "
             "parser is defusedxml")
    m = run.model
    n = 0
    bad = 0
    for mname, mi in sorted(m.modules.items()):
        for fname, fi in mi.functions.items():
            if not fname.endswith("_from_string"):
                continue
            if mname == "saml2_tophat":
                continue
            body = [s for s in fi.node.body if not (
                isinstance(s, ast.Expr) and isinstance(s.value, ast.Constant))]
            calls = [c for c in ast.walk(fi.node) if isinstance(c, ast.Call)]
            ok = len(body) == 1 and isinstance(body[0], ast.Return) and \
                isinstance(body[0].value, ast.Call) and \
                call_name(body[0].value) == "create_class_from_xml_string" and \
                len(calls) == 1
            if ok:
                tg = m.resolve_expr_all(mi, body[0].value.func)
                ok = tg == {"saml2_tophat.create_class_from_xml_string"}
                a1 = arg_of(body[0].value, 1)
                ok = ok and isinstance(a1, ast.Name) and \
                    a1.id == fi.params()[0]
            n += 1
            if not ok:
                # hand-written helpers are allowed if they only call other
                # *_from_string functions / create_class_from_xml_string
                inner = {call_name(c) for c in calls}
                # `for func in [a_from_string, b_from_string]: func(x)`
                for lp in ast.walk(fi.node):
                    if isinstance(lp, ast.For) and isinstance(
                            lp.target, ast.Name) and isinstance(
                            lp.iter, (ast.List, ast.Tuple)) and all(
                            isinstance(e, ast.Name) and
                            e.id.endswith("_from_string")
                            for e in lp.iter.elts):
                        inner.discard(lp.target.id)
                inner.discard("Exception")
                parse_like = {x for x in inner if x in PARSE_FUNCS}
                if parse_like or not all(
                        (x or "").endswith("_from_string") or
                        x in ("create_class_from_xml_string", "isinstance",
                              "getattr", "type", "str", "len")
                        for x in inner):
                    bad += 1
                    run.violated("R4", fi.qual,
                                 "parses by other means than "
                                 "create_class_from_xml_string: calls %s" %
                                 sorted(x for x in inner if x), fi.loc())
    run.floor("R4", "*_from_string functions", n, 1100)
    run.holds("R4", "schema-modules::*_from_string",
              "%d functions, %d deviate" % (n, bad), "src/saml2_tophat")
    top = m.module("")
    for fname in ("create_class_from_xml_string", "extension_element_from_string"):
        fi = m.func(fname)
        calls = [c for c in ast.walk(fi.node) if isinstance(c, ast.Call)]
        parsers = [c for c in calls if call_name(c) in PARSE_FUNCS]
        want = fi.params()[-1 if fname == "create_class_from_xml_string"
                           else 0]
        ok = len(parsers) == 1 and attr_chain(parsers[0].func) == \
            "defusedxml.ElementTree.fromstring"
        if ok:
            # the parsed text is the text parameter, possibly re-encoded
            fcfg = cfg_of(fi, m)
            pn = [nd for nd, c in fcfg.call_nodes("fromstring")
                  if c is parsers[0]]
            org = Origins(fcfg)
            got = org.of(arg_of(parsers[0], 0), pn[0].id) if pn else set()
            ok = bool(got) and {(a.kind, a.text) for a in got} == \
                {("param", want)}
        run.check(ok, "R4", fi.qual + "::parser",
                  "parses its text argument with defusedxml only",
                  "parser calls: %s" % [unparse(c) for c in parsers], fi.loc())


PARSE_CONE = ["create_class_from_xml_string", "create_class_from_element_tree",
              "extension_element_from_string",
              "ExtensionContainer.harvest_element_tree",
              "SamlBase._convert_element_tree_to_member",
              "_extension_element_from_element_tree",
              "soap.parse_soap_enveloped_saml_thingy",
              "soap.class_instances_from_soap_enveloped_saml_thingies",
              "soap.open_soap_envelope", "soap.instanciate_class",
              "pack.parse_soap_enveloped_saml", "entity.Entity.unravel",
              "mdstore.InMemoryMetaData.parse"]


def r5_no_partial_objects(run):
    run.rule("R5", "no handler on a parse function swallows a parser error and "
             "carries on with a partially built object")
    m = run.model
    funcs = [m.func(q) for q in PARSE_CONE]
    # ... and any other function of the hand-written modules that wraps a
    # parse call in a handler
    from ..tables import schema_modules
    skip = set(schema_modules(m))
    have = {f.qual for f in funcs}
    funcs += [f for q, f in sorted(m.funcs.items())
              if f.module not in skip and f.qual not in have]
    n = 0
    for fi in funcs:
        for hi in excflow.handlers_of(fi, m):
            n += 1
            calls = set(hi.body_calls())
            parses = calls & {"fromstring", "create_class_from_element_tree",
                              "create_class_from_xml_string", "func",
                              "decode_base64_and_inflate", "b64decode",
                              "harvest_element_tree", "entities_descriptor_"
                              "from_string", "entity_descriptor_from_string"}
            if not parses and "fromstring" not in calls:
                continue
            broad = (not hi.caught) or any(c in ("Exception", "BaseException",
                                                 "ParseError", "SyntaxError",
                                                 "DefusedXmlException",
                                                 "EntitiesForbidden",
                                                 "DTDForbidden",
                                                 "ExternalReferenceForbidden",
                                                 "NotSupportedError",
                                                 "ValueError")
                                           for c in hi.caught)
            if not broad:
                continue
            run.check(not hi.swallows(), "R5", hi.key,
                      "parser errors are converted/re-raised: %s" %
                      sorted(hi.dispositions),
                      "a parser error raised by %s is swallowed (%s): the "
                      "caller would receive a partially populated object" %
                      (sorted(parses), sorted(hi.dispositions)), hi.loc())
    run.count("R5.handlers", n)
    # the constructors return None (not a partial object) for a wrong root tag
    fi = m.func("create_class_from_element_tree")
    cfg = cfg_of(fi, m)
    rets = cfg.by_kind("return")
    ok = True
    for r in rets:
        gs = facts(cfg, r.id)
        if unparse(r.ast.value) not in ("None", "target"):
            ok = False
        if unparse(r.ast.value) == "target":
            ok = ok and any("tree.tag" in g and " == " in g and p
                            for g, p in gs)
    run.check(ok and rets, "R5", fi.qual + "::root-tag",
              "an object is returned only when the root tag is the class's own",
              "create_class_from_element_tree returns an object for a foreign "
              "root tag", fi.loc())


INCREMENTAL = {"iterparse", "XMLPullParser", "feed", "read_events"}


def incremental_parses(tree):
    """[(call, enclosing for-loop or None, abandoning statements)] for every
    incremental XML parse in a module tree: a loop over iterparse()/
    read_events() that can be left by break/return before the input is
    exhausted never sees the parser's verdict on the rest of the document."""
    out = []
    parents = {}
    for n in ast.walk(tree):
        for c in ast.iter_child_nodes(n):
            parents[c] = n
    for c in ast.walk(tree):
        if not (isinstance(c, ast.Call) and call_name(c) in INCREMENTAL):
            continue
        if call_name(c) == "feed" and "pars" not in unparse(c.func).lower():
            continue
        loop = None
        p = c
        while p in parents:
            p = parents[p]
            if isinstance(p, (ast.For, ast.AsyncFor)) and any(
                    x is c for x in ast.walk(p.iter)):
                loop = p
                break
            if isinstance(p, (ast.FunctionDef, ast.AsyncFunctionDef)):
                break
        exits = []
        if loop is not None:
            stack = list(loop.body)
            while stack:
                st = stack.pop()
                if isinstance(st, (ast.Break, ast.Return)):
                    exits.append(st)
                if isinstance(st, (ast.FunctionDef, ast.ClassDef, ast.Lambda)):
                    continue
                if isinstance(st, (ast.For, ast.While)):
                    # a break there leaves the inner loop only
                    stack.extend(x for x in ast.walk(st)
                                 if isinstance(x, ast.Return))
                    continue
                stack.extend(ast.iter_child_nodes(st))
        out.append((c, loop, exits))
    return out


def r6_whole_document(run):
    run.rule("R6", "inbound XML is parsed to the end of the input before "
             "anything is returned: no incremental parse (iterparse / pull "
             "parser) whose consuming loop can be abandoned early, so "
             "truncated or trailing malformed input always reaches the "
             "parser's error")
    m = run.model
    n = 0
    for mi in sorted(m.modules.values(), key=lambda x: x.name):
        if not any(w in mi.source for w in ("iterparse", "PullParser",
                                            "read_events", ".feed(")):
            continue
        for c, loop, exits in incremental_parses(mi.tree):
            n += 1
            f = m.enclosing_function(mi, c)
            where = "%s:%d" % (mi.relpath, c.lineno)
            key = "%s::%s" % (f.qual if f else mi.name, norm_text(c)[:60])
            if loop is None:
                run.violated("R6", key, "incremental XML parse whose events are "
                             "not consumed by an enclosing for loop: nothing "
                             "shows the document is read to its end", where)
            else:
                run.check(not exits, "R6", key,
                          "the event loop runs to exhaustion",
                          "the loop over the incremental parser is left by %s "
                          "at line(s) %s before the input is exhausted: "
                          "malformed content after that point is accepted" % (
                              sorted({type(x).__name__.lower() for x in exits}),
                              sorted(x.lineno for x in exits)), where)
    run.count("R6.incremental-parses", n)
    ctl = ast.parse("def f(t):\n for ev, el in ET.iterparse(t):\n  if el.tag"
                    " == 'Body':\n   break\n")
    hits = [x for x in incremental_parses(ctl) if x[2]]
    run.require(len(hits) == 1, "positive control: early-exit iterparse loop "
                "not recognised")
    run.holds("R6", "whole-document", "%d incremental parses in the package; "
              "all inbound parsing uses whole-document fromstring() "
              "(positive control recognised)" % n, "")


REENCODE = {"encode", "decode"}


def r7_parses_what_was_received(run):
    run.rule("R7", "what a parse function hands to the parser is the text it "
             "received (at most re-encoded): nothing cuts a part out of the "
             "document, strips a prologue or rewrites it first - material the "
             "parser never sees (a DOCTYPE in front of the root, junk around "
             "it) is material it cannot refuse")
    m = run.model
    n = 0
    for mname, mi in sorted(m.modules.items()):
        if "fromstring" not in mi.source and "XML(" not in mi.source:
            continue
        for node in ast.walk(mi.tree):
            if not isinstance(node, ast.Call):
                continue
            alts = classify_call(m, mi, node)
            if not alts or {f for f, _ in alts} != {"defused"}:
                continue
            name = sorted(q for _, q in alts)[0].rsplit(".", 1)[-1]
            if name not in PARSE_FUNCS or name in ("parse", "iterparse"):
                continue
            fi = m.enclosing_function(mi, node)
            if fi is None or not node.args:
                continue
            cfg = cfg_of(fi, m)
            cn = [nd for nd in cfg.nodes if nd.kind not in ("true", "false", "exc")
                  and nd.ast is not None and any(
                      x is node for r0 in cfg.own_exprs(nd)
                      for x in ast.walk(r0))]
            if not cn:
                continue
            n += 1
            a = node.args[0]
            key = "%s::%s" % (fi.qual, norm_text(node)[:50])
            params = set(fi.params())
            bad = []

            def whole(e, at, depth=4):
                """e is the received text itself: a parameter, a copy of it in
                a local, or a re-encoding of one of those."""
                if isinstance(e, ast.Call) and isinstance(e.func, ast.Attribute) \
                        and e.func.attr in REENCODE:
                    return whole(e.func.value, at, depth)
                if not isinstance(e, ast.Name) or depth <= 0:
                    return False
                defs = cfg.rd.reaching(e.id, at)
                if not defs:
                    return False
                for d in defs:
                    if d.kind == "param":
                        continue
                    if d.kind != "assign" or d.value is None or \
                            not whole(d.value, d.node, depth - 1):
                        bad.append(unparse(d.value) if d.value is not None
                                   else d.kind)
                        return False
                return True
            if isinstance(a, (ast.Name, ast.Call)) and (
                    isinstance(a, ast.Name) or (
                        isinstance(a.func, ast.Attribute) and
                        a.func.attr in REENCODE)):
                if not whole(a, cn[0].id) and not bad:
                    bad.append(unparse(a))
            else:
                # any other expression: must not slice / search / substitute
                if any(isinstance(x, ast.Subscript) or
                       (isinstance(x, ast.Call) and call_name(x) in (
                           "group", "search", "match", "sub", "replace",
                           "split", "strip", "lstrip", "partition"))
                       for x in ast.walk(a)):
                    bad.append(unparse(a))
            run.check(not bad, "R7", key,
                      "the parser receives the function's own text argument",
                      "the parser receives %s: a part or a rewritten form of "
                      "the received text" % bad, fi.loc(node))
    run.floor("R7", "inbound defused parse calls with a text argument", n, 4)


def check(run):
    run.explanation = (
        "C11: whole-package inventory of every call whose callee resolves "
        "(through the import table, all try/except alternatives) into an XML "
        "parser family; defusedxml option check; named exclusions for the "
        "opt-in pyXMLSecurity backend; single-funnel check of all generated "
        "*_from_string functions; handler inventory on the parse functions; "
        "positive control. Not decided: what libxml2 inside xmlsec1 does with "
        "the temporary file; parser behaviour on concrete hostile documents.")
    run.exhaustive = True
    run.assumptions = ["defusedxml.ElementTree.fromstring with default options "
                       "forbids entity declarations and external references",
                       "no XML parser is reached through reflection other than "
                       "import_module/__import__ with a constant name"]
    r1_parser_inventory(run)
    r4_single_funnel(run)
    r5_no_partial_objects(run)
    r6_whole_document(run)
    r7_parses_what_was_received(run)
    if run.tier == "thorough":
        root = run.model.root
        for sub in ("src/saml2test", "src/utility", "tools", "example"):
            d = os.path.join(root, sub)
            if not os.path.isdir(d):
                continue
            try:
                extra = Model(root, subdir=sub, pkg=sub.replace("/", "."))
            except AnalysisError as e:
                run.note("%s: not analysable (%s)" % (sub, e))
                continue
            c = inventory(run, extra, informational=True)
            run.count("thorough.%s.calls" % sub, c["calls"])
