"""C06 - Only successful SAML 2.0 responses ever yield an identity."""
import ast
import re

from ..srcmodel import attr_chain, call_name, unparse, norm_text, walk_no_nested
from ..cfg import cfg_of, raised_class
from .. import excflow
from ..match import just, facts, Q
from ..match import (arg_of, unguarded_path, only_raises_from, is_true_const,
                     is_falsy_const, str_consts)

SR = "response.StatusResponse."


def _norm(name):
    return re.sub(r"[^a-z]", "", name.lower())


def r1_table_agreement(run):
    run.rule("R1", "every second-level status code of samlp has its own "
             "StatusError subclass in STATUSCODE2EXCEPTION, named after it")
    m = run.model
    sm = m.module("samlp")
    rm = m.module("response")
    consts = {k: v for k, v in sm.assigns.items() if k.startswith("STATUS_")}
    run.floor("R1", "samlp STATUS_ constants", len(consts), 22)
    top = {"STATUS_SUCCESS", "STATUS_REQUESTER"}
    tab = rm.assigns.get("STATUSCODE2EXCEPTION")
    run.require(tab, "response.STATUSCODE2EXCEPTION vanished")
    keys = {}
    if isinstance(tab[-1], ast.Dict):
        d = tab[-1]
        for k, v in zip(d.keys, d.values):
            kn = attr_chain(k)
            kn = kn.split(".")[-1] if kn else unparse(k)
            keys[kn] = unparse(v)
    else:
        # no longer a literal: take the table as built at import time (module
        # top level only, as for the schema tables) and name its keys by the
        # samlp constants holding those URNs
        from ..tables import reflect_value
        val = reflect_value(m, "saml2_tophat.response", "STATUSCODE2EXCEPTION")
        run.require(val.get("kind") == "dict", "STATUSCODE2EXCEPTION is not a "
                    "dictionary")
        by_urn = {}
        for cname, vals in consts.items():
            v = vals[-1]
            if isinstance(v, ast.Constant) and isinstance(v.value, str):
                by_urn[v.value] = cname
        for k, v in val["items"]:
            kn = by_urn.get(k, repr(k))
            keys[kn] = v["class"].rsplit(".", 1)[-1] if isinstance(v, dict) \
                and "class" in v else repr(v)
        run.note("STATUSCODE2EXCEPTION is computed, not a literal: its %d "
                 "entries were taken from the imported module" % len(keys))
    seen_classes = {}
    for cname in sorted(consts):
        if cname in top:
            continue
        key = "STATUSCODE2EXCEPTION[%s]" % cname
        if cname not in keys:
            run.violated("R1", key, "second-level status code %s has no "
                         "exception class: status_ok() would raise KeyError "
                         "instead of the documented StatusError subclass" %
                         cname, rm.relpath)
            continue
        cls = keys[cname]
        ci = m.classes.get("saml2_tophat.response." + cls)
        ok = ci is not None and m.is_subclass(
            ci.qual, "saml2_tophat.response.StatusError") and \
            ci.qual != "saml2_tophat.response.StatusError"
        named = _norm(cls) == _norm("Status" + cname[len("STATUS_"):])
        dup = cls in seen_classes
        seen_classes[cls] = cname
        run.check(ok and named and not dup, "R1", key,
                  "-> %s" % cls,
                  "%s maps to %s (%s)" % (cname, cls,
                                          "not a StatusError subclass" if not ok
                                          else "class of another status code"
                                          if not named else "duplicate"),
                  rm.relpath)
    for k in keys:
        run.check(k in consts, "R1", "STATUSCODE2EXCEPTION key " + k,
                  "is a samlp constant", "%s is not a samlp STATUS_ constant" % k,
                  rm.relpath, nontrivial=False)
    # the names used in response.py are the samlp constants (imports)
    for cname in keys:
        tgt = rm.imports.get(cname, set())
        run.check(tgt == {"saml2_tophat.samlp." + cname}, "R1",
                  "response import " + cname, "imported from samlp",
                  "%s resolves to %s" % (cname, sorted(tgt)), rm.relpath,
                  nontrivial=False)
    ok = unparse(sm.assigns["STATUS_SUCCESS"][-1]).strip("'\"").endswith(
        "status:Success")
    run.check(ok, "R1", "samlp.STATUS_SUCCESS", "is the Success URI",
              "STATUS_SUCCESS is %s" % unparse(sm.assigns["STATUS_SUCCESS"][-1]),
              sm.relpath, nontrivial=False)


def r2_non_success_raises(run):
    run.rule("R2", "status_ok() returns normally only when a Status is present "
             "and its top-level code equals STATUS_SUCCESS; otherwise it raises "
             "a StatusError (sub)class")
    m = run.model
    fi = m.func(SR + "status_ok")
    cfg = cfg_of(fi, m)
    from .. import canon
    neq = "status.status_code.value != samlp.STATUS_SUCCESS"
    eq = "status.status_code.value == samlp.STATUS_SUCCESS"
    want = ast.parse(eq, mode="eval").body
    # the comparison in any spelling (==/!=, either operand order, with or
    # without the `status` temporary)
    compared = any(
        canon.ctext(a) == cfg.itext(want, t.id)
        for t in cfg.by_kind("test")
        for conj in canon._dnf(cfg.ctest(t.id), True) for a, _ in conj)
    key = fi.qual + "::non-success=>raise"
    if not compared:
        run.violated("R2", key, "the top-level status code is no longer compared "
                     "with samlp.STATUS_SUCCESS", fi.loc())
    else:
        wit = cfg.flag_search(cfg.entry, {}, lambda n, vd: n == cfg.return_exit,
                              assume={"self.response.status": "T", neq: "T",
                                      eq: "F"})
        run.check(wit is None, "R2", key,
                  "no normal return for a non-Success status",
                  "status_ok() can return normally although the top-level "
                  "status is not Success", fi.loc(),
                  witness=cfg.describe_path(wit) if wit else None)
    wit = cfg.flag_search(cfg.entry, {}, lambda n, vd: n == cfg.return_exit,
                          assume={"self.response.status": "F"})
    run.check(wit is None, "R2", fi.qual + "::no-status=>raise",
              "no normal return without a Status element",
              "status_ok() returns True for a response that carries no Status "
              "element at all", fi.loc(),
              witness=cfg.describe_path(wit) if wit else None)
    stat = [s for s in walk_no_nested(fi.node) if isinstance(s, ast.Assign) and
            isinstance(s.targets[0], ast.Name) and s.targets[0].id == "status"]
    run.check(len(stat) == 1 and unparse(stat[0].value) == "self.response.status",
              "R2", fi.qual + "::status", "status = self.response.status",
              "status <- %s" % [unparse(s.value) for s in stat], fi.loc(),
              nontrivial=False)
    # what is raised
    n = 0
    for r in cfg.by_kind("raise"):
        n += 1
        e = r.ast.exc
        cls = raised_class(r.ast)
        if cls is not None:
            ok = m.exc_is_subclass(cls, "StatusError") is True
            run.check(ok, "R2", fi.qual + "::" + norm_text(r.ast)[:60],
                      "raises a StatusError class", "raises %s" % cls,
                      fi.loc(r.ast))
        else:
            # raise excep(...): excep <- table lookup or StatusError
            nm = e.func.id if isinstance(e, ast.Call) and \
                isinstance(e.func, ast.Name) else None
            vals = [unparse(s.value) for s in walk_no_nested(fi.node)
                    if isinstance(s, ast.Assign) and
                    isinstance(s.targets[0], ast.Name) and
                    s.targets[0].id == nm]
            ok = nm is not None and vals and all(
                v == "StatusError" or v.startswith("STATUSCODE2EXCEPTION[")
                for v in vals)
            second = [v for v in vals if v.startswith("STATUSCODE2EXCEPTION[")]
            ok = ok and second and all(
                v == "STATUSCODE2EXCEPTION[status.status_code.status_code.value]"
                for v in second)
            run.check(ok, "R2", fi.qual + "::raise-class",
                      "class chosen from the table by the second-level code, "
                      "else StatusError",
                      "raised class derives from %s" % vals, fi.loc(r.ast))
    run.floor("R2", "raise sites", n, 1)


def r3_must_call(run):
    run.rule("R3", "status_ok() is asserted on every path to acceptance, and "
             "identity extraction is dominated by it")
    m = run.model
    fv = m.func(SR + "_verify")
    cfg = cfg_of(fv, m)
    acc = [r.id for r in cfg.by_kind("return") if unparse(r.ast.value) == "self"]
    run.require(acc, "_verify: `return self` vanished")
    nodes = [nd.id for nd in cfg.by_kind("stmt")
             if isinstance(nd.ast, ast.Assert) and
             unparse(nd.ast.test) == "self.status_ok()"]
    key = fv.qual + "::assert status_ok"
    if not nodes:
        # other consuming idioms: `if not self.status_ok(): return None/raise`
        alt = [nd for nd, c in cfg.call_nodes("status_ok") if nd.kind == "test"]
        ok = False
        for nd in alt:
            bad = [b for b in cfg.succ[nd.id] if cfg.nodes[b].kind == (
                "true" if isinstance(nd.ast, ast.UnaryOp) else "false")]
            if bad and all(not (set(acc) & cfg.reachable_from(b)) for b in bad):
                nodes.append(nd.id)
                ok = True
        if not ok:
            run.violated("R3", key, "status_ok() is no longer asserted/tested "
                         "in _verify", fv.loc())
    if nodes:
        wit = unguarded_path(cfg, cfg.entry, acc, nodes, lambda e, p: False)
        run.check(wit is None, "R3", key,
                  "on every path to `return self`",
                  "`return self` reachable without status_ok()", fv.loc(),
                  witness=cfg.describe_path(wit) if wit else None)
    # AuthnResponse.verify: _verify before parse_assertion
    av = m.func("response.AuthnResponse.verify")
    acfg = cfg_of(av, m)
    vn = [nd.id for nd, c in acfg.call_nodes("_verify")]
    pn = [nd.id for nd, c in acfg.call_nodes("parse_assertion")]
    run.require(vn and pn, "AuthnResponse.verify: anchors vanished")
    ok = all(any(acfg.dominates(v, p) for v in vn) for p in pn)
    run.check(ok, "R3", av.qual + "::_verify-dominates-parse_assertion",
              "assertions are only parsed after _verify()",
              "parse_assertion() reachable without _verify()", av.loc())
    wit = acfg.flag_search(acfg.entry, {"res": "U"},
                           lambda n, vd: n in pn and vd["res"] == "F")
    run.check(wit is None, "R3", av.qual + "::None=>stop",
              "a None result of _verify() stops processing",
              "parse_assertion() reachable although _verify() returned None",
              av.loc(), witness=acfg.describe_path(wit) if wit else None)
    # nobody overrides status_ok/_verify in subclasses
    for meth in ("status_ok", "_verify"):
        for sub in m.subclasses("saml2_tophat.response.StatusResponse", True):
            if meth in m.classes[sub].methods:
                run.violated("R3", "%s.%s::override" % (sub, meth),
                             "a response subclass overrides %s()" % meth,
                             m.classes[sub].methods[meth].loc())
    # session_info / identity accessors are only filled by parse_assertion
    pa = m.func("response.AuthnResponse.parse_assertion")
    gi = [c for c in ast.walk(pa.node) if isinstance(c, ast.Call) and
          call_name(c) == "get_identity"]
    run.check(len(gi) == 1, "R3", pa.qual + "::get_identity",
              "identity is extracted in parse_assertion only",
              "%d get_identity() call sites in parse_assertion" % len(gi),
              pa.loc(), nontrivial=False)
    others = []
    for mi in m.modules.values():
        for c in ast.walk(mi.tree):
            if isinstance(c, ast.Call) and call_name(c) == "get_identity" and \
                    isinstance(c.func, ast.Attribute) and \
                    unparse(c.func.value) == "self":
                f = m.enclosing_function(mi, c)
                if f and f.qual.startswith("saml2_tophat.response.") and \
                        f.qual != pa.qual:
                    others.append(f.qual)
    run.check(not others, "R3", "response::get_identity-callers",
              "no other caller in response.py", "extra callers %s" % others,
              "src/saml2_tophat/response.py", nontrivial=False)


def r4_version(run):
    run.rule("R4", "Version must be exactly \"2.0\" for responses and requests")
    m = run.model
    fv = m.func(SR + "_verify")
    cfg = cfg_of(fv, m)
    acc = [r.id for r in cfg.by_kind("return") if unparse(r.ast.value) == "self"]
    asserts = [nd for nd in cfg.by_kind("stmt")
               if isinstance(nd.ast, ast.Assert) and
               unparse(nd.ast.test) in ("self.response.version == '2.0'",
                                        "'2.0' == self.response.version")]
    key = fv.qual + "::version"
    if not asserts:
        tests = [t for t in cfg.by_kind("test")
                 if "self.response.version" in unparse(t.ast) and
                 "'2.0'" in unparse(t.ast)]
        if not tests:
            run.violated("R4", key, "response Version is no longer compared "
                         "with \"2.0\"", fv.loc())
            return
        wit = cfg.flag_search(cfg.entry, {}, lambda n, vd: n in acc, assume={
            "self.response.version == '2.0'": "F",
            "self.response.version != '2.0'": "T"})
        run.check(wit is None, "R4", key, "other versions never accepted",
                  "`return self` reachable for a version other than 2.0",
                  fv.loc(), witness=cfg.describe_path(wit) if wit else None)
    else:
        a = asserts[0]
        wit = unguarded_path(cfg, cfg.entry, acc, [a.id], lambda e, p: False)
        run.check(wit is None, "R4", key,
                  "asserted on every path to `return self`",
                  "`return self` reachable without the version assertion",
                  fv.loc(), witness=cfg.describe_path(wit) if wit else None)
        hs = [h for h in excflow.handlers_of(fv, m)
              if "AssertionError" in h.caught and a.ast in h.try_stmt.body]
        for h in hs:
            run.check(not h.swallows(), "R4", fv.qual + "::version-handler",
                      "version mismatch handler always raises (%s)" %
                      sorted(h.dispositions),
                      "the version-mismatch handler can complete normally: %s" %
                      sorted(h.dispositions), h.loc())
    rq = m.func("request.Request._verify")
    rcfg = cfg_of(rq, m)
    racc = [r.id for r in rcfg.by_kind("return")
            if unparse(r.ast.value) == "self"]
    ras = [nd.id for nd in rcfg.by_kind("stmt")
           if isinstance(nd.ast, ast.Assert) and
           unparse(nd.ast.test) in ("self.message.version == '2.0'",
                                    "'2.0' == self.message.version")]
    key = rq.qual + "::version"
    if not ras:
        run.violated("R4", key, "request Version is no longer asserted to be "
                     "\"2.0\"", rq.loc())
    else:
        wit = unguarded_path(rcfg, rcfg.entry, racc, ras, lambda e, p: False)
        run.check(wit is None, "R4", key, "asserted before `return self`",
                  "`return self` reachable without the version assertion",
                  rq.loc(), witness=rcfg.describe_path(wit) if wit else None)
    rv = m.func("request.Request.verify")
    hs = excflow.handlers_of(rv, m)
    ok = any("AssertionError" in h.caught and
             h.dispositions == {"return-falsy"} for h in hs)
    run.check(ok, "R4", rv.qual + "::AssertionError=>None",
              "a failed assertion yields None (rejection)",
              "Request.verify no longer maps AssertionError to None", rv.loc())
    if run.tier == "thorough" or True:
        run.note("validation through `assert` statements disappears under "
                 "`python -O`; the checks above assume assertions are enabled")


PROTECTED = ["StatusError", "RequestVersionTooLow", "RequestVersionTooHigh",
             "StatusAuthnFailed", "StatusResponder"]
CONE = ["response.StatusResponse.status_ok", "response.StatusResponse._verify",
        "response.StatusResponse.verify", "response.AuthnResponse.verify",
        "entity.Entity._parse_response",
        "client_base.Base.parse_authn_request_response"]


def r5_handlers(run):
    run.rule("R5", "no handler between status_ok() and the application "
             "swallows a StatusError / version error")
    m = run.model
    inv = excflow.inventory(m, [m.func(q) for q in CONE], PROTECTED)
    n = 0
    for hi, hit in inv:
        if hi.caught and all(c in ("KeyError", "AttributeError", "IndexError",
                                   "TypeError") for c in hi.caught):
            continue
        n += 1
        if hi.fi.qual.endswith("_parse_response") and hi.caught and \
                hi.caught[0] in ("SigverError", "SignatureError"):
            run.holds("R5", hi.key, "signature retry idiom (C02.R4); StatusError "
                      "is not a SigverError", hi.loc(), nontrivial=False)
            continue
        if hi.fi.qual.endswith("status_ok") and hi.caught == ["Exception"]:
            # `except Exception: msg = "Unknown error"` around a message lookup
            ok = hi.body_calls() == [] and hi.try_stmt.body and \
                all(isinstance(s, ast.Assign) for s in hi.try_stmt.body)
            run.check(ok, "R5", hi.key, "guards only the message text lookup",
                      "handler in status_ok now encloses calls: %s" %
                      hi.body_calls(), hi.loc())
            continue
        if hi.fi.qual.endswith("StatusResponse._verify") and \
                hi.caught == ["AssertionError"]:
            run.check(not hi.swallows(), "R5", hi.key, "always raises",
                      "can complete normally", hi.loc())
            continue
        if hi.fi.qual.endswith("parse_authn_request_response") and \
                hi.caught == ["UnravelError"]:
            run.holds("R5", hi.key, "UnravelError is unrelated to status",
                      hi.loc(), nontrivial=False)
            continue
        run.check(not hi.swallows(), "R5", hi.key,
                  "re-raises/converts: %s" % sorted(hi.dispositions),
                  "may swallow %s (%s)" % (hit, sorted(hi.dispositions)),
                  hi.loc())
    run.floor("R5", "handlers", n, 4)
    # AuthnResponse.verify re-raises AssertionError; StatusResponse.verify
    # turns it into None: both are rejections; StatusError is not an
    # AssertionError
    run.check(m.exc_is_subclass("StatusError", "AssertionError") is False, "R5",
              "StatusError !<= AssertionError",
              "status errors are not caught by the AssertionError handlers",
              "StatusError became an AssertionError subclass",
              "src/saml2_tophat/response.py", nontrivial=False)


def r6_every_accept_passed_verify(run):
    run.rule("R6", "Entity._parse_response hands back a response only after a "
             "verify() call on it completed normally - on the first attempt or "
             "on the signature retry: there is no path on which the status and "
             "version checks of _verify() never ran")
    m = run.model
    fi = m.func("entity.Entity._parse_response")
    cfg = cfg_of(fi, m)
    ver = [nd.id for nd, c in cfg.call_nodes("verify")
           if isinstance(c.func, ast.Attribute) and nd.kind != "exc"]
    run.floor("R6", "verify() calls in _parse_response", len(ver), 2)
    rets = [r.id for r in cfg.by_kind("return")
            if r.ast.value is not None and not is_falsy_const(r.ast.value)]
    run.require(rets, "_parse_response: the return of the response vanished")
    wit = unguarded_path(cfg, cfg.entry, rets, ver,
                         just(cfg, ("xmlstr", False), ("response", False)))
    run.check(wit is None, "R6", fi.qual + "::verify-completed",
              "every path to the return passes a verify() that returned",
              "a response can be returned although no verify() call completed "
              "(e.g. the retry after a signature error parses the assertions "
              "without _verify): status, version, destination and time checks "
              "are skipped", fi.loc(),
              witness=cfg.describe_path(wit) if wit else None)


def check(run):
    run.explanation = (
        "C06: agreement of samlp's STATUS_* constants with "
        "STATUSCODE2EXCEPTION (names, distinct StatusError subclasses), "
        "flag-sensitive search that status_ok() returns only for a present "
        "Success status, must-call of status_ok()/version assertion before "
        "`return self`, dominance of _verify over parse_assertion, handler "
        "inventory. Not decided: run-time behaviour on garbage versions.")
    run.assumptions = ["assert statements are enabled (no python -O)"]
    r1_table_agreement(run)
    r2_non_success_raises(run)
    r3_must_call(run)
    r4_version(run)
    r5_handlers(run)
    r6_every_accept_passed_verify(run)
    # request side: what _parse_request hands back is what verify() (the
    # Version / IssueInstant / Destination check) returned (C10.R1)
    from . import c10
    from .c02 import _as
    _as(run, "R7", c10.r1_pipeline, "R1")
