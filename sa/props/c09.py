"""C09 - The IdP answers only to endpoints registered for the requesting SP."""
import ast

from ..match import facts, Q
from ..srcmodel import attr_chain, call_name, unparse, norm_text, walk_no_nested
from ..cfg import cfg_of, raised_class
from ..dataflow import Origins
from .. import excflow
from ..match import (calls_named, arg_of, only_raises_from, is_falsy_const,
                     compare_parts)


def r1_destination_provenance(run):
    run.rule("R1", "every (binding, destination) returned by pick_binding comes "
             "from the metadata service list of the requester, or is a "
             "request-supplied value returned only under `registered == "
             "supplied`")
    m = run.model
    fi = m.func("entity.Entity.pick_binding")
    cfg = cfg_of(fi, m)
    org = Origins(cfg, transparent={"destinations": (0,)})
    # value sites: `return (b, url)`, or - when a variable is returned - the
    # statements that give it a (b, url) value; any other value that can
    # reach the return must be None and the return guarded by `is not None`
    rets = []
    for r in cfg.by_kind("return"):
        v = r.ast.value
        if isinstance(v, ast.Name):
            defs = cfg.rd.reaching(v.id, r.id)
            tuples = [d for d in defs if isinstance(d.value, ast.Tuple) and
                      isinstance(cfg.nodes[d.node].ast, ast.Assign)]
            others = [d for d in defs if d not in tuples]
            if tuples and all(isinstance(d.value, ast.Constant) and
                              d.value.value is None for d in others) and (
                    not others or Q("%s is not None" % v.id, True)
                    in facts(cfg, r.id)):
                rets.extend(cfg.nodes[d.node] for d in tuples)
                continue
        rets.append(r)
    run.floor("R1", "return sites", len(rets), 3)
    # srvs = sfunc(entity_id, binding, descr_type); sfunc = getattr(self.metadata, service)
    sf = [s for s in walk_no_nested(fi.node) if isinstance(s, ast.Assign) and
          unparse(s.targets[0]) == "sfunc"]
    run.check(len(sf) == 1 and unparse(sf[0].value) ==
              "getattr(self.metadata, service)", "R1", fi.qual + "::sfunc",
              "service accessor of the metadata store",
              "sfunc <- %s" % [unparse(s.value) for s in sf], fi.loc())
    for r in rets:
        v = r.ast.value
        key = fi.qual + "::" + norm_text(r.ast if isinstance(r.ast, ast.Return)
                                         else ast.Return(value=v))
        if not (isinstance(v, ast.Tuple) and len(v.elts) == 2):
            run.violated("R1", key, "unexpected return shape", fi.loc(r.ast))
            continue
        b, url = v.elts
        batoms = org.of(b, r.id)
        # the binding is one of the candidate bindings that the metadata
        # lookup was made with
        gs = cfg.guards(r.id)
        gfacts = {(unparse(e), p) for e, p, _ in gs}
        run.check(Q("srvs", True) in gfacts, "R1", key + "::srvs-nonempty",
                  "only when the metadata lists services for this binding",
                  "returned without a non-empty metadata service list",
                  fi.loc(r.ast))
        atoms = org.of(url, r.id)
        from_md = atoms and all(a.kind == "call" and a.text == "sfunc" or
                                a.kind == "const" for a in atoms) and \
            any(a.kind == "call" for a in atoms)
        if from_md:
            # index lookups: only under the index equality
            if isinstance(url, ast.Subscript) and not unparse(url).startswith(
                    "destinations("):
                rec = unparse(url.value)     # the record whose location is used

                def index_eq(name, guards):
                    return any(isinstance(e, ast.Compare) and p and
                               isinstance(e.ops[0], ast.Eq) and
                               "%s['index']" % name in (
                                   unparse(e.left), unparse(e.comparators[0]))
                               and "_index" in unparse(e)
                               for e, p, _ in guards)
                ok = index_eq(rec, gs)
                if not ok and isinstance(url.value, ast.Name):
                    # the record was picked earlier (`match = srv` under the
                    # equality, None otherwise) and is used only when found
                    defs = cfg.rd.reaching(rec, r.id)
                    picks = [d for d in defs if isinstance(d.value, ast.Name)]
                    nones = [d for d in defs if isinstance(d.value, ast.Constant)
                             and d.value.value is None]
                    ok = bool(picks) and len(picks) + len(nones) == len(defs) \
                        and all(index_eq(d.value.id, cfg.guards(d.node))
                                for d in picks) and (
                            not nones or Q("%s is not None" % rec, True)
                            in facts(cfg, r.id))
                run.check(ok, "R1", key, "registered location of the endpoint "
                          "whose index equals the requested one",
                          "metadata location returned without the index "
                          "equality guard", fi.loc(r.ast))
            else:
                run.holds("R1", key, "destination taken from the metadata "
                          "service list", fi.loc(r.ast))
            continue
        # request-supplied: needs `srv['location'] == <same expr>`
        ok = False
        for e, p, _ in gs:
            cp = compare_parts(e)
            if cp is None:
                continue
            l, op, rr = cp
            sides = {unparse(l), unparse(rr)}
            if not (isinstance(op, ast.Eq) and p and unparse(url) in sides):
                continue
            # the other side is <record>['location'] of a record taken from
            # the metadata result
            for side in (l, rr):
                if isinstance(side, ast.Subscript) and \
                        isinstance(side.slice, ast.Constant) and \
                        side.slice.value == "location":
                    ratoms = org.of(side.value, r.id)
                    if ratoms and all(a.kind == "call" and a.text == "sfunc"
                                      for a in ratoms):
                        ok = True
        srv_ok = False
        for a in org.of(ast.parse("srv", mode="eval").body, r.id) \
                if False else []:
            pass
        run.check(ok, "R1", key,
                  "request-supplied URL returned only when it equals a "
                  "registered location",
                  "a value derived from %s is returned as destination without "
                  "an equality test against a registered endpoint" %
                  sorted(a.text for a in atoms), fi.loc(r.ast))
    sr = [s for s in walk_no_nested(fi.node) if isinstance(s, ast.Assign) and
          unparse(s.targets[0]) == "srvs"]
    run.check(len(sr) == 1 and unparse(sr[0].value) ==
              "sfunc(entity_id, binding, descr_type)", "R1", fi.qual + "::srvs",
              "srvs = sfunc(entity_id, binding, descr_type)",
              "srvs <- %s" % [unparse(s.value) for s in sr], fi.loc())


def r2_refuse_otherwise(run):
    run.rule("R2", "when nothing matches pick_binding raises; an unknown "
             "requester (UnknownSystemEntity) is never caught")
    m = run.model
    fi = m.func("entity.Entity.pick_binding")
    cfg = cfg_of(fi, m)
    last = fi.node.body[-1]
    run.check(isinstance(last, ast.Raise) and raised_class(last) == "SAMLError",
              "R2", fi.qual + "::fallthrough-raises",
              "falls through to `raise SAMLError`",
              "the function no longer ends in a raise: %s" % norm_text(last),
              fi.loc(last))
    # no implicit return
    implicit = [p for p in cfg.pred[cfg.return_exit]
                if cfg.nodes[p].kind != "return"]
    run.check(not implicit, "R2", fi.qual + "::no-implicit-return",
              "every normal exit is an explicit return",
              "the function can fall off its end (returns None)", fi.loc())
    inv = excflow.inventory(m, [fi], ["UnknownSystemEntity", "SAMLError",
                                      "KeyError"])
    for hi, hit in inv:
        if "sfunc" not in hi.body_calls():
            continue
        ok = hi.caught == ["UnsupportedBinding"]
        run.check(ok, "R2", hi.key,
                  "only UnsupportedBinding is tolerated around the lookup",
                  "the handler around the metadata lookup may swallow %s: an "
                  "unknown requester would be skipped instead of refused" % hit,
                  hi.loc())
    hs = [h for h in excflow.handlers_of(fi, m) if "sfunc" in h.body_calls()]
    run.check(bool(hs) and all(h.caught == ["UnsupportedBinding"] for h in hs),
              "R2", fi.qual + "::handlers-around-lookup",
              "only `except UnsupportedBinding`",
              "handlers around the lookup: %s" % [h.caught for h in hs],
              fi.loc())
    run.check(m.exc_is_subclass("UnknownSystemEntity", "UnsupportedBinding")
              is False, "R2", "UnknownSystemEntity !<= UnsupportedBinding",
              "distinct exception classes", "class hierarchy changed",
              "src/saml2_tophat/s_utils.py", nontrivial=False)


def r3_requester_metadata(run):
    run.rule("R3", "the metadata consulted is the requester's own (request "
             "Issuer), and response_args takes binding/destination only from "
             "pick_binding")
    m = run.model
    fi = m.func("entity.Entity.pick_binding")
    cfg = cfg_of(fi, m)
    org = Origins(cfg)
    for nd, c in cfg.call_nodes("sfunc"):
        got = org.texts(arg_of(c, 0), nd.id)
        run.check(got <= {"entity_id", "request.issuer.text"} and got, "R3",
                  fi.qual + "::entity_id-origins",
                  "entity id is the explicit parameter or the request Issuer",
                  "entity id derives from %s" % sorted(got), fi.loc(c))
    for nd in cfg.by_kind("stmt"):
        s = nd.ast
        if isinstance(s, ast.Assign) and unparse(s.targets[0]) == "entity_id":
            gs = facts(cfg, nd.id)
            run.check(Q("entity_id", False) in gs and Q("request", True) in gs,
                      "R3", fi.qual + "::entity_id-fallback",
                      "issuer used only when no entity_id was given",
                      "entity_id reassigned under %s" % sorted(gs), fi.loc(s))
    ra = m.func("entity.Entity.response_args")
    rcfg = cfg_of(ra, m)
    rorg = Origins(rcfg)
    n = 0
    for nd in rcfg.by_kind("stmt"):
        s = nd.ast
        if not isinstance(s, ast.Assign):
            continue
        t = unparse(s.targets[0])
        if t in ("info['destination']", "info['binding']"):
            n += 1
            got = rorg.of(s.value, nd.id)
            ok = all((a.kind == "call" and a.text == "self.pick_binding") or
                     (a.kind == "const" and a.text == "''") or
                     (a.kind == "global" and a.text == "BINDING_SOAP")
                     for a in got)
            run.check(ok, "R3", ra.qual + "::" + t,
                      "from pick_binding (or the SOAP constants)",
                      "%s derives from %s" % (t, sorted(a.text for a in got)),
                      ra.loc(s))
            if any(a.kind == "const" for a in got) or any(
                    a.kind == "global" for a in got):
                gs = facts(rcfg, nd.id)
                run.check(Q("bindings == [BINDING_SOAP]", True) in gs, "R3",
                          ra.qual + "::" + t + "::soap-only",
                          "constant answer only for SOAP-only exchanges",
                          "constant destination under %s" % sorted(gs),
                          ra.loc(s), nontrivial=False)
    run.floor("R3", "destination/binding assignments", n, 4)
    pb = [c for c in calls_named(ra.node, "pick_binding")]
    run.check(len(pb) == 1 and unparse(arg_of(pb[0], 3, "request")) == "message",
              "R3", ra.qual + "::pick_binding(request=message)",
              "the request itself is passed",
              "pick_binding called with request=%s" %
              [unparse(arg_of(c, 3, "request")) for c in pb], ra.loc())


def r4_store_side(run, rule="R4"):
    run.rule(rule, "MetadataStore.service: unknown entity => "
             "UnknownSystemEntity, known entity without the binding => "
             "UnsupportedBinding; services are filtered by binding")
    m = run.model
    fi = m.func("mdstore.MetadataStore.service")
    cfg = cfg_of(fi, m)
    use = [r for r in cfg.by_kind("raise")
           if raised_class(r.ast) == "UnknownSystemEntity"]
    usb = [r for r in cfg.by_kind("raise")
           if raised_class(r.ast) == "UnsupportedBinding"]
    run.check(bool(use) and bool(usb), rule, fi.qual + "::raises",
              "both exception classes are raised",
              "UnknownSystemEntity/UnsupportedBinding raise vanished", fi.loc())
    wit = cfg.flag_search(cfg.entry, {"known_entity": "U"},
                          lambda n, vd: n in [r.id for r in usb] and
                          vd["known_entity"] != "T")
    run.check(wit is None, rule, fi.qual + "::UnsupportedBinding=>known",
              "UnsupportedBinding only for a known entity",
              "UnsupportedBinding reachable for an entity no source knows",
              fi.loc(), witness=cfg.describe_path(wit) if wit else None)
    wit = cfg.flag_search(cfg.entry, {"known_entity": "U"},
                          lambda n, vd: n in [r.id for r in use] and
                          vd["known_entity"] == "T")
    run.check(wit is None, rule, fi.qual + "::UnknownSystemEntity=>unknown",
              "UnknownSystemEntity only when no source knows the entity",
              "UnknownSystemEntity reachable for a known entity", fi.loc(),
              witness=cfg.describe_path(wit) if wit else None)
    for nd in cfg.by_kind("stmt"):
        s = nd.ast
        if isinstance(s, ast.Assign) and unparse(s.targets[0]) == "known_entity" \
                and not is_falsy_const(s.value):
            gs = facts(cfg, nd.id)
            run.check(Q("srvs is None", False) in gs and Q("srvs", False) in gs,
                      rule, fi.qual + "::known_entity=True",
                      "set only when a source answered an empty (not None) list",
                      "known_entity set under %s" % sorted(gs), fi.loc(s))
    rets = cfg.by_kind("return")
    run.check(all(unparse(r.ast.value) == "srvs" and
                  Q("srvs", True) in facts(cfg, r.id) for r in rets) and rets,
              rule, fi.qual + "::returns", "returns only a non-empty result",
              "returns %s" % [unparse(r.ast.value) for r in rets], fi.loc())
    implicit = [p for p in cfg.pred[cfg.return_exit]
                if cfg.nodes[p].kind != "return"]
    run.check(not implicit, rule, fi.qual + "::no-implicit-return",
              "never falls off the end", "can return None implicitly", fi.loc())
    for nd, c in cfg.call_nodes("service"):
        args = [unparse(a) for a in c.args]
        run.check(args == ["entity_id", "typ", "service", "binding"], rule,
                  fi.qual + "::delegate-args", "query forwarded unchanged",
                  "sources are asked for %s" % args, fi.loc(c))
    fs = m.func("mdstore.InMemoryMetaData.service")
    scfg = cfg_of(fs, m)
    apps = [(nd, c) for nd, c in scfg.call_nodes("append")
            if attr_chain(c.func) == "res.append"]
    ok = bool(apps)
    for nd, c in apps:
        gs = facts(scfg, nd.id)
        if Q("binding", True) in gs:
            # the appended record itself is the one whose binding is compared
            ok = ok and len(c.args) == 1 and \
                Q("%s['binding'] == binding" % unparse(c.args[0]), True) in gs
    run.check(ok, rule, fs.qual + "::binding-filter",
              "a service is kept only if its binding equals the requested one",
              "binding filter changed", fs.loc())
    hs = [h for h in excflow.handlers_of(fs, m)
          if h.caught == ["KeyError"] and h.dispositions == {"return-falsy"}]
    run.check(len(hs) == 1, rule, fs.qual + "::unknown=>None",
              "unknown entity/role answers None", "the None answer for an "
              "unknown entity vanished", fs.loc())
    subs = [unparse(n) for n in ast.walk(fs.node) if isinstance(n, ast.Subscript)]
    # <item>[service] for <item> in self[entity_id][typ]
    chain = False
    for lp in scfg.by_kind("foriter"):
        if isinstance(lp.ast.target, ast.Name) and \
                scfg.itext(lp.ast.iter, lp.id) == "self[entity_id][typ]":
            v = lp.ast.target.id
            chain = chain or any(
                isinstance(x, ast.Subscript) and isinstance(x.value, ast.Name)
                and x.value.id == v and unparse(x.slice) == "service"
                for st in lp.ast.body for x in ast.walk(st))
    run.check(chain, rule,
              fs.qual + "::lookup-keys", "self[entity_id][typ][*][service]",
              "lookup path changed: %s" % subs[:6], fs.loc())


# accessors whose name is not the md member they read (confirmed by reading)
ACCESSOR_SERVICE = {"authn_query_service": "authn_query_service",
                    "discovery_response": "discovery_response"}


def r5_accessors_pass_binding(run, rule="R5"):
    run.rule(rule, "the typed service accessors of MetadataStore hand the "
             "caller's binding (or their documented default when none is "
             "given) to service() and let its refusal propagate: an endpoint "
             "registered under one binding is never served under another")
    m = run.model
    ms = m.cls("mdstore.MetadataStore")
    n = 0
    for name, fi in sorted(ms.methods.items()):
        if "binding" not in fi.params() or name in ("service", "ext_service"):
            continue
        cfg = cfg_of(fi, m)
        calls = [(nd, c) for nd, c in cfg.call_nodes("service") +
                 cfg.call_nodes("ext_service")
                 if attr_chain(c.func) in ("self.service", "self.ext_service")]
        if not calls:
            continue
        org = Origins(cfg)
        for nd, c in calls:
            n += 1
            a = arg_of(c, 3, "binding")
            got = {(x.kind, x.text) for x in org.of(a, nd.id)} \
                if a is not None else set()
            key = "%s::%s" % (fi.qual, norm_text(c)[:70])
            # the accessor asks for the service it is named after
            sv = arg_of(c, 2, "service")
            svt = cfg.itext(sv, nd.id) if sv is not None else None
            want = ACCESSOR_SERVICE.get(name, name)
            if attr_chain(c.func) == "self.ext_service":
                continue       # extension services are keyed by {ns}&tag
            run.check(svt == repr(want), rule,
                      "%s::service-name" % fi.qual,
                      "looks up '%s'" % want,
                      "accessor %s() looks up %s: the endpoints of another "
                      "service are handed out as if registered for this one" %
                      (name, svt), fi.loc(c))
            run.check(("param", "binding") in got, rule, key,
                      "asks for the caller's binding",
                      "the store is asked for binding %s whatever binding the "
                      "caller named: endpoints of that binding are served "
                      "under a binding they are not registered for" %
                      sorted(got), fi.loc(c))
        for h in excflow.handlers_of(fi, m):
            if excflow.may_catch(m, h, ["UnsupportedBinding",
                                        "UnknownSystemEntity"]):
                run.check(not h.swallows() and h.dispositions <= {"reraise"},
                          rule, h.key,
                          "the store's refusal propagates",
                          "the accessor handles the store's refusal (%s) "
                          "instead of letting it propagate" %
                          sorted(h.dispositions), h.loc())
    run.floor(rule, "accessor calls to service()", n, 10)


def r6_verify_acs(run):
    run.rule("R6", "Server.verify_assertion_consumer_service answers True only "
             "under an equality between the requested URL / index ITSELF and a "
             "value read from the requester's registered consumer services - "
             "not between derived (normalised, truncated, partial) forms, "
             "which make an unregistered address compare equal")
    m = run.model
    fi = m.func("server.Server.verify_assertion_consumer_service")
    cfg = cfg_of(fi, m)
    org = Origins(cfg)
    req = [a for a in fi.params() if a != "self"][0]
    wanted = {"%s.assertion_consumer_service_url" % req,
              "%s.assertion_consumer_service_index" % req}
    n = 0
    for r in cfg.by_kind("return"):
        v = r.ast.value
        if v is None or is_falsy_const(v):
            continue
        n += 1
        ok = False
        seen = []
        for e, pol, _ in cfg.guards(r.id):
            cp = compare_parts(e)
            if cp is None or not pol or not isinstance(cp[1], ast.Eq):
                continue
            l, _, rr = cp
            for a, b in ((l, rr), (rr, l)):
                at = cfg.itext(a, r.id)
                seen.append(at)
                if at not in wanted:
                    continue
                root = b
                while isinstance(root, (ast.Attribute, ast.Subscript)):
                    root = root.value
                if not isinstance(root, ast.Name):
                    continue
                for lp in cfg.by_kind("foriter"):
                    if isinstance(lp.ast.target, ast.Name) and \
                            lp.ast.target.id == root.id and \
                            cfg.dominates(lp.id, r.id) and \
                            cfg.itext(lp.ast.iter, lp.id).startswith(
                                "self.metadata.assertion_consumer_service("):
                        ok = True
        run.check(ok, "R6", "%s::%s" % (fi.qual, norm_text(r.ast)),
                  "True only when the requested address equals a registered one",
                  "True is returned without an equality test of the requested "
                  "URL/index itself against the registered services (compared: "
                  "%s): an address that is not registered can be confirmed" %
                  sorted(set(seen)), fi.loc(r.ast))
    run.floor("R6", "positive answers of verify_assertion_consumer_service",
              n, 2)


def check(run):
    run.explanation = (
        "C09: derivation of every destination returned by pick_binding "
        "(metadata result, or request value under an == guard), refusal "
        "fallthrough and handler inventory around the metadata lookup, "
        "provenance of the entity id and of response_args' destination, "
        "flag-sensitive unknown/unsupported distinction and binding filter of "
        "the store. Not decided: concrete metadata documents.")
    run.assumptions = ["getattr(self.metadata, service) resolves to a "
                       "MetadataStore accessor (agreement checked in C16.M1)"]
    r1_destination_provenance(run)
    r2_refuse_otherwise(run)
    r3_requester_metadata(run)
    r4_store_side(run)
    r5_accessors_pass_binding(run)
    r6_verify_acs(run)
    # the store the accessors read is built with each option bound to the
    # parameter it is named after (also through super().__init__)
    from ..common_rules import misplaced_rule
    misplaced_rule(run, "R7", {"mdstore"}, "constructing the metadata "
                   "sources whose validity filter decides which requesters exist")
