"""C13 - Schema validation rejects every structurally invalid message."""
import ast

from ..match import facts, Q
from ..srcmodel import attr_chain, call_name, unparse, norm_text, walk_no_nested
from ..cfg import cfg_of, raised_class
from ..dataflow import Origins
from ..tables import reflect
from .. import excflow
from .. import linear
from ..linear import normal_forms, form, same_modulo_equality, show
from ..match import (calls_named, arg_of, unguarded_path, only_raises_from,
                     is_true_const)


def resolves(typ, validator_keys):
    """validate.valid()'s own resolution of a type string."""
    if typ in validator_keys:
        return True
    parts = typ.split(":")
    if len(parts) == 2:
        return parts[1] in validator_keys
    if len(parts) == 1:
        t = "string" if typ == "" else typ
        return t in validator_keys
    return False      # more than one ':' -> ValueError branch, typ unchanged


def _check_valid_resolution(run):
    """The resolution modelled by resolves() must be what validate.valid does.
    Returns True when the final lookup has a default (unknown names cannot
    raise KeyError at all)."""
    m = run.model
    fi = m.func("validate.valid")
    src = unparse(fi.node)
    final = sorted((r for r in walk_no_nested(fi.node)
                    if isinstance(r, ast.Return)), key=lambda r: r.lineno)
    has_default = False
    ok = "VALIDATOR[typ](value)" in src and "typ.split(':')" in src and \
        "typ = 'string'" in src
    if final:
        from ..dataflow import inline_expr
        vcfg = cfg_of(fi, m)
        lnode = vcfg.node_of_stmt(final[-1])
        last = inline_expr(vcfg.rd, final[-1].value, lnode.id) \
            if lnode is not None else final[-1].value
        if isinstance(last, ast.Call) and isinstance(last.func, ast.Call) and \
                attr_chain(last.func.func) == "VALIDATOR.get" and \
                len(last.func.args) == 2 and \
                isinstance(last.func.args[1], ast.Name) and \
                last.func.args[1].id.startswith("valid_"):
            has_default = True
    run.check(ok, "V1", fi.qual + "::resolution-model",
              "exact key, else one `ns:` prefix stripped, '' -> string%s" %
              (", unknown -> default validator" if has_default else ""),
              "validate.valid resolves type names differently from the model "
              "used by this rule", fi.loc())
    return has_default


def v1_types_resolve(run, data):
    run.rule("V1", "every declared attribute type resolves to a validator under "
             "validate.valid()'s own resolution (otherwise validating a VALID "
             "value raises KeyError)")
    keys = set(data["VALIDATOR"] or [])
    run.require(len(keys) >= 10, "validate.VALIDATOR not reflected")
    has_default = _check_valid_resolution(run)
    n = 0
    bad_types = {}
    for q, c in sorted(data["classes"].items()):
        for xml, at in c["c_attributes"].items():
            t = at["type"]
            n += 1
            if isinstance(t, dict):
                vt = t.get("value_type")
                if vt:
                    base = vt.get("base")
                    member = vt.get("member")
                    for b in (base, member):
                        if b in (None, "string", "list"):
                            continue
                        if not resolves(b, keys):
                            bad_types.setdefault(b, []).append(
                                (q, xml, c["loc"]))
                continue
            if not isinstance(t, str):
                continue
            if not resolves(t, keys):
                bad_types.setdefault(t, []).append((q, xml, c["loc"]))
        vt = c["c_value_type"]
        if isinstance(vt, dict):
            for b in (vt.get("base"), vt.get("member")):
                if b in (None, "string", "list"):
                    continue
                n += 1
                if not resolves(b, keys):
                    bad_types.setdefault(b, []).append((q, "#text", c["loc"]))
    run.count("typed attributes/texts", n)
    if has_default:
        run.holds("V1", "unknown-type-default",
                  "%d type name(s) without their own validator fall back to the "
                  "default validator instead of raising KeyError: %s" %
                  (len(bad_types), sorted(bad_types)), "src/saml2_tophat/"
                  "validate.py")
        bad_types = {}
    for t, sites in sorted(bad_types.items()):
        q, xml, loc = sites[0]
        run.violated("V1", "type:%r" % t,
                     "type name %r (used by %d attribute(s), e.g. %s@%s) has no "
                     "validator: valid_instance raises KeyError for any value, "
                     "including valid ones" % (t, len(sites), q, xml), loc,
                     sites=len(sites))
    run.holds("V1", "all-classes", "%d typed attributes/texts, %d unresolvable "
              "type names" % (n, len(bad_types)), "src/saml2_tophat")
    run.floor("V1", "typed attributes", n, 900)


def v2_v3_cardinality(run, data):
    run.rule("V2", "every occurrence bound is attached to a real child member")
    run.rule("V3", "bounds are integers with min <= max")
    n = 0
    for q, c in sorted(data["classes"].items()):
        members = {ch["member"] for ch in c["c_children"].values()}
        for name, card in c["c_cardinality"].items():
            n += 1
            if name not in members:
                run.violated("V2", "%s.c_cardinality[%s]" % (q, name),
                             "bound declared for %r which is not a child member "
                             "(members: %s): the bound is never enforced" %
                             (name, sorted(members)[:8]), c["loc"])
            if not isinstance(card, dict):
                run.violated("V3", "%s.c_cardinality[%s]" % (q, name),
                             "bound is %r" % (card,), c["loc"])
                continue
            mn, mx = card.get("min"), card.get("max")
            ok = all(v is None or (isinstance(v, int) and not isinstance(v, bool)
                                   and v >= 0) for v in (mn, mx)) and \
                (mn is None or mx is None or mn <= mx) and \
                set(card) <= {"min", "max"}
            if not ok:
                run.violated("V3", "%s.c_cardinality[%s]" % (q, name),
                             "invalid bound %r" % (card,), c["loc"])
    run.count("cardinality entries", n)
    run.holds("V2", "all-classes", "%d bounds examined" % n, "src/saml2_tophat")
    run.holds("V3", "all-classes", "%d bounds examined" % n, "src/saml2_tophat")
    run.floor("V2", "cardinality entries", n, 1500)


def v4_engine(run):
    run.rule("V4", "valid_instance: required and empty => raise; non-empty => "
             "typed validation (errors become NotValid); vlen < min or "
             "vlen > max => raise; empty with min => raise; recursion into "
             "every child; text validated against c_value_type")
    m = run.model
    fi = m.func("validate.valid_instance")
    cfg = cfg_of(fi, m)
    acc = [r.id for r in cfg.by_kind("return") if is_true_const(r.ast.value)]
    run.require(acc, "valid_instance: `return True` vanished")
    # loops over all attributes and all children
    loops = [unparse(l.iter) for l in walk_no_nested(fi.node)
             if isinstance(l, ast.For)]
    run.check("instclass.c_attributes.values()" in loops and
              "instclass.c_children.values()" in loops, "V4",
              fi.qual + "::loops", "iterates every declared attribute and child",
              "loops are %s" % loops, fi.loc())
    # required and empty
    req = [r for r in cfg.by_kind("raise")
           if {Q("required and (not value)", True)} <=
           facts(cfg, r.id) or
           {Q("required", True), Q("value", False)} <=
           facts(cfg, r.id)]
    run.check(len(req) == 1 and raised_class(req[0].ast) in
              ("MustValueError", "NotValid"), "V4",
              fi.qual + "::required-missing=>raise",
              "a required attribute that is missing/empty raises",
              "no raise guarded by `required and not value`", fi.loc())
    gv = [s for s in walk_no_nested(fi.node) if isinstance(s, ast.Assign) and
          unparse(s.value) == "getattr(instance, name, '')"]
    run.check(len(gv) == 2, "V4", fi.qual + "::value-lookup",
              "values are read from the member named by the table",
              "value lookups: %d" % len(gv), fi.loc(), nontrivial=False)
    # typed validation of non-empty attribute values
    vcalls = [nd for nd, c in cfg.call_nodes("valid")
              if [unparse(a) for a in c.args] == ["typ", "value"]] + \
             [nd for nd, c in cfg.call_nodes("validate_value_type")
              if len(c.args) == 2 and unparse(c.args[0]) == "value" and
              {(a.kind, a.text) for a in Origins(cfg).of(c.args[1], nd.id)
               if a.kind != "const"} == {("attr", "typ.c_value_type")}]
    run.check(len(vcalls) == 2, "V4", fi.qual + "::typed-validation",
              "valid(typ, value) / validate_value_type(value, spec)",
              "typed validation calls changed (%d found)" % len(vcalls),
              fi.loc())
    for nd in vcalls:
        gs = facts(cfg, nd.id)
        run.check(Q("value", True) in gs and not any(
            "required" in g and p for g, p in gs), "V4",
            fi.qual + "::typed-validation-guard@" + norm_text(nd.ast)[:40],
            "applied to every non-empty value, required or not",
            "typed validation guarded by %s" % sorted(gs), fi.loc(nd.ast))
    hs = [h for h in excflow.handlers_of(fi, m)
          if set(h.caught) >= {"NotValid", "ValueError"}]
    run.check(len(hs) == 1 and hs[0].dispositions == {"convert:NotValid"}, "V4",
              fi.qual + "::type-error=>NotValid",
              "validator errors are converted to NotValid",
              "type errors are no longer converted to NotValid: %s" %
              [sorted(h.dispositions) for h in hs], fi.loc())
    # cardinality normal forms
    sym = lambda e: {"vlen": "vlen", "_cmin": "min", "_cmax": "max"}.get(
        e.id) if isinstance(e, ast.Name) else None
    want_min = [form({"min": 1, "vlen": -1})]
    want_max = [form({"vlen": 1, "max": -1})]
    seen_min = seen_max = False
    for r in cfg.by_kind("raise"):
        for e, p, _ in cfg.guards(r.id):
            for part in (e.values if isinstance(e, ast.BoolOp) else [e]):
                f = normal_forms(part, p, sym) if isinstance(part, ast.Compare) \
                    else None
                if not f:
                    continue
                if [x[0] for x in f] == [want_min[0][0]] and f[0][1]:
                    seen_min = True
                if [x[0] for x in f] == [want_max[0][0]] and f[0][1]:
                    seen_max = True
    run.check(seen_min, "V4", fi.qual + "::too-few=>raise",
              "raise iff min - len > 0", "no raise with normal form "
              "min - len > 0 (too few occurrences are accepted)", fi.loc())
    run.check(seen_max, "V4", fi.qual + "::too-many=>raise",
              "raise iff len - max > 0", "no raise with normal form "
              "len - max > 0 (too many occurrences are accepted)", fi.loc())
    emp = [r for r in cfg.by_kind("raise")
           if {Q("value", False), Q("_cmin", True)} <= facts(cfg, r.id) and
           len(facts(cfg, r.id, inline=False)) == 2]
    run.check(len(emp) == 1, "V4", fi.qual + "::absent-with-min=>raise",
              "an absent child with a positive minimum raises",
              "absent required children are accepted", fi.loc())
    vl = {unparse(s.value) for s in walk_no_nested(fi.node)
          if isinstance(s, ast.Assign) and unparse(s.targets[0]) == "vlen"}
    run.check(vl == {"len(value)", "1"}, "V4", fi.qual + "::vlen",
              "vlen = len(list) or 1", "vlen computed as %s" % sorted(vl),
              fi.loc(), nontrivial=False)
    from ..inline import helper_cone
    cone = helper_cone(m, fi)
    subs = [x for f in cone for x in ast.walk(f.node)
            if isinstance(x, ast.Subscript)]
    cm = {x.slice.value for x in subs if isinstance(x.slice, ast.Constant)
          and x.slice.value in ("min", "max")}
    # (`card.get("min")` reads the same entry)
    cm |= {c.args[0].value for f in cone for c in ast.walk(f.node)
           if isinstance(c, ast.Call) and isinstance(c.func, ast.Attribute)
           and c.func.attr == "get" and c.args and
           isinstance(c.args[0], ast.Constant) and
           c.args[0].value in ("min", "max")}
    run.check(cm == {"min", "max"}, "V4", fi.qual + "::bounds",
              "bounds read from c_cardinality[name]",
              "bounds read as %s" % sorted(cm), fi.loc(), nontrivial=False)
    run.check(any(isinstance(x.value, ast.Attribute) and
                  x.value.attr == "c_cardinality" and
                  isinstance(x.slice, ast.Name) for x in subs), "V4",
              fi.qual + "::card-lookup",
              "looked up by member name", "cardinality lookup changed",
              fi.loc(), nontrivial=False)
    # the cardinality raises must not be conditional on anything but _card
    # recursion
    rec = cfg.call_nodes("_valid_instance")
    argsets = sorted(unparse(c.args[1]) for nd, c in rec)
    ok = argsets == ["val", "value"]
    if not ok and len(rec) == 1 and isinstance(rec[0][1].args[1], ast.Name):
        # one site for both shapes: a loop over `value` or `[value]`
        v = rec[0][1].args[1].id
        lps = [lp for lp in cfg.by_kind("foriter")
               if isinstance(lp.ast.target, ast.Name) and lp.ast.target.id == v
               and cfg.dominates(lp.id, rec[0][0].id)]
        if lps:
            got = {(a.kind, a.text) for a in Origins(cfg).of(lps[-1].ast.iter,
                                                            lps[-1].id)}
            ok = bool(got) and got <= {("call", "getattr"),
                                       ("param", "instance"),
                                       ("attr", "instance.%s" % v)} | {
                g for g in got if g[0] == "const"} and any(
                g[0] != "const" for g in got)
    run.check(ok, "V4", fi.qual + "::recursion",
              "every list element and every single child is validated",
              "recursion sites: %s" % argsets, fi.loc())
    for nd, c in rec:
        gs = facts(cfg, nd.id)
        run.check(Q("value", True) in gs and not any(
            "_card" in g or "_cmin" in g or "_cmax" in g for g, p in gs), "V4",
            fi.qual + "::recursion-guard@" + unparse(c.args[1]),
            "recursion does not depend on the presence of a bound",
            "recursion guarded by %s" % sorted(gs), fi.loc(c))
    vi = m.func("validate._valid_instance")
    cs = [c for c in calls_named(vi.node, "verify")]
    run.check(len(cs) == 1 and attr_chain(cs[0].func) == "val.verify", "V4",
              vi.qual + "::verify", "child.verify() is called",
              "_valid_instance no longer calls val.verify()", vi.loc())
    for h in excflow.handlers_of(vi, m):
        run.check(not h.swallows(), "V4", h.key,
                  "child errors propagate as NotValid",
                  "child validation errors are swallowed", h.loc())
    # text
    tv = [nd for nd, c in cfg.call_nodes("validate_value_type")
          if "instance.text" in unparse(c.args[0])]
    run.check(len(tv) == 1 and {Q("instclass.c_value_type", True),
                                Q("instance.text", True)} <=
              facts(cfg, tv[0].id)
              if tv else False, "V4", fi.qual + "::text",
              "text is validated against c_value_type when both exist",
              "text validation changed", fi.loc())
    sv = m.func("SamlBase.verify")
    cs = [c for c in calls_named(sv.node, "valid_instance")]
    run.check(len(cs) == 1 and unparse(arg_of(cs[0], 0)) == "self", "V4",
              sv.qual + "::delegates", "SamlBase.verify -> valid_instance(self)",
              "SamlBase.verify no longer calls valid_instance(self)", sv.loc())
    # validate_value_type: enumeration / list / base
    vt = m.func("validate.validate_value_type")
    vcfg = cfg_of(vt, m)
    enum_raise = [r for r in vcfg.by_kind("raise")
                  if raised_class(r.ast) == "NotValid" and
                  Q("value not in spec['enumeration']") in
                  facts(vcfg, r.id, inline=True)]
    base_ret = [r for r in vcfg.by_kind("return") if r.ast.value is not None
                and vcfg.same(r.ast.value, r.id, "valid(spec['base'], value)")]
    vorg = Origins(vcfg, transparent={"split": "recv"})
    member_ok = any(
        len(c.args) == 2 and vcfg.itext(c.args[0], nd.id) == "spec['member']"
        and {(a.kind, a.text) for a in vorg.of(c.args[1], nd.id)} ==
        {("param", "value")}
        for nd, c in vcfg.call_nodes("valid"))
    run.check(bool(enum_raise) and member_ok and bool(base_ret), "V4",
              vt.qual + "::kinds", "enumeration, list member and base type are "
              "all checked", "validate_value_type changed", vt.loc())


def v5_overrides(run):
    run.rule("V5", "class-specific verify() overrides reach the generic "
             "validation on every accepting path")
    m = run.model
    n = 0
    for q, ci in sorted(m.classes.items()):
        if "verify" not in ci.methods or q == "saml2_tophat.SamlBase":
            continue
        if not m.is_subclass(q, "saml2_tophat.SamlBase"):
            continue
        n += 1
        fi = ci.methods["verify"]
        cfg = cfg_of(fi, m)
        base_calls = [nd.id for nd, c in cfg.call_nodes("verify")
                      if isinstance(c.func, ast.Attribute) and
                      unparse(c.func.value) != "self" and c.args and
                      unparse(c.args[0]) == "self"]
        key = fi.qual + "::delegates"
        if not base_calls:
            run.violated("V5", key, "override never calls the base verify(): "
                         "attribute types, required attributes and occurrence "
                         "bounds of this class are not validated", fi.loc())
            continue
        exits = [cfg.return_exit]

        def just(e, pol, q=q):
            # the one allowed early return: xsi:nil AttributeValue
            return q.endswith("AttributeValueBase") and \
                unparse(e) == "self.text" and pol is False
        wit = unguarded_path(cfg, cfg.entry, exits, base_calls, just)
        run.check(wit is None, "V5", key,
                  "every normal return passes the base verify()",
                  "a path returns without the generic validation", fi.loc(),
                  witness=cfg.describe_path(wit) if wit else None)
    run.floor("V5", "verify overrides", n, 5)


CHECKED = {
    "valid_date_time": "dateTime", "valid_boolean": "boolean",
    "valid_integer": "integer", "valid_positive_integer": "PositiveInteger",
    "valid_non_negative_integer": "nonNegativeInteger",
    "valid_unsigned_short": "unsignedShort", "valid_duration": "duration",
}


def v6_validators_raise(run, data):
    run.rule("V6", "the validators of the checked simple types can fail: each "
             "has a reachable `raise NotValid` and no unconditional `return "
             "True`, and the VALIDATOR table maps the type name to it")
    m = run.model
    vm = m.module("validate")
    tab = vm.assigns.get("VALIDATOR", [None])[-1]
    run.require(isinstance(tab, ast.Dict), "validate.VALIDATOR vanished")
    mapping = {k.value: unparse(v) for k, v in zip(tab.keys, tab.values)
               if isinstance(k, ast.Constant)}
    for fn, typ in sorted(CHECKED.items()):
        fi = m.func("validate." + fn)
        cfg = cfg_of(fi, m)
        raises = [r for r in cfg.by_kind("raise")
                  if raised_class(r.ast) == "NotValid"]
        first = [s for s in fi.node.body if not (
            isinstance(s, ast.Expr) and isinstance(s.value, ast.Constant))][0]
        uncond = isinstance(first, ast.Return)
        run.check(bool(raises) and not uncond, "V6", fi.qual + "::can-fail",
                  "%d reachable raise NotValid" % len(raises),
                  "validator can no longer reject anything", fi.loc())
        run.check(mapping.get(typ) == fn, "V6", "VALIDATOR[%s]" % typ,
                  "-> %s" % fn, "VALIDATOR[%r] is %s" % (typ, mapping.get(typ)),
                  vm.relpath)
        # a handler must not turn a failure into success
        for h in excflow.handlers_of(fi, m):
            run.check(not h.swallows(), "V6", h.key, "failures raise NotValid",
                      "a parsing failure is swallowed (%s)" %
                      sorted(h.dispositions), h.loc())
    # sign of the integer kinds
    for fn, want, desc in (
            ("valid_positive_integer", ({"integer": 1}, True), "> 0"),
            ("valid_non_negative_integer", ({"integer": 1}, False), ">= 0")):
        fi = m.func("validate." + fn)
        cfg = cfg_of(fi, m)
        ok = False
        sym = lambda e: e.id if isinstance(e, ast.Name) else None
        for t in cfg.by_kind("test"):
            if normal_forms(t.ast, True, sym) is None:
                continue
            tb = [b for b in cfg.succ[t.id] if cfg.nodes[b].kind == "true"]
            fb = [b for b in cfg.succ[t.id] if cfg.nodes[b].kind == "false"]
            t_rej = bool(tb) and only_raises_from(cfg, tb[0])
            f_rej = bool(fb) and only_raises_from(cfg, fb[0])
            if t_rej == f_rej:
                continue
            # the condition under which the value is accepted
            acc = normal_forms(t.ast, not t_rej, sym)
            if acc == [form(*want)]:
                ok = True
        run.check(ok, "V6", fi.qual + "::sign", "boundary is `integer %s`" % desc,
                  "sign test changed", fi.loc())
    vb = m.func("validate.valid_boolean")
    lits = sorted(c.value for c in ast.walk(vb.node)
                  if isinstance(c, ast.Constant) and isinstance(c.value, str)
                  and c.value in ("true", "false", "0", "1"))
    run.check(lits == ["0", "1", "false", "true"], "V6", vb.qual + "::literals",
              "accepts exactly true/false/0/1", "literals are %s" % lits,
              vb.loc())


def v7_receive_paths(run):
    run.rule("V7", "every received response/request is validated before it is "
             "used")
    m = run.model
    fi = m.func("response.StatusResponse._postamble")
    cfg = cfg_of(fi, m)
    vi = [nd.id for nd, c in cfg.call_nodes("valid_instance")
          if unparse(arg_of(c, 0)) == "self.response"]
    key = fi.qual + "::valid_instance"
    if not vi:
        run.violated("V7", key, "responses are no longer schema-validated",
                     fi.loc())
    else:
        sets = [nd.id for nd in cfg.by_kind("stmt")
                if isinstance(nd.ast, ast.Assign) and
                attr_chain(nd.ast.targets[0]) == "self.in_response_to"]
        wit = unguarded_path(cfg, cfg.entry, sets, vi, lambda e, p: False)
        run.check(wit is None and bool(sets), "V7", key,
                  "validation precedes the use of the response",
                  "the response is used without validation", fi.loc(),
                  witness=cfg.describe_path(wit) if wit else None)
        for h in excflow.handlers_of(fi, m):
            if "valid_instance" in h.body_calls():
                cl = [c for c in calls_named(h.handler, "_clear")]
                run.check(bool(cl) or not h.swallows(), "V7", h.key,
                          "an invalid response is cleared (self.response = "
                          "None) or the error re-raised",
                          "an invalid response is kept and processing "
                          "continues", h.loc())
    cl = m.func("response.StatusResponse._clear")
    run.check("self.response = None" in unparse(cl.node), "V7",
              cl.qual + "::drops-response", "_clear drops the response",
              "_clear keeps the response object", cl.loc())
    callers = []
    for q in ("response.StatusResponse._loads",
              "response.StatusResponse.load_instance"):
        f = m.func(q)
        rets = [n for n in walk_no_nested(f.node) if isinstance(n, ast.Return)]
        ok = rets and all(unparse(r.value) == "self._postamble()" for r in rets)
        run.check(ok, "V7", f.qual + "::returns-_postamble",
                  "always finishes through _postamble()",
                  "returns %s" % [unparse(r.value) for r in rets], f.loc())
    rq = m.func("request.Request._loads")
    rcfg = cfg_of(rq, m)
    vi = [nd.id for nd, c in rcfg.call_nodes("valid_instance")
          if unparse(arg_of(c, 0)) == "self.message"]
    acc = [r.id for r in rcfg.by_kind("return") if unparse(r.ast.value) == "self"]
    if not vi:
        run.violated("V7", rq.qual + "::valid_instance",
                     "requests are no longer schema-validated", rq.loc())
    else:
        wit = unguarded_path(rcfg, rcfg.entry, acc, vi, lambda e, p: False)
        run.check(wit is None, "V7", rq.qual + "::valid_instance",
                  "validated on every path to `return self`",
                  "`return self` reachable without validation", rq.loc(),
                  witness=rcfg.describe_path(wit) if wit else None)


def v9_required_attribute_defaults(run, data):
    run.rule("V9", "a required attribute is absent unless the document carries "
             "it: the constructor parameter of every required attribute of "
             "every schema class defaults to None (the parser builds the "
             "object with the defaults and copies only what the XML has, so any "
             "other default makes a missing required attribute pass)")
    m = run.model
    n = 0
    for q, c in sorted(data["classes"].items()):
        ci = m.classes.get(q)
        if ci is None:
            continue
        # the constructor that runs: own or inherited
        init = None
        for bq in m.mro(q):
            bc = m.classes.get(bq)
            if bc and "__init__" in bc.methods:
                init = bc.methods["__init__"]
                break
        if init is None:
            continue
        a = init.node.args
        names = [x.arg for x in a.args]
        defs = dict(zip(reversed(names), reversed(a.defaults)))
        for xml_name, spec in sorted((c.get("c_attributes") or {}).items()):
            if not spec.get("required"):
                continue
            member = spec.get("member")
            if member not in defs:
                continue
            n += 1
            d = defs[member]
            ok = isinstance(d, ast.Constant) and d.value is None
            if not ok:
                run.violated("V9", "%s.__init__(%s=%s)" % (q, member, unparse(d)),
                             "required attribute %s of %s defaults to %s: a "
                             "parsed element that lacks the attribute is "
                             "indistinguishable from one that carries it and "
                             "passes validation" % (xml_name, c["name"],
                                                    unparse(d)), init.loc())
    run.floor("V9", "required attributes with a constructor parameter", n, 100)
    run.holds("V9", "required-attribute-defaults", "%d required attributes, all "
              "default to None" % n, "")


def v10_duration_needs_content(run):
    run.rule("V10", "durations: parse_duration looks at the character at the "
             "current position in every round before it may leave the "
             "designator loop - that dereference (IndexError past the end) is "
             "what rejects a duration that ends right after the 'P' ('P', "
             "'-P'); an end-of-input exit placed before it accepts them")
    m = run.model
    fi = m.func("time_util.parse_duration")
    cfg = cfg_of(fi, m)
    p = [a for a in fi.params()][0]

    def derefs(n):
        if n.kind in ("true", "false", "exc", "handler", "join"):
            return False
        for top in cfg.own_exprs(n):
            for x in ast.walk(top):
                if isinstance(x, ast.Subscript) and \
                        isinstance(x.value, ast.Name) and x.value.id == p and \
                        not isinstance(x.slice, ast.Slice) and \
                        isinstance(x.ctx, ast.Load):
                    return True
        return False
    # the designator loop: the loop over D_FORMAT whose body looks at the
    # input (a comprehension over the same table builds the result dict)
    loops = [n for n in cfg.nodes if n.kind == "iter" and
             isinstance(n.ast.iter, ast.Name) and n.ast.iter.id == "D_FORMAT"
             and any(isinstance(x, ast.Name) and x.id == p
                     for st in n.ast.body for x in ast.walk(st))]
    run.require(len(loops) == 1, "parse_duration: the loop over D_FORMAT "
                "vanished")
    it = loops[0]
    obl = {n.id for n in cfg.nodes if derefs(n)}
    # an explicit refusal of "nothing after the P" in front of the loop does
    # the same job
    for t in cfg.by_kind("test"):
        tb = [b for b in cfg.succ[t.id] if cfg.nodes[b].kind == "true"]
        if cfg.dominates(t.id, it.id) and tb and \
                only_raises_from(cfg, tb[0]) and \
                "index" in {x.id for x in ast.walk(t.ast)
                            if isinstance(x, ast.Name)}:
            obl.add(it.id)
    leave = {n.id for n in cfg.nodes
             if n.kind in ("exhausted", "return_exit") or
             (n.kind == "for" and n.ast is it.ast)}
    excs = {n.id for n in cfg.nodes if n.kind == "exc"}
    wit = None
    if it.id not in obl:
        for tgt in sorted(leave):
            wit = wit or cfg.path(it.id, tgt, obl | excs)
    run.check(wit is None, "V10", fi.qual + "::position-examined-each-round",
              "every round dereferences %s[index] before the loop can be left"
              % p,
              "the designator loop can be left (or go round) without looking "
              "at the current character: a duration that ends after the 'P' "
              "is no longer refused", fi.loc(it.ast),
              witness=cfg.describe_path(wit) if wit else None)


def check(run):
    run.explanation = (
        "C13: exhaustive table rules over all schema classes (every declared "
        "type name resolves under validate.valid's own resolution, every bound "
        "names a real member and is well formed), shape of the generic engine "
        "valid_instance (required/empty, typed validation, cardinality normal "
        "forms, recursion, text), delegation of the verify() overrides, "
        "fallibility of the checked simple-type validators, validation on the "
        "receive paths. Not decided: value-level conformance of arbitrary "
        "strings.")
    run.exhaustive = True
    run.assumptions = ["reflection faithfully reports the class tables"]
    data = reflect(run.model)
    v1_types_resolve(run, data)
    v2_v3_cardinality(run, data)
    v4_engine(run)
    v5_overrides(run)
    v6_validators_raise(run, data)
    v7_receive_paths(run)
    v9_required_attribute_defaults(run, data)
    v10_duration_needs_content(run)
    from ..common_rules import memo_rule
    memo_rule(run, "V8", {"validate"}, "validation constraints")
