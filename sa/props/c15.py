"""C15 - Redirect-binding signatures bind the exact query and the signer's own key.

Decided: ownership of signer state (the structural cause of every key mix-up
history or schedule), agreement of the signed octet string between signer and
verifier, derivation of the verdict.  Thread interleavings as such and RSA are
not decided.
"""
import ast

from ..match import facts, Q
from ..srcmodel import (attr_chain, call_name, unparse, norm_text, walk_no_nested,
                        Model, ModuleInfo)
from ..cfg import cfg_of, CFG
from ..dataflow import Origins, ReachingDefs
from ..match import calls_named, arg_of, is_falsy_const, str_consts


def shared_containers(model):
    """Module-level dict/list/tuple literals whose elements are objects built by
    calling a class: {module: {name: value AST}}."""
    out = {}
    for name, mi in model.modules.items():
        for var, vals in mi.assigns.items():
            for v in vals:
                elts = []
                if isinstance(v, ast.Dict):
                    elts = v.values
                elif isinstance(v, (ast.List, ast.Tuple, ast.Set)):
                    elts = v.elts
                if not elts:
                    continue
                objs = 0
                for e in elts:
                    if isinstance(e, ast.Call):
                        tg = model.resolve_expr_all(mi, e.func)
                        if any(t in model.classes for t in tg):
                            objs += 1
                if objs:
                    out.setdefault(name, {})[var] = v
    # holders that are filled at run time (threading.local(), {}, [], dict())
    for name, mi in model.modules.items():
        if not name.endswith((".sigver", ".pack", ".entity")) and \
                ".cryptography" not in name:
            continue
        for var, vals in mi.assigns.items():
            for v in vals:
                empty = isinstance(v, (ast.Dict, ast.List, ast.Set)) and not (
                    v.keys if isinstance(v, ast.Dict) else v.elts)
                holder_call = isinstance(v, ast.Call) and call_name(v) in (
                    "local", "dict", "list", "set", "defaultdict",
                    "OrderedDict", "WeakValueDictionary", "WeakKeyDictionary")
                if (empty or holder_call) and var not in ("__all__",):
                    out.setdefault(name, {})[var] = v
    return out


def writes_to_shared(model, fnode, mi, shared_names, qual):
    """Attribute stores on objects obtained from a shared container.
    -> [(stmt, description)]"""
    cfg = CFG(fnode, model, qual)
    rd = ReachingDefs(cfg)
    hits = []

    def from_shared(expr, nid, depth=0):
        if depth > 6 or expr is None:
            return None
        if isinstance(expr, ast.Subscript):
            return from_shared(expr.value, nid, depth + 1) or (
                unparse(expr.value) if isinstance(expr.value, ast.Name) and
                expr.value.id in shared_names and
                not rd.defs_of(expr.value.id) else None)
        if isinstance(expr, ast.Name):
            if expr.id in shared_names and not rd.defs_of(expr.id):
                return expr.id
            for d in rd.reaching(expr.id, nid):
                if d.kind in ("assign", "iter", "unpack") and d.value is not None:
                    r = from_shared(d.value, d.node, depth + 1)
                    if r:
                        return r
            return None
        if isinstance(expr, ast.Call):
            f = expr.func
            if isinstance(f, ast.Attribute) and f.attr in (
                    "get", "values", "items", "pop", "setdefault", "copy"):
                if f.attr == "copy":
                    return from_shared(f.value, nid, depth + 1)
                return from_shared(f.value, nid, depth + 1)
            if isinstance(f, ast.Name) and f.id in ("list", "iter", "next",
                                                    "tuple", "sorted"):
                return from_shared(expr.args[0], nid, depth + 1) \
                    if expr.args else None
            return None
        if isinstance(expr, ast.Attribute):
            if isinstance(expr.value, ast.Name) and \
                    expr.value.id in shared_names and \
                    not rd.defs_of(expr.value.id):
                return expr.value.id          # holder.attr (e.g. thread-local)
            inner = from_shared(expr.value, nid, depth + 1)
            if inner:
                return inner
            # module.SIGNER_ALGS
            tg = model.resolve_expr_all(mi, expr)
            for t in tg:
                mod, _, nm = t.rpartition(".")
                if nm in shared_names:
                    return nm
            return None
        return None
    for n in cfg.nodes:
        s = n.ast
        targets = []
        if n.kind == "stmt" and isinstance(s, ast.Assign):
            targets = s.targets
        elif n.kind == "stmt" and isinstance(s, ast.AugAssign):
            targets = [s.target]
        for t in targets:
            for tt in (t.elts if isinstance(t, (ast.Tuple, ast.List)) else [t]):
                if isinstance(tt, ast.Attribute):
                    if isinstance(tt.value, ast.Name) and \
                            tt.value.id in shared_names and \
                            not rd.defs_of(tt.value.id):
                        continue      # initialising the holder itself
                    src = from_shared(tt.value, n.id)
                    if src:
                        hits.append((s, "%s of an element of %s" % (tt.attr, src)))
        if n.kind == "stmt" and isinstance(s, ast.Expr) and \
                isinstance(s.value, ast.Call) and \
                call_name(s.value) == "setattr" and s.value.args:
            src = from_shared(s.value.args[0], n.id)
            if src:
                hits.append((s, "setattr on an element of %s" % src))
    return hits


def r1_no_shared_writes(run):
    run.rule("R1", "objects held in module-level containers (SIGNER_ALGS) are "
             "shared by every entity and thread of the process: no function "
             "may assign to their attributes")
    m = run.model
    shared = shared_containers(m)
    run.require("SIGNER_ALGS" in shared.get("saml2_tophat.sigver", {}),
                "sigver.SIGNER_ALGS is no longer a module-level container of "
                "signer objects")
    names = set()
    for mod, d in shared.items():
        names |= set(d)
    run.count("R1.shared containers", sum(len(d) for d in shared.values()))
    n = 0
    for q, fi in sorted(m.funcs.items()):
        src = unparse(fi.node)
        if not any(nm in src for nm in names):
            continue
        n += 1
        mi = m.modules[fi.module]
        for stmt, what in writes_to_shared(m, fi.node, mi, names, q):
            run.violated("R1", "%s::%s" % (q, norm_text(stmt)),
                         "writes attribute %s: every entity in the process "
                         "sees (and signs with) the value stored last" % what,
                         fi.loc(stmt))
    run.count("R1.functions referencing a shared container", n)
    run.holds("R1", "package", "%d function(s) reference a shared container; "
              "none assigns to an element's attributes" % n,
              "src/saml2_tophat")
    run.floor("R1", "functions referencing SIGNER_ALGS", n, 2)
    # positive control
    ctl = ("SHARED = {'a': Thing()}\n"
           "class Thing(object):\n    pass\n"
           "def bad(k, v):\n    obj = SHARED[k]\n    obj.key = v\n    return obj\n"
           "def good(k, v):\n    obj = Thing()\n    obj.key = v\n    return obj\n")
    tree = ast.parse(ctl)
    mi = ModuleInfo("control", "<control>", "<control>", tree, ctl)
    fake = Model.__new__(Model)
    fake.modules, fake.funcs, fake.classes, fake.pkg = {}, {}, {}, "control"
    fake._index_module(mi)
    fake.modules["control"] = mi
    bad = [f for f in tree.body if isinstance(f, ast.FunctionDef)]
    got = {f.name: len(writes_to_shared(fake, f, mi, {"SHARED"}, f.name))
           for f in bad}
    run.require(got == {"bad": 1, "good": 0},
                "positive control for the shared-write matcher failed: %s" % got)
    run.holds("R1", "positive-control", "embedded example: bad flagged, good "
              "silent", nontrivial=False)
    # the container itself is not rebound / extended at run time
    for mod, d in shared.items():
        mi = m.modules[mod]
        for q, fi in m.funcs.items():
            if fi.module != mod:
                continue
            for s in walk_no_nested(fi.node):
                if isinstance(s, ast.Assign):
                    for t in s.targets:
                        if isinstance(t, ast.Subscript) and \
                                isinstance(t.value, ast.Name) and \
                                t.value.id in d:
                            run.violated("R1", "%s::%s" % (q, norm_text(s)),
                                         "replaces an element of the shared "
                                         "container at run time", fi.loc(s))


def r2_own_key(run):
    run.rule("R2", "the signer used for a redirect is obtained from the "
             "entity's own RSACrypto and carries that entity's key")
    m = run.model
    ab = m.func("entity.Entity.apply_binding")
    cs = [c for c in calls_named(ab.node, "get_signer")]
    ok = len(cs) == 1 and attr_chain(cs[0].func) == \
        "self.sec.sec_backend.get_signer" and len(cs[0].args) == 1 and \
        not cs[0].keywords and unparse(cs[0].args[0]) == "sigalg"
    run.check(ok, "R2", ab.qual + "::get_signer",
              "self.sec.sec_backend.get_signer(sigalg) - no foreign key",
              "signer obtained by %s" % [unparse(c) for c in cs], ab.loc())
    cfg = cfg_of(ab, m)
    org = Origins(cfg)
    for nd, c in cfg.call_nodes("use_http_get"):
        a = arg_of(c, None, "signer")
        got = org.of(a, nd.id) if a is not None else set()
        ok = got and all((x.kind == "call" and x.text ==
                          "self.sec.sec_backend.get_signer") or
                         (x.kind == "const" and x.text == "None") for x in got)
        run.check(ok, "R2", ab.qual + "::signer=",
                  "the redirect is signed with that signer (or not at all)",
                  "signer passed on derives from %s" %
                  sorted(repr(x) for x in got), ab.loc(c))
    gs = m.func("sigver.RSACrypto.get_signer")
    gcfg = cfg_of(gs, m)
    gorg = Origins(gcfg)
    for r in gcfg.by_kind("return"):
        if is_falsy_const(r.ast.value):
            continue
        atoms = gorg.of(r.ast.value, r.id)
        ok = atoms and all(a.kind == "call" and a.text == "RSASigner"
                           for a in atoms)
        keys = set()
        for cn, cc in gcfg.call_nodes("RSASigner"):
            ka = arg_of(cc, 1, "key")
            keys |= gorg.texts(ka, cn.id) if ka is not None else {"<none>"}
        run.check(ok and keys <= {"sigkey", "self.key"} and "self.key" in keys,
                  "R2", gs.qual + "::returns",
                  "a private RSASigner keyed with sigkey or the entity's key",
                  "get_signer returns %s keyed with %s" %
                  (sorted(repr(a) for a in atoms), sorted(keys)), gs.loc(r.ast))
    for nd in gcfg.by_kind("stmt"):
        s = nd.ast
        if isinstance(s, ast.Assign) and isinstance(s.value, ast.Call) and \
                call_name(s.value) == "RSASigner" and \
                unparse(arg_of(s.value, 1, "key")) == "sigkey":
            gsd = facts(gcfg, nd.id)
            run.check(Q("sigkey", True) in gsd, "R2", gs.qual + "::sigkey-guard",
                      "an explicit key is used only when one was given",
                      "explicit key used under %s" % sorted(gsd), gs.loc(s),
                      nontrivial=False)
    ri = m.func("sigver.RSACrypto.__init__")
    run.check("self.key = key" in unparse(ri.node), "R2", ri.qual + "::key",
              "stores the key it was constructed with", "constructor changed",
              ri.loc(), nontrivial=False)
    sc = m.func("sigver.security_context")
    scfg = cfg_of(sc, m)
    sorg = Origins(scfg, transparent={"RSACrypto": "all",
                                      "import_rsa_key_from_file": "all"})
    ctor = [c for c in ast.walk(sc.node) if isinstance(c, ast.Call) and
            call_name(c) == "SecurityContext"]
    a = arg_of(ctor[0], None, "sec_backend") if ctor else None
    nd = [n for n in scfg.stmt_nodes() if ctor and any(
        x is ctor[0] for x in ast.walk(n.ast))]
    got = sorg.of(a, nd[0].id) if a is not None and nd else set()
    ok = any(x.kind == "call" and x.text == "conf.getattr" and
             unparse(x.ast.args[0]) == "'key_file'" for x in got) and all(
        x.kind == "const" or (x.kind == "call" and x.text == "conf.getattr")
        for x in got)
    run.check(ok, "R2", sc.qual + "::sec_backend",
              "RSACrypto(<key loaded from the entity's own key_file>)",
              "sec_backend derives from %s" % sorted(repr(x) for x in got),
              sc.loc())


def _signed_string_features(fnode):
    """Features of `'&'.join([urlencode({k: D[k]}) for k in O if k in D])
    .encode('ascii')` inside a function."""
    feats = []
    for c in ast.walk(fnode):
        if not (isinstance(c, ast.Call) and isinstance(c.func, ast.Attribute)
                and c.func.attr == "join" and c.args and
                isinstance(c.args[0], (ast.ListComp, ast.GeneratorExp))):
            continue
        comp = c.args[0]
        if len(comp.generators) != 1:
            continue
        g = comp.generators[0]
        elt = comp.elt
        f = {"sep": unparse(c.func.value), "order": unparse(g.iter),
             "var": unparse(g.target)}
        d = None
        if isinstance(elt, ast.Call) and call_name(elt) == "urlencode" and \
                len(elt.args) == 1 and isinstance(elt.args[0], ast.Dict) and \
                len(elt.args[0].keys) == 1:
            k, v = elt.args[0].keys[0], elt.args[0].values[0]
            if isinstance(v, ast.Subscript) and unparse(k) == f["var"] and \
                    unparse(v.slice) == f["var"]:
                d = unparse(v.value)
                f["encoder"] = "urlencode({k: D[k]})"
        f["dict"] = d
        f["filter"] = [unparse(i).replace(d or "\0", "D") for i in g.ifs]
        f["node"] = c
        feats.append(f)
    return feats


def _signed_string_features_cfg(cfg):
    """The same features when the list is accumulated in a loop (the form the
    model puts `x = [comprehension]` into):
        L = []
        for k in O:
            if k in D: L.append(urlencode({k: D[k]}))
        ... SEP.join(L)"""
    feats = []
    for nd, c in cfg.call_nodes("join"):
        if not (isinstance(c.func, ast.Attribute) and len(c.args) == 1 and
                isinstance(c.args[0], ast.Name)):
            continue
        lst = c.args[0].id
        apps = [(n2, c2) for n2, c2 in cfg.call_nodes("append")
                if attr_chain(c2.func) == lst + ".append" and len(c2.args) == 1]
        if len(apps) != 1:
            continue
        an, ac = apps[0]
        loops = [l for l in cfg.by_kind("foriter") if cfg.dominates(l.id, an.id)]
        if not loops:
            continue
        lp = loops[-1]
        var = unparse(lp.ast.target)
        elt = ac.args[0]
        f = {"sep": unparse(c.func.value), "order": unparse(lp.ast.iter),
             "var": var, "node": c}
        d = None
        if isinstance(elt, ast.Call) and call_name(elt) == "urlencode" and \
                len(elt.args) == 1 and isinstance(elt.args[0], ast.Dict) and \
                len(elt.args[0].keys) == 1:
            k, v = elt.args[0].keys[0], elt.args[0].values[0]
            if isinstance(v, ast.Subscript) and unparse(k) == var and \
                    unparse(v.slice) == var:
                d = unparse(v.value)
                f["encoder"] = "urlencode({k: D[k]})"
        f["dict"] = d
        inner = [(unparse(e), p) for e, p, b in cfg.guards(an.id)
                 if cfg.dominates(lp.id, b) and
                 var in {x.id for x in ast.walk(e) if isinstance(x, ast.Name)}]
        f["filter"] = [t.replace(d or "\0", "D") if p else "not (%s)" %
                       t.replace(d or "\0", "D") for t, p in inner]
        feats.append(f)
    return feats


def r3_sibling_agreement(run):
    run.rule("R3", "signer and verifier build the signed octet string the same "
             "way: same order tables selected by message kind, same per-"
             "parameter encoder, separator and presence filter; Signature "
             "excluded, SigAlg included")
    m = run.model
    sg = m.func("pack.http_redirect_message")
    vf = m.func("sigver.verify_redirect_signature")
    fs = _signed_string_features(sg.node) or \
        _signed_string_features_cfg(cfg_of(sg, m))
    fv = _signed_string_features(vf.node) or \
        _signed_string_features_cfg(cfg_of(vf, m))
    key = "signed-string::signer-vs-verifier"
    if len(fs) != 1 or len(fv) != 1:
        run.violated("R3", key, "could not find exactly one signed-string "
                     "construction on each side (%d / %d)" % (len(fs), len(fv)),
                     sg.loc())
        return
    a, b = fs[0], fv[0]
    same = all(a[k] == b[k] for k in ("sep", "order", "filter")) and \
        a.get("encoder") == b.get("encoder") == "urlencode({k: D[k]})" and \
        a["sep"] == "'&'" and a["filter"] == ["%s in D" % a["var"]]
    run.check(same, "R3", key, "identical construction on both sides",
              "signer builds %s, verifier builds %s" % (
                  {k: a[k] for k in ("sep", "order", "filter", "encoder")
                   if k in a},
                  {k: b[k] for k in ("sep", "order", "filter", "encoder")
                   if k in b}), sg.loc(a["node"]))
    for side, f, fi in (("signer", a, sg), ("verifier", b, vf)):
        p = [c for c in ast.walk(fi.node) if isinstance(c, ast.Call) and
             isinstance(c.func, ast.Attribute) and c.func.attr == "encode" and
             c.func.value is f["node"]]
        run.check(len(p) == 1 and unparse(p[0].args[0]) == "'ascii'", "R3",
                  "signed-string::%s-bytes" % side, "encoded as ASCII bytes",
                  "byte encoding differs", fi.loc(f["node"]), nontrivial=False)
    # order tables: same objects, right content, right selection
    pm = m.module("pack")
    sm = m.module("sigver")
    for nm in ("REQ_ORDER", "RESP_ORDER"):
        run.check(pm.imports.get(nm) == {"saml2_tophat.sigver." + nm}, "R3",
                  "pack." + nm, "the signer uses sigver's table",
                  "pack.%s resolves to %s" % (nm, pm.imports.get(nm)),
                  pm.relpath, nontrivial=False)
    want = {"REQ_ORDER": ["SAMLRequest", "RelayState", "SigAlg"],
            "RESP_ORDER": ["SAMLResponse", "RelayState", "SigAlg"]}
    for nm, w in want.items():
        v = sm.assigns.get(nm, [None])[-1]
        got = str_consts(v) if v is not None else None
        run.check(got == w, "R3", "sigver." + nm, "%s" % w,
                  "%s is %s" % (nm, got), sm.relpath)
    scfg = cfg_of(sg, m)
    for nd in scfg.by_kind("stmt"):
        s = nd.ast
        if isinstance(s, ast.Assign) and unparse(s.targets[0]) == "_order" and \
                not is_falsy_const(s.value):
            gs = facts(scfg, nd.id)
            want_g = ("typ == 'SAMLRequest'", unparse(s.value) == "REQ_ORDER")
            run.check(want_g in gs, "R3", sg.qual + "::_order=" +
                      unparse(s.value), "selected by message kind",
                      "%s selected under %s" % (unparse(s.value), sorted(gs)),
                      sg.loc(s))
    vcfg = cfg_of(vf, m)
    for nd in vcfg.by_kind("stmt"):
        s = nd.ast
        if isinstance(s, ast.Assign) and unparse(s.targets[0]) == "_order":
            gs = facts(vcfg, nd.id)
            kind = "SAMLRequest" if unparse(s.value) == "REQ_ORDER" else \
                "SAMLResponse"
            run.check(("'%s' in saml_msg" % kind, True) in gs, "R3",
                      vf.qual + "::_order=" + unparse(s.value),
                      "selected by the parameter that is present",
                      "%s selected under %s" % (unparse(s.value), sorted(gs)),
                      vf.loc(s))
    # Signature excluded / SigAlg included
    join_s = [n for n in scfg.stmt_nodes()
              if any(x is a["node"] for x in ast.walk(n.ast))]
    sig_assign = [n for n in scfg.by_kind("stmt") if isinstance(n.ast, ast.Assign)
                  and unparse(n.ast.targets[0]) == "args['Signature']"]
    alg_assign = [n for n in scfg.by_kind("stmt") if isinstance(n.ast, ast.Assign)
                  and unparse(n.ast.targets[0]) == "args['SigAlg']"]
    ok = join_s and sig_assign and alg_assign and \
        scfg.dominates(alg_assign[0].id, join_s[0].id) and \
        scfg.dominates(join_s[0].id, sig_assign[0].id)
    run.check(ok, "R3", sg.qual + "::SigAlg-in/Signature-out",
              "SigAlg is added before, Signature after the string is built",
              "order of SigAlg / signed string / Signature changed", sg.loc())
    if sig_assign:
        v = sig_assign[0].ast.value
        # what is signed is the string built by the join, whatever it is named
        jt = join_s[0].ast.targets[0] if join_s and isinstance(
            join_s[0].ast, ast.Assign) else None
        ok = jt is not None and unparse(v) == \
            "base64.b64encode(signer.sign(%s))" % unparse(jt) and \
            {d.node for d in scfg.rd.reaching(unparse(jt), sig_assign[0].id)} \
            == {join_s[0].id}
        if not ok and isinstance(v, ast.Call) and \
                attr_chain(v.func) == "base64.b64encode" and len(v.args) == 1 \
                and isinstance(v.args[0], ast.Call) and \
                attr_chain(v.args[0].func) == "signer.sign" and \
                len(v.args[0].args) == 1:
            # ... or the string is built in place: the joined text itself
            # (at most re-encoded) is what the signer gets
            x = v.args[0].args[0]
            while isinstance(x, ast.Call) and isinstance(x.func, ast.Attribute) \
                    and x.func.attr == "encode":
                x = x.func.value
            ok = x is a["node"]
        run.check(ok, "R3", sg.qual + "::Signature-value",
                  "Signature = base64(signer.sign(string))",
                  "Signature value is %s" % unparse(v), sg.loc(v))
    dels = [n for n in vcfg.by_kind("stmt") if isinstance(n.ast, ast.Delete) and
            unparse(n.ast.targets[0]) == "_args['Signature']"]
    join_v = [n for n in vcfg.stmt_nodes()
              if any(x is b["node"] for x in ast.walk(n.ast))]
    ok = dels and join_v and vcfg.dominates(dels[0].id, join_v[0].id) and \
        b["dict"] == "_args"
    cp = [s for s in walk_no_nested(vf.node) if isinstance(s, ast.Assign) and
          unparse(s.targets[0]) == "_args"]
    ok = ok and len(cp) == 1 and unparse(cp[0].value) == "saml_msg.copy()"
    run.check(ok, "R3", vf.qual + "::Signature-removed",
              "verifier rebuilds the string from a copy without Signature",
              "verifier no longer removes the Signature parameter first",
              vf.loc())


def r4_verdict(run):
    run.rule("R4", "verify_redirect_signature's truthy result derives only from "
             "signer.verify(string, signature, key); unknown algorithm => falsy "
             "or raise; key_verify turns any failure into False")
    m = run.model
    vf = m.func("sigver.verify_redirect_signature")
    cfg = cfg_of(vf, m)
    org = Origins(cfg, transparent={"bool": "all"})
    n = 0
    for r in cfg.by_kind("return"):
        if is_falsy_const(r.ast.value):
            continue
        n += 1
        atoms = org.of(r.ast.value, r.id)
        ok = atoms and all(a.kind == "call" and a.text == "signer.verify"
                           for a in atoms)
        run.check(ok, "R4", vf.qual + "::" + norm_text(r.ast)[:60],
                  "verdict is signer.verify(...)",
                  "a possibly truthy result derives from %s" %
                  sorted(repr(a) for a in atoms), vf.loc(r.ast))
        gs = facts(cfg, r.id)
        run.check(Q("saml_msg['SigAlg'] in SIGNER_ALGS", True) in gs, "R4",
                  vf.qual + "::known-algorithm",
                  "verified only for an algorithm in SIGNER_ALGS",
                  "verification result returned under %s" % sorted(gs),
                  vf.loc(r.ast))
    run.floor("R4", "truthy returns", n, 1)
    for nd, c in cfg.call_nodes("verify"):
        if attr_chain(c.func) != "signer.verify":
            continue
        args = [unparse(a) for a in c.args]
        # (msg, sig, key): msg is the string built above, whatever it is called
        built = _signed_string_features(vf.node) or \
            _signed_string_features_cfg(cfg)
        enc = [e for e in ast.walk(vf.node) if isinstance(e, ast.Call) and
               isinstance(e.func, ast.Attribute) and e.func.attr == "encode"
               and built and e.func.value is built[0]["node"]]
        holder = [n2 for n2 in cfg.by_kind("stmt")
                  if isinstance(n2.ast, ast.Assign) and enc and
                  n2.ast.value is enc[0]]
        ok = len(c.args) == 3 and len(holder) == 1 and \
            isinstance(c.args[0], ast.Name) and \
            unparse(holder[0].ast.targets[0]) == c.args[0].id and \
            {d.node for d in cfg.rd.reaching(c.args[0].id, nd.id)} == \
            {holder[0].id}
        run.check(ok, "R4",
                  vf.qual + "::verify-args", "verify(<the rebuilt string>, "
                  "signature, key)",
                  "signer.verify(%s)" % args, vf.loc(c))
        korg = Origins(cfg, transparent={"extract_rsa_key_from_x509_cert": "all",
                                         "pem_format": "all"})
        got = korg.texts(c.args[2], nd.id) if len(c.args) > 2 else set()
        run.check(got == {"cert", "sigkey"}, "R4", vf.qual + "::key-origins",
                  "key derives from the cert / sigkey arguments only",
                  "verification key derives from %s" % sorted(got), vf.loc(c))
        sgn = korg.of(c.args[1], nd.id) if len(c.args) > 1 else set()
        ok = all(a.kind == "call" and a.text == "base64.b64decode" and
                 unparse(a.ast.args[0]) == "saml_msg['Signature']" for a in sgn)
        run.check(ok and sgn, "R4", vf.qual + "::signature-origin",
                  "signature is base64-decoded from the Signature parameter",
                  "signature derives from %s" % sorted(repr(a) for a in sgn),
                  vf.loc(c))
    gsn = cfg.call_nodes("get_signer")
    run.check(len(gsn) == 1 and unparse(gsn[0][1].args[0]) ==
              "saml_msg['SigAlg']", "R4", vf.qual + "::algorithm",
              "signer chosen by the SigAlg parameter of the message",
              "algorithm selection changed", vf.loc())
    kv = m.func("cryptography.asymmetric.key_verify")
    from .. import excflow
    hs = excflow.handlers_of(kv, m)
    ok = len(hs) == 1 and hs[0].dispositions == {"return-falsy"} and \
        "verify" in hs[0].body_calls()
    rets = [unparse(r.value) for r in walk_no_nested(kv.node)
            if isinstance(r, ast.Return)]
    run.check(ok and sorted(rets) == ["False", "True"], "R4",
              kv.qual + "::failure=>False",
              "any verification failure returns False; True only in the else "
              "clause", "key_verify no longer maps failures to False (%s)" %
              rets, kv.loc())
    tr = [t for t in walk_no_nested(kv.node) if isinstance(t, ast.Try)]
    ok = len(tr) == 1 and any(isinstance(s, ast.Return) and
                              unparse(s.value) == "True" for s in tr[0].orelse)
    run.check(ok, "R4", kv.qual + "::True-only-on-success",
              "`return True` sits in the else clause of the try",
              "`return True` moved out of the success branch", kv.loc())
    rs = m.func("sigver.RSASigner.verify")
    rcfg = cfg_of(rs, m)
    rrets = rcfg.by_kind("return")
    run.check(len(rrets) == 1 and rcfg.same(
        rrets[0].ast.value, rrets[0].id,
        "saml2_tophat.cryptography.asymmetric.key_verify(key or self.key, "
        "sig, msg, self.digest)"), "R4",
              rs.qual + "::delegates", "RSASigner.verify -> key_verify(key, "
              "sig, msg, digest)", "RSASigner.verify changed", rs.loc())


def r5_allowed_alg(run):
    run.rule("R5", "signing asserts that the algorithm is one of the allowed "
             "RSA-SHA algorithms")
    m = run.model
    sg = m.func("pack.http_redirect_message")
    cfg = cfg_of(sg, m)
    asserts = [n for n in cfg.by_kind("stmt") if isinstance(n.ast, ast.Assert)
               and "sigalg in" in unparse(n.ast.test) and
               "SIG_ALLOWED_ALG" in unparse(n.ast.test)]
    signs = [nd for nd, c in cfg.call_nodes("sign")
             if attr_chain(c.func) == "signer.sign"]
    ok = asserts and signs and all(cfg.dominates(asserts[0].id, s.id)
                                   for s in signs)
    run.check(ok, "R5", sg.qual + "::assert-allowed",
              "assert sigalg in SIG_ALLOWED_ALG dominates signing",
              "signing no longer preceded by the allowed-algorithm assertion",
              sg.loc())
    xm = m.module("xmldsig")
    v = xm.assigns.get("SIG_ALLOWED_ALG", [None])[-1]
    names = sorted(n.id for n in ast.walk(v) if isinstance(n, ast.Name)) \
        if v is not None else []
    sv = m.module("sigver").assigns.get("SIGNER_ALGS", [None])[-1]
    keys = sorted(unparse(k) for k in sv.keys) if isinstance(sv, ast.Dict) else []
    run.check(names == keys and len(keys) == 5, "R5",
              "SIG_ALLOWED_ALG==SIGNER_ALGS.keys",
              "the five allowed algorithms are exactly those with a signer",
              "allowed %s vs signers %s" % (names, keys), xm.relpath)


def check(run):
    run.explanation = (
        "C15: ownership rule over module-level containers of signer objects "
        "(no attribute store on an element obtained from them, with a positive "
        "control), provenance of the signer and its key, feature-level "
        "agreement of the signed octet string built by http_redirect_message "
        "and rebuilt by verify_redirect_signature, derivation of the verdict, "
        "allowed-algorithm assertion. Not decided: thread interleavings as "
        "such, RSA.")
    run.assumptions = ["objects created per call are not shared between "
                       "entities", "urlencode is deterministic"]
    r1_no_shared_writes(run)
    r2_own_key(run)
    r3_sibling_agreement(run)
    r4_verdict(run)
    r5_allowed_alg(run)
