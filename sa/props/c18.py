"""C18 - Name identifiers map to one principal, stably and without cross-SP linkage.

Decided: pairing discipline of the two-way map, codec separator safety, freshness
source, persistent stability, manage-name-id sequence - necessary conditions for
consistency over any history.  The histories themselves are not decided.
"""
import ast
import builtins
import symtable

from ..match import facts, Q
from ..srcmodel import attr_chain, call_name, unparse, norm_text, walk_no_nested
from ..cfg import cfg_of
from ..dataflow import Origins
from .. import excflow
from ..match import calls_named, arg_of, unguarded_path, is_falsy_const

ID = "ident.IdentDB."


def _db_writes(fnode):
    out = []
    for s in walk_no_nested(fnode):
        if isinstance(s, ast.Assign):
            for t in s.targets:
                if isinstance(t, ast.Subscript) and \
                        attr_chain(t.value) in ("self.db", "self.ident.db",
                                                "ident.db"):
                    out.append(("set", s, t))
        elif isinstance(s, ast.Delete):
            for t in s.targets:
                if isinstance(t, ast.Subscript) and \
                        attr_chain(t.value) in ("self.db", "self.ident.db",
                                                "ident.db"):
                    out.append(("del", s, t))
    return out


def r1_two_directions(run):
    run.rule("R1", "only store/remove_remote/remove_local write the identifier "
             "map, and each keeps forward (user -> ids) and reverse (id text -> "
             "user) entries in step")
    m = run.model
    ci = m.cls("ident.IdentDB")
    writers = {}
    for name, fi in ci.methods.items():
        if fi.qual in m.absorbed:
            continue     # new helper, its statements are analysed in its callers
        w = _db_writes(fi.node)
        if w:
            writers[name] = w
    run.check(set(writers) == {"store", "remove_remote", "remove_local"}, "R1",
              "ident.IdentDB::writers", "writers: %s" % sorted(writers),
              "the identifier map is written by %s" % sorted(writers), ci.path)
    for mi in m.modules.values():
        if mi.name.endswith(".ident"):
            continue
        for fi in m.funcs.values():
            if fi.module != mi.name:
                continue
            for kind, s, t in _db_writes(fi.node):
                if "ident" in (attr_chain(t.value) or ""):
                    run.violated("R1", "%s::%s" % (fi.qual, norm_text(s)),
                                 "the identifier map is written from outside "
                                 "IdentDB", fi.loc(s))
    # store
    st = m.func(ID + "store")
    cfg = cfg_of(st, m)
    sets = [(nd, nd.ast) for nd in cfg.by_kind("stmt")
            if isinstance(nd.ast, ast.Assign) and
            unparse(nd.ast.targets[0]).startswith("self.db[")]
    fwd = [x for x in sets if unparse(x[1].targets[0]) == "self.db[ident]"]
    rev = [x for x in sets if unparse(x[1].targets[0]) == "self.db[name_id.text]"]
    ok = len(fwd) == 1 and len(rev) == 1 and \
        unparse(rev[0][1].value) == "ident" and \
        isinstance(fwd[0][1].value, ast.Call) and \
        call_name(fwd[0][1].value) == "join" and \
        unparse(fwd[0][1].value.func.value) == "' '"
    if ok:
        for nd, s in (fwd[0], rev[0]):
            ok = ok and not unguarded_path(cfg, cfg.entry, [cfg.return_exit],
                                           [nd.id], lambda e, p: False) is not \
                None
    run.check(ok, "R1", st.qual + "::both-directions",
              "forward and reverse entries are written on every path",
              "store() no longer writes both db[ident] and db[name_id.text] on "
              "every path", st.loc())
    # the list that is joined into db[ident] gets the encoded NameID appended
    # to the identifiers kept so far
    lst = None
    if len(fwd) == 1:
        v = fwd[0][1].value
        if isinstance(v, ast.Call) and call_name(v) == "join" and \
                isinstance(v.func.value, ast.Constant) and \
                v.func.value.value == " " and len(v.args) == 1 and \
                isinstance(v.args[0], ast.Name):
            lst = v.args[0].id
    app = [(nd, c) for nd, c in cfg.call_nodes("append")
           if lst and attr_chain(c.func) == lst + ".append"]
    ok = len(app) == 1 and cfg.same(app[0][1].args[0], app[0][0].id,
                                    "code(name_id)")
    run.check(ok, "R1", st.qual + "::forward-value",
              "the encoded NameID is appended to the user's list",
              "forward value changed", st.loc())
    prev = [s for s in walk_no_nested(st.node) if isinstance(s, ast.Assign) and
            lst and unparse(s.targets[0]) == lst]
    run.check({unparse(s.value) for s in prev} ==
              {"self.db[ident].split(' ')", "[]"}, "R1",
              st.qual + "::keeps-previous", "earlier identifiers are kept",
              "%s <- %s" % (lst, [unparse(s.value) for s in prev]), st.loc())
    # remove_remote
    rr = m.func(ID + "remove_remote")
    rcfg = cfg_of(rr, m)
    dels = [nd for nd in rcfg.by_kind("stmt") if isinstance(nd.ast, ast.Delete)
            and unparse(nd.ast.targets[0]) == "self.db[name_id.text]"]
    exc = {n.id for n in rcfg.nodes if n.kind == "exc"}
    ok = len(dels) == 1 and rcfg.path(rcfg.entry, rcfg.return_exit,
                                      exc | {dels[0].id}) is None
    run.check(ok, "R1", rr.qual + "::reverse-deleted",
              "the reverse entry is deleted on every normal path",
              "remove_remote can finish without deleting the reverse entry",
              rr.loc())
    rem = [c for c in calls_named(rr.node, "remove")
           if attr_chain(c.func) == "vals.remove"]
    wr = [s for s in walk_no_nested(rr.node) if isinstance(s, ast.Assign) and
          unparse(s.targets[0]) == "self.db[_id]"]
    idl = [s for s in walk_no_nested(rr.node) if isinstance(s, ast.Assign) and
           unparse(s.targets[0]) == "_id"]
    ok = len(rem) == 1 and unparse(rem[0].args[0]) == "_cn" and len(wr) == 1 \
        and unparse(wr[0].value) == "' '.join(vals)" and len(idl) == 1 and \
        unparse(idl[0].value) == "self.db[name_id.text]"
    run.check(ok, "R1", rr.qual + "::forward-updated",
              "the encoded NameID is removed from its owner's list",
              "forward update of remove_remote changed", rr.loc())
    # remove_local
    rl = m.func(ID + "remove_local")
    lcfg = cfg_of(rl, m)
    # loops / deletions that concern the database itself (what the method
    # does to other objects it keeps is R10's)
    loops = [l for l in walk_no_nested(rl.node) if isinstance(l, ast.For)
             and "self.db" in unparse(l.iter)]
    ok = len(loops) == 1 and unparse(loops[0].iter) == "self.db[sid].split(' ')"
    inner = [s for s in ast.walk(loops[0]) if isinstance(s, ast.Delete)
             and unparse(s.targets[0]).startswith("self.db[")] \
        if loops else []
    if ok and len(inner) == 1:
        dn = lcfg.node_of_stmt(inner[0])
        lv = unparse(loops[0].target)
        ok = dn is not None and lcfg.itext(inner[0].targets[0], dn.id) == \
            "self.db[decode(%s).text]" % lv
    else:
        ok = False
    outer = [s for s in walk_no_nested(rl.node) if isinstance(s, ast.Delete) and
             unparse(s.targets[0]) == "self.db[sid]"]
    run.check(ok and len(outer) == 1, "R1", rl.qual + "::both-directions",
              "every reverse entry of the user and then the forward entry are "
              "deleted", "remove_local no longer deletes both directions",
              rl.loc())
    # an entry that cannot be deleted (stale / empty token left by
    # remove_remote) must not abort the removal of the others and of the
    # user's own record
    if loops and outer:
        on = lcfg.node_of_stmt(outer[0])
        body = {id(x) for st in loops[0].body for x in ast.walk(st)}
        twins = [n for n in lcfg.nodes if n.kind == "exc" and
                 id(n.ast) in body]
        wit = None
        for tw in twins:
            # (the delete is "reached" whether it succeeds or raises itself)
            reached = {n.id for n in lcfg.nodes if n.ast is outer[0]}
            wit = wit or lcfg.path(tw.id, lcfg.return_exit, reached)
        run.check(wit is None and bool(twins), "R1",
                  rl.qual + "::entry-failure-does-not-abort",
                  "after a failing entry the loop goes on / the user's own "
                  "record is still deleted",
                  "a KeyError for one stored entry ends remove_local normally "
                  "without deleting the user's record: the ids keep resolving",
                  rl.loc(outer[0]),
                  witness=lcfg.describe_path(wit) if wit else None)


def code_is_injective(run, rule):
    """ident.code(): the value that is quoted is the field's own value, not a
    transformation of it (lower-casing, stripping, truncating ... make two
    different identifiers share one encoding).  Shared by C18.R2 and C19.R1."""
    m = run.model
    co = m.func("ident.code")
    cfg = cfg_of(co, m)
    n = 0
    for nd, c in cfg.call_nodes("quote"):
        if len(c.args) != 1:
            continue
        n += 1
        a = c.args[0]
        ok = isinstance(a, ast.Name)
        bad = []
        if ok:
            for d in cfg.rd.reaching(a.id, nd.id):
                v = d.value
                if not (d.kind == "assign" and isinstance(v, ast.Call) and
                        call_name(v) == "getattr" and len(v.args) >= 2 and
                        unparse(v.args[0]) == co.params()[0]):
                    bad.append(unparse(v) if v is not None else d.kind)
        else:
            bad.append(unparse(a))
        run.check(ok and not bad, rule, co.qual + "::value-unchanged",
                  "each field is encoded as it is (quote(getattr(item, field)))",
                  "the value that is encoded may be %s: two different "
                  "identifiers can get the same encoding (the map / cache key "
                  "is no longer one-to-one) and decode(code(x)) differs from x"
                  % bad, co.loc(c))
    run.count(rule + ".quote() calls in code()", n)


def r2_codec(run):
    run.rule("R2", "code/decode agree: same field table and indices, ',' and "
             "'=' separators, values quoted/unquoted, and no separator is in "
             "quote()'s safe set")
    m = run.model
    im = m.module("ident")
    co = m.func("ident.code")
    de = m.func("ident.decode")
    attr = im.assigns.get("ATTR", [None])[-1]
    fields = [e.value for e in attr.elts] if isinstance(attr, ast.List) else []
    run.check(fields == ["name_qualifier", "sp_name_qualifier", "format",
                         "sp_provided_id", "text"], "R2", "ident.ATTR",
              "the five NameID fields", "ATTR is %s" % fields, im.relpath)
    code_is_injective(run, "R2")
    csrc = unparse(co.node)
    quotes = [c for c in calls_named(co.node, "quote")]
    safe_ok = all(not c.keywords and len(c.args) == 1 for c in quotes)
    run.check(len(quotes) == 1 and safe_ok and
              unparse(quotes[0].args[0]) == "val", "R2", co.qual + "::quote",
              "every value passes quote() with the default safe set ('/')",
              "quote() call changed (a `safe=` argument may admit separators)",
              co.loc())
    run.check(im.imports.get("quote") == {"six.moves.urllib.parse.quote"} and
              im.imports.get("unquote") == {"six.moves.urllib.parse.unquote"},
              "R2", "ident.quote/unquote", "urllib quote/unquote",
              "quote/unquote resolve to %s / %s" % (im.imports.get("quote"),
                                                     im.imports.get("unquote")),
              im.relpath, nontrivial=False)
    # one loop over ATTR whose index counts EVERY field: either a counter that
    # starts at 0 and is incremented unconditionally at the end of the loop
    # body, or enumerate(ATTR)
    ccfg = cfg_of(co, m)
    loops = [l for l in walk_no_nested(co.node) if isinstance(l, ast.For)]
    idx = None
    why = "no single loop over ATTR"
    if len(loops) == 1:
        lp = loops[0]
        it = lp.iter
        if isinstance(it, ast.Name) and it.id == "ATTR":
            last = lp.body[-1]
            if isinstance(last, ast.AugAssign) and \
                    isinstance(last.op, ast.Add) and \
                    isinstance(last.target, ast.Name) and \
                    unparse(last.value) == "1":
                nm = last.target.id
                inits = [a for a in walk_no_nested(co.node)
                         if isinstance(a, ast.Assign) and
                         unparse(a.targets[0]) == nm]
                others = [a for a in walk_no_nested(co.node)
                          if isinstance(a, ast.AugAssign) and a is not last and
                          unparse(a.target) == nm]
                if len(inits) == 1 and unparse(inits[0].value) == "0" and \
                        not others and inits[0].lineno < lp.lineno:
                    idx = nm
                else:
                    why = "counter %s is not initialised to 0 exactly once" % nm
            else:
                why = "the counter is not incremented as the last, " \
                    "unconditional statement of the loop"
        elif isinstance(it, ast.Call) and call_name(it) == "enumerate" and \
                len(it.args) == 1 and unparse(it.args[0]) == "ATTR" and \
                not it.keywords and isinstance(lp.target, ast.Tuple) and \
                len(lp.target.elts) == 2 and \
                isinstance(lp.target.elts[0], ast.Name):
            idx = lp.target.elts[0].id
            rebind = [a for a in ast.walk(lp) if isinstance(a, ast.Name) and
                      a.id == idx and isinstance(a.ctx, ast.Store) and
                      a is not lp.target.elts[0]]
            if rebind:
                idx, why = None, "the enumerate index is re-bound in the loop"
    run.check(idx is not None, "R2", co.qual + "::index", "index counts every "
              "field (also empty ones)", "index increment moved: positions "
              "would shift when a field is empty (%s)" % why, co.loc())
    fmt_ok = False
    lst = None
    for nd, c in ccfg.call_nodes("append"):
        a = c.args[0] if c.args else None
        if isinstance(a, ast.BinOp) and isinstance(a.op, ast.Mod) and \
                isinstance(a.left, ast.Constant) and a.left.value == "%d=%s" \
                and isinstance(a.right, ast.Tuple) and len(a.right.elts) == 2 \
                and unparse(a.right.elts[0]) == (idx or "?") and \
                isinstance(a.right.elts[1], ast.Call) and \
                call_name(a.right.elts[1]) == "quote" and \
                isinstance(c.func.value, ast.Name):
            fmt_ok = True
            lst = c.func.value.id
    rets = ccfg.by_kind("return")
    run.check(fmt_ok and len(rets) == 1 and
              unparse(rets[0].ast.value) == "','.join(%s)" % lst, "R2",
              co.qual + "::format", "'<index>=<quoted>' joined by ','",
              "encoder format changed", co.loc())
    dsrc = unparse(de.node)
    dcfg = cfg_of(de, m)
    sa_ = [(dcfg.itext(c.args[1], nd.id), dcfg.itext(c.args[2], nd.id))
           for nd, c in dcfg.call_nodes("setattr") if len(c.args) == 3]
    un = [x for x in ast.walk(de.node) if isinstance(x, ast.Assign) and
          isinstance(x.targets[0], ast.Tuple) and
          len(x.targets[0].elts) == 2 and
          unparse(x.value) == "part.split('=')"]
    names = [e.id for e in un[0].targets[0].elts] if len(un) == 1 and all(
        isinstance(e, ast.Name) for e in un[0].targets[0].elts) else ["?", "?"]
    run.check("txt.split(',')" in dsrc and len(un) == 1 and
              sa_ == [("ATTR[int(%s)]" % names[0], "unquote(%s)" % names[1])],
              "R2",
              de.qual + "::format", "splits on ',' and '=', unquotes, indexes "
              "ATTR", "decoder format changed", de.loc())
    # list separator used by IdentDB
    seps = set()
    for fi in m.cls("ident.IdentDB").methods.values():
        for c in ast.walk(fi.node):
            if isinstance(c, ast.Call) and call_name(c) in ("split", "join") \
                    and isinstance(c.func, ast.Attribute):
                if call_name(c) == "split" and c.args and \
                        isinstance(c.args[0], ast.Constant):
                    seps.add(c.args[0].value)
                if call_name(c) == "join" and \
                        isinstance(c.func.value, ast.Constant):
                    seps.add(c.func.value.value)
    run.check(seps == {" "}, "R2", "ident.IdentDB::list-separator",
              "encoded ids are joined/split with ' ' (quoted by quote())",
              "list separators are %s" % sorted(seps), im.relpath)


def r3_freshness(run):
    run.rule("R3", "new identifiers derive from fresh random bytes and are "
             "re-drawn while already present")
    m = run.model
    fi = m.func(ID + "_create_id")
    cfg = cfg_of(fi, m)
    org = Origins(cfg, transparent={"sha256": "all", "hexdigest": "recv"})
    for r in cfg.by_kind("return"):
        got = org.of(r.ast.value, r.id)
        ok = any(a.kind == "call" and a.text == "rndbytes" for a in got)
        run.check(ok, "R3", fi.qual + "::entropy",
                  "digest is seeded with rndbytes(...)",
                  "identifier derives from %s (no fresh randomness)" %
                  sorted(a.text for a in got), fi.loc(r.ast))
    rb = [c for c in calls_named(fi.node, "rndbytes")]
    n = rb[0].args[0].value if rb and rb[0].args and \
        isinstance(rb[0].args[0], ast.Constant) else 0
    run.check(n >= 16, "R3", fi.qual + "::entropy-size",
              "%s random bytes" % n, "only %s random bytes" % n, fi.loc(),
              nontrivial=False)
    cr = m.func(ID + "create_id")
    # whatever the loop looks like: a value is returned only when it is not
    # already a key, and it is a fresh draw of _create_id
    ccfg = cfg_of(cr, m)
    corg = Origins(ccfg)
    rets = ccfg.by_kind("return")
    ok = bool(rets) and not [p for p in ccfg.pred[ccfg.return_exit]
                             if ccfg.nodes[p].kind != "return"]
    for r in rets:
        v = r.ast.value
        ok = ok and v is not None and \
            Q("%s in self.db" % unparse(v), False) in facts(ccfg, r.id) and \
            {(a.kind, a.text) for a in corg.of(v, r.id)} == \
            {("call", "self._create_id")}
    run.check(ok, "R3",
              cr.qual + "::retry-while-present",
              "re-drawn while the value is already a key",
              "collision retry loop changed", cr.loc())
    gn = m.func(ID + "get_nameid")
    cs = [c for c in calls_named(gn.node, "create_id")]
    st = [c for c in calls_named(gn.node, "store")]
    run.check(len(cs) == 1 and len(st) == 1 and
              [unparse(a) for a in st[0].args] == ["userid", "nameid"], "R3",
              gn.qual + "::issue", "a fresh id is created and stored for the "
              "user", "get_nameid no longer creates+stores", gn.loc())
    nid = [c for c in calls_named(gn.node, "NameID")]
    kws = {k.arg: unparse(k.value) for k in nid[0].keywords} if nid else {}
    run.check(kws == {"format": "nformat", "sp_name_qualifier":
                      "sp_name_qualifier", "name_qualifier": "name_qualifier",
                      "text": "_id"}, "R3", gn.qual + "::fields",
              "the NameID carries format and both qualifiers of the request",
              "NameID fields are %s" % kws, gn.loc())


def r4_persistent_stability(run):
    run.rule("R4", "a persistent identifier is looked up before a new one is "
             "issued; matching skips transient ids and compares both "
             "qualifiers with ==")
    m = run.model
    fi = m.func(ID + "persistent_nameid")
    cfg = cfg_of(fi, m)
    ml = cfg.call_nodes("match_local_id")
    gn = cfg.call_nodes("get_nameid")
    ok = len(ml) == 1 and len(gn) == 1 and \
        [unparse(a) for a in ml[0][1].args] == \
        ["userid", "sp_name_qualifier", "name_qualifier"]
    if ok:
        gs = facts(cfg, gn[0][0].id)
        ok = Q("nameid", False) in gs and \
            unparse(arg_of(gn[0][1], 1)) == "NAMEID_FORMAT_PERSISTENT"
        # what is handed back is the matched identifier, or the new one
        # (issued only when nothing matched, see above), or something the
        # object kept (whose invalidation is R10's): nothing else
        org = Origins(cfg)
        seen_match = False
        for r in cfg.by_kind("return"):
            if r.ast.value is None:
                ok = False
                continue
            for a in org.of(r.ast.value, r.id):
                if a.kind == "call" and a.text.split(".")[-1] == "match_local_id":
                    seen_match = True
                elif a.kind == "call" and a.text.split(".")[-1] == "get_nameid":
                    pass
                elif a.kind != "call" and a.ast is not None and \
                        unparse(a.ast).startswith("self._"):
                    pass
                else:
                    ok = False
        ok = ok and seen_match
    run.check(ok, "R4", fi.qual + "::lookup-first",
              "an existing identifier is returned; a new one only when none "
              "matches", "persistent_nameid no longer prefers the stored "
              "identifier", fi.loc())
    mf = m.func(ID + "match_local_id")
    mcfg = cfg_of(mf, m)
    src = unparse(mf.node)
    tr = [t for t in mcfg.by_kind("test")
          if unparse(t.ast) == "nid.format == NAMEID_FORMAT_TRANSIENT"]
    ok = bool(tr)
    if ok:
        tb = [b for b in mcfg.succ[tr[0].id] if mcfg.nodes[b].kind == "true"]
        rets = {r.id for r in mcfg.by_kind("return")
                if unparse(r.ast.value) == "nid"}
        nxt = mcfg.reachable_from(tb[0], avoid=[
            h.id for h in mcfg.by_kind("for")])
        ok = not (rets & nxt)
    run.check(ok, "R4", mf.qual + "::skips-transient",
              "transient identifiers are never returned as the persistent one",
              "a transient identifier can be returned by match_local_id",
              mf.loc())
    # however the four cases are spelled (nested ifs, `or` of two conjunctions,
    # a helper): a stored identifier is returned only if each qualifier equals
    # the requested one or both are unset - no path to `return nid` when a
    # qualifier mismatches
    rets = [r.id for r in mcfg.by_kind("return") if unparse(r.ast.value) == "nid"]
    run.floor("R4", "match returns", len(rets), 1)
    srcn = [t.id for t in mcfg.by_kind("foriter")] or [mcfg.entry]
    cases = [
        ("sp-qualifier-differs", {"snq": "T", "snq == sp_name_qualifier": "F"}),
        ("sp-qualifier-stored-absent-but-requested",
         {"snq": "F", "sp_name_qualifier": "T",
          "snq == sp_name_qualifier": "F"}),
        ("sp-qualifier-stored-but-none-requested",
         {"snq": "T", "sp_name_qualifier": "F",
          "snq == sp_name_qualifier": "F"}),
        ("name-qualifier-differs", {"nq": "T", "nq == name_qualifier": "F"}),
        ("name-qualifier-stored-absent-but-requested",
         {"nq": "F", "name_qualifier": "T", "nq == name_qualifier": "F"}),
        ("name-qualifier-stored-but-none-requested",
         {"nq": "T", "name_qualifier": "F", "nq == name_qualifier": "F"}),
    ]
    for cname, env in cases:
        wit = mcfg.flag_search(srcn[0], {}, lambda n, vd: n in rets, assume=env)
        run.check(wit is None, "R4", "%s::%s" % (mf.qual, cname),
                  "no identifier is returned in this mismatch case",
                  "an identifier is returned although %s: another SP's or "
                  "domain's identifier could be reused" % cname, mf.loc(),
                  witness=mcfg.describe_path(wit) if wit else None)
    # and the matching cases are reachable
    for cname, env in (
            ("both-equal", {"snq": "T", "snq == sp_name_qualifier": "T",
                            "nq": "T", "nq == name_qualifier": "T"}),
            ("both-unset", {"snq": "F", "sp_name_qualifier": "F",
                            "nq": "F", "name_qualifier": "F"})):
        wit = mcfg.flag_search(srcn[0], {}, lambda n, vd: n in rets, assume=env)
        run.check(wit is not None, "R4", "%s::%s" % (mf.qual, cname),
                  "a matching identifier is returned",
                  "no identifier is returned when the qualifiers are %s" %
                  cname, mf.loc(), nontrivial=False)
    run.check("self.db[userid].split(' ')" in src and "decode(val)" in src, "R4",
              mf.qual + "::scope", "searches only that user's identifiers",
              "match_local_id searches %s" % [unparse(l.iter) for l in
                                               walk_no_nested(mf.node)
                                               if isinstance(l, ast.For)],
              mf.loc())
    fl = m.func(ID + "find_local_id")
    run.check("return self.db[name_id.text]" in unparse(fl.node), "R4",
              fl.qual + "::reverse-lookup", "reverse lookup by the id text",
              "find_local_id changed", fl.loc())


def r5_manage_name_id(run):
    run.rule("R5", "manage-name-id: the original identifier (copied before "
             "mutation) is withdrawn and the modified one stored for the same "
             "user")
    m = run.model
    fi = m.func(ID + "handle_manage_name_id_request")
    cfg = cfg_of(fi, m)
    cp = [nd for nd in cfg.by_kind("stmt") if isinstance(nd.ast, ast.Assign) and
          unparse(nd.ast.targets[0]) == "orig_name_id" and
          unparse(nd.ast.value) == "copy.copy(name_id)"]
    muts = [nd for nd in cfg.by_kind("stmt") if isinstance(nd.ast, ast.Assign)
            and unparse(nd.ast.targets[0]) == "name_id.sp_provided_id"]
    rem = [nd for nd, c in cfg.call_nodes("remove_remote")
           if unparse(arg_of(c, 0)) == "orig_name_id"]
    sto = [nd for nd, c in cfg.call_nodes("store")
           if [unparse(a) for a in c.args] == ["_id", "name_id"]]
    ok = len(cp) == 1 and muts and rem and sto and \
        all(cfg.dominates(cp[0].id, x.id) for x in muts) and \
        cfg.dominates(rem[0].id, sto[0].id)
    run.check(ok, "R5", fi.qual + "::sequence",
              "copy -> mutate -> remove_remote(original) -> store(user, "
              "modified)", "manage-name-id sequence changed", fi.loc())
    idl = [s for s in walk_no_nested(fi.node) if isinstance(s, ast.Assign) and
           unparse(s.targets[0]) == "_id"]
    run.check(len(idl) == 1 and unparse(idl[0].value) ==
              "self.find_local_id(name_id)", "R5", fi.qual + "::same-user",
              "the user is the owner of the original identifier",
              "_id <- %s" % [unparse(s.value) for s in idl], fi.loc(),
              nontrivial=False)


def r6_no_undefined_names(run):
    run.rule("R6", "the state-holder modules reference no undefined global "
             "name (an operation would raise NameError instead of running)")
    m = run.model
    for modname in ("ident", "cache", "population", "sdb"):
        mi = m.module(modname)
        defined = set(mi.functions) | set(mi.classes) | set(mi.assigns) | \
            set(mi.imports) | set(dir(builtins)) | {"__name__", "__file__",
                                                    "__doc__"}
        for node in ast.walk(mi.tree):
            if isinstance(node, (ast.For, ast.With, ast.comprehension)):
                pass
        try:
            top = symtable.symtable(mi.source, mi.path, "exec")
        except SyntaxError as e:
            run.undecided("R6", modname, "symtable failed: %s" % e, mi.relpath)
            continue
        undefined = set()

        def walk(tab):
            for sym in tab.get_symbols():
                if tab.get_type() == "function" or tab.get_type() == "class":
                    if sym.is_global() and sym.is_referenced() and \
                            sym.get_name() not in defined and \
                            not sym.is_assigned():
                        undefined.add((sym.get_name(), tab.get_name()))
            for ch in tab.get_children():
                walk(ch)
        for t in top.get_symbols():
            if t.is_assigned() or t.is_imported():
                defined.add(t.get_name())
        walk(top)
        guarded = set()
        for name, where in sorted(undefined):
            # allowed only under an explicit `six.PY2` guard
            ok = False
            for fi in m.funcs.values():
                if fi.module == mi.name and fi.name == where:
                    for t in walk_no_nested(fi.node):
                        if isinstance(t, (ast.If, ast.IfExp)) and \
                                "PY2" in unparse(t.test) and \
                                name in unparse(t):
                            ok = True
            run.check(ok, "R6", "%s.%s::%s" % (modname, where, name),
                      "only referenced under a six.PY2 guard",
                      "name %r is not defined anywhere (NameError at run time)"
                      % name, mi.relpath)
        if not undefined:
            run.holds("R6", modname, "no undefined global names", mi.relpath)


def r7_mapping_request_scope(run):
    run.rule("R7", "a NameID mapping request is answered with an existing "
             "identifier only when that identifier's format and SPNameQualifier "
             "equal the ones of the request's policy (an absent qualifier "
             "matches only unqualified identifiers): no SP obtains the "
             "identifier issued for another SP")
    m = run.model
    fi = m.func(ID + "handle_name_id_mapping_request")
    cfg = cfg_of(fi, m)
    org = Origins(cfg, transparent={"decode": None})
    n = 0
    for r in cfg.by_kind("return"):
        v = r.ast.value
        if v is None:
            continue
        got = org.of(v, r.id)
        stored = [a for a in got if a.kind == "call" and
                  (a.text == "decode" or a.text.endswith("find_nameid") or
                   a.text.endswith("match_local_id"))]
        if not stored:
            continue
        n += 1
        fs = facts(cfg, r.id)
        vt = unparse(v)
        ok = all(Q("%s.%s == name_id_policy.%s" % (vt, f, f)) in fs
                 for f in ("format", "sp_name_qualifier"))
        run.check(ok, "R7", "%s::%s" % (fi.qual, norm_text(r.ast)),
                  "returned only under equality of format and sp_name_qualifier "
                  "with the policy",
                  "a stored identifier (%s) is returned under %s: the "
                  "identifier of another SP can be handed to the requester" %
                  (sorted(a.text for a in stored), sorted(fs)), fi.loc(r.ast))
    run.floor("R7", "returns of a stored identifier", n, 1)


def r8_find_nameid_all_criteria(run):
    run.rule("R8", "find_nameid returns an identifier only if EVERY given "
             "criterion matches it (the per-SP identifier lookup of the IdP "
             "filters on SPNameQualifier and Format together)")
    m = run.model
    fi = m.func(ID + "find_nameid")
    cfg = cfg_of(fi, m)
    apps = [(nd, c) for nd, c in cfg.call_nodes("append")]
    run.floor("R8", "result appends in find_nameid", len(apps), 1)
    # per-criterion comparison `getattr(nid, key, None) != _val` (any spelling)
    cmps = []
    for n in cfg.nodes:
        if n.kind not in ("true", "false"):
            continue
        for e, p in cfg.branch_atom_asts(n.id):
            if isinstance(e, ast.Compare) and isinstance(e.ops[0], ast.Eq) and \
                    any(isinstance(x, ast.Call) and call_name(x) == "getattr"
                        for x in (e.left, e.comparators[0])):
                cmps.append((n, p))
    setops = [x for x in ast.walk(fi.node)
              if (isinstance(x, ast.BinOp) and isinstance(x.op, (ast.BitAnd,
                                                                  ast.BitOr)))
              or (isinstance(x, ast.Call) and call_name(x) in
                  ("intersection", "isdisjoint", "union"))]
    key = fi.qual + "::every-criterion"
    if not cmps:
        if setops:
            run.violated("R8", key, "criteria are compared as sets with %s: an "
                         "identifier that matches ANY criterion is returned "
                         "(another SP's identifier of the same format)" %
                         [unparse(x)[:40] for x in setops], fi.loc())
        else:
            run.undecided("R8", key, "no per-criterion comparison found in "
                          "find_nameid", fi.loc())
        return
    mism = [n.id for n, p in cmps if p is False]    # branch taken on mismatch
    outer = [l.id for l in cfg.by_kind("for")]
    exc = {n.id for n in cfg.nodes if n.kind == "exc"}
    wit = None
    for s in mism:
        for nd, c in apps:
            # within the same candidate: do not go round the outer loop
            heads = [h for h in outer
                     if not any(cfg.dominates(h, s) and
                                cfg.nodes[h].ast is l.ast
                                for l in cfg.by_kind("foriter")
                                if "kwargs" in unparse(l.ast.iter))]
            wit = wit or cfg.path(s, nd.id, set(heads) | exc)
    run.check(bool(mism) and wit is None, "R8", key,
              "a criterion that does not match excludes the candidate",
              "after a criterion that does not match, the candidate can still "
              "be appended to the result", fi.loc(),
              witness=cfg.describe_path(wit) if wit else None)


def check(run):
    run.explanation = (
        "C18: ownership of the identifier map (who writes it) and the pairing "
        "of forward/reverse updates in store/remove_remote/remove_local, "
        "agreement of code/decode (field table, separators, quoting, safe "
        "set), freshness source and retry loop, persistent-id lookup-before-"
        "issue and qualifier equality, manage-name-id sequence, undefined-name "
        "scan (symtable). Not decided: operation histories, uniqueness of "
        "values at run time, the shared key space of user ids and id texts.")
    run.assumptions = ["urllib quote() escapes ',', '=', ' ' and '%'"]
    r1_two_directions(run)
    r2_codec(run)
    r3_freshness(run)
    r4_persistent_stability(run)
    r5_manage_name_id(run)
    r6_no_undefined_names(run)
    r7_mapping_request_scope(run)
    r8_find_nameid_all_criteria(run)
    from ..common_rules import shared_state_rule
    shared_state_rule(run, "R9", {"ident"}, "identifier database operations")
    from ..common_rules import derived_state_rule
    derived_state_rule(run, "R10", "ident.IdentDB", {"db"},
                       ["remove_remote", "remove_local"],
                       "the identifier database")
