"""C05 - Responses are accepted only if addressed to this SP and solicited."""
import ast

from ..match import facts, Q, just, result_reaches
from ..srcmodel import attr_chain, call_name, unparse, norm_text, walk_no_nested
from ..cfg import cfg_of, raised_class
from ..dataflow import Origins
from .. import excflow
from ..match import (calls_named, arg_of, mentions, mentions_attr,
                     unguarded_path, only_raises_from, is_true_const,
                     is_falsy_const, compare_parts)

AR = "response.AuthnResponse."


def r1_solicitation_gate(run):
    run.rule("R1", "over a browser binding a response whose InResponseTo is "
             "not outstanding is refused unless allow_unsolicited is set")
    m = run.model
    fi = m.func(AR + "loads")
    cfg = cfg_of(fi, m)
    known = "self.in_response_to in self.outstanding_queries"
    from .. import canon
    tests = set()
    for t in cfg.by_kind("test"):
        for conj in canon._dnf(t.ast, True):
            tests |= {canon.ctext(e) for e, _ in conj}
    run.require("self.asynchop" in tests, "loads: the test of self.asynchop "
                "vanished")
    key = fi.qual + "::unknown-irt+not-allowed=>reject"
    if known not in tests:
        run.violated("R1", key, "loads no longer tests `%s`" % known, fi.loc())
        return
    wit = cfg.flag_search(cfg.entry, {}, lambda n, vd: n == cfg.return_exit,
                          assume={"self.asynchop": "T", known: "F",
                                  "self.allow_unsolicited": "F"})
    run.check(wit is None, "R1", key,
              "no normal return for an unknown InResponseTo when unsolicited "
              "responses are not allowed",
              "loads() returns normally for a response whose InResponseTo is "
              "not outstanding although allow_unsolicited is off", fi.loc(),
              witness=cfg.describe_path(wit) if wit else None)
    ur = [r for r in cfg.by_kind("raise")
          if raised_class(r.ast) == "UnsolicitedResponse"]
    run.check(len(ur) >= 2, "R1", fi.qual + "::UnsolicitedResponse",
              "%d raise sites" % len(ur), "UnsolicitedResponse raise removed",
              fi.loc(), nontrivial=False)
    # came_from recorded from the outstanding query
    hits = [nd for nd in cfg.by_kind("stmt") if isinstance(nd.ast, ast.Assign)
            and any(attr_chain(t) == "self.came_from" for t in nd.ast.targets)]
    for nd in hits:
        gs = facts(cfg, nd.id)
        run.check((known, True) in gs and unparse(nd.ast.value) ==
                  "self.outstanding_queries[self.in_response_to]", "R1",
                  fi.qual + "::came_from", "came_from only from the "
                  "outstanding request", "came_from set from %s under %s" %
                  (unparse(nd.ast.value), sorted(gs)), fi.loc(nd.ast))
    # in_response_to is the response's own attribute
    pm = m.func("response.StatusResponse._postamble")
    vals = [s.value for s in walk_no_nested(pm.node) if isinstance(s, ast.Assign)
            and any(attr_chain(t) == "self.in_response_to" for t in s.targets)]
    run.check(vals and all(unparse(v) == "self.response.in_response_to"
                           for v in vals), "R1", pm.qual + "::in_response_to",
              "taken from the parsed response", "in_response_to <- %s" %
              [unparse(v) for v in vals], pm.loc())


def r2_scd_in_response_to(run):
    run.rule("R2", "every SubjectConfirmationData/@InResponseTo must equal the "
             "response's InResponseTo (for-all shape, == comparison), and a "
             "false result refuses the response")
    m = run.model
    fi = m.func(AR + "check_subject_confirmation_in_response_to")
    cfg = cfg_of(fi, m)
    loops = [n for n in walk_no_nested(fi.node) if isinstance(n, ast.For)]
    in_loop = {id(x) for l in loops for x in ast.walk(l)}
    trues = [r for r in cfg.by_kind("return") if is_true_const(r.ast.value)]
    key = fi.qual + "::for-all"
    run.check(trues and all(id(r.ast) not in in_loop for r in trues) and
              len(loops) >= 2, "R2", key,
              "`return True` only after both loops",
              "`return True` inside a loop (exists-shape) or loops removed",
              fi.loc())
    # the comparison
    cmps = []
    for n in walk_no_nested(fi.node):
        if isinstance(n, ast.Compare) and len(n.ops) == 1 and \
                "in_response_to" in unparse(n):
            cmps.append(n)
    ok = len(cmps) == 1
    detail = ""
    if ok:
        c = cmps[0]
        holder = [nd for nd in cfg.nodes if nd.kind not in ("true", "false", "exc")
                  and nd.ast is not None and any(
                      x is c for r0 in cfg.own_exprs(nd) for x in ast.walk(r0))]
        at = holder[0].id if holder else cfg.entry
        sides = {cfg.itext(c.left, at), cfg.itext(c.comparators[0], at)}
        ok = "irp" in sides and any(
            s.endswith("subject_confirmation_data.in_response_to") for s in sides)
        detail = unparse(c)
        # find how it is used: assert (==) or if (!=)
        parent_assert = [a for a in walk_no_nested(fi.node)
                         if isinstance(a, ast.Assert) and a.test is c]
        parent_if = [a for a in walk_no_nested(fi.node)
                     if isinstance(a, ast.If) and a.test is c]
        if parent_assert:
            ok = ok and isinstance(c.ops[0], ast.Eq)
            hs = excflow.handlers_of(fi, m)
            ok = ok and any("AssertionError" in h.caught and
                            h.dispositions == {"return-falsy"} for h in hs)
        elif parent_if:
            ok = ok and isinstance(c.ops[0], ast.NotEq)
            tn = [t for t in cfg.by_kind("test") if t.ast is c]
            ok = ok and tn and all(
                not ({r.id for r in trues} & cfg.reachable_from(b))
                for b in cfg.succ[tn[0].id] if cfg.nodes[b].kind == "true")
        else:
            ok = False
    run.check(ok, "R2", fi.qual + "::equality",
              "mismatch => return False (%s)" % detail,
              "the InResponseTo comparison is not an equality whose failure "
              "returns False: %s" % [unparse(c) for c in cmps], fi.loc())
    # caller
    ld = m.func(AR + "loads")
    lcfg = cfg_of(ld, m)
    calls = lcfg.call_nodes("check_subject_confirmation_in_response_to")
    key = ld.qual + "::check-result"
    if not calls:
        run.violated("R2", key, "loads() no longer calls the check", ld.loc())
        return
    nd, c = calls[0]
    excs = [x.id for x in lcfg.nodes if x.kind == "exc"]
    ok = lcfg.same(arg_of(c, 0), nd.id, "self.in_response_to") and \
        result_reaches(lcfg, nd.id, c, [lcfg.return_exit], "F",
                       avoid=excs) is None
    run.check(ok, "R2", key, "a false result raises UnsolicitedResponse",
              "a false result of the check does not refuse the response",
              ld.loc(c))
    # the check is not skippable: every solicited accepting path completes it
    known = "self.in_response_to in self.outstanding_queries"
    srcs = [b.id for b in lcfg.nodes if b.kind in ("true", "false") and
            Q(known, True) in lcfg.branch_atoms(b.id)]
    run.require(srcs, "loads: solicited branch vanished")
    wit = unguarded_path(lcfg, srcs[0], [lcfg.return_exit], [nd.id],
                         lambda e, pol: False)
    run.check(wit is None, "R2", ld.qual + "::check-not-skippable",
              "every solicited path completes the check",
              "the SubjectConfirmationData InResponseTo check can be skipped: "
              "an AttributeError raised while walking the confirmations (e.g. "
              "a first confirmation without data) is swallowed and the "
              "remaining confirmations are never compared", ld.loc(c),
              witness=lcfg.describe_path(wit) if wit else None)


def r3_destination(run):
    run.rule("R3", "over a browser binding a present Destination must match "
             "the configured pattern or be one of the own endpoints - "
             "independently of allow_unsolicited")
    m = run.model
    fv = m.func("response.StatusResponse._verify")
    cfg = cfg_of(fv, m)
    acc = [r.id for r in cfg.by_kind("return") if unparse(r.ast.value) == "self"]
    calls = cfg.call_nodes("_validate_destination")
    key = fv.qual + "::destination-gate"
    if not calls:
        run.violated("R3", key, "_verify no longer validates the destination",
                     fv.loc())
    else:
        nd, c = calls[0]
        wit = cfg.flag_search(cfg.entry, {}, lambda n, vd: n in acc,
                              assume={"self.asynchop": "T",
                                      "self._validate_destination()": "F"})
        run.check(wit is None, "R3", key,
                  "asynchop and invalid destination => not accepted",
                  "`return self` reachable although _validate_destination() "
                  "is false on a browser binding", fv.loc(c),
                  witness=cfg.describe_path(wit) if wit else None)
        gs = [unparse(e) for e, p, _ in cfg.guards(nd.id)]
        run.check(not any("allow_unsolicited" in g for g in gs), "R3",
                  key + "::independent", "not conditional on allow_unsolicited",
                  "destination check is conditional on %s" % gs, fv.loc(c))
    fd = m.func("response.StatusResponse._validate_destination")
    dcfg = cfg_of(fd, m)
    run.check(not mentions_attr(fd.node, "allow_unsolicited"), "R3",
              fd.qual + "::independent", "does not read allow_unsolicited",
              "_validate_destination reads allow_unsolicited", fd.loc())
    dest = "self.response.destination"
    trues = [r.id for r in dcfg.by_kind("return") if not
             is_falsy_const(r.ast.value)] + \
        [dcfg.return_exit] if False else \
        [r.id for r in dcfg.by_kind("return") if not is_falsy_const(r.ast.value)]
    run.require(trues, "_validate_destination: truthy return vanished")
    notin = dest + " not in self.return_addrs"
    tests = {unparse(t.ast) for t in dcfg.by_kind("test")}
    key = fd.qual + "::foreign=>False"
    if notin not in tests and (dest + " in self.return_addrs") not in tests:
        run.violated("R3", key, "membership of the destination in the own "
                     "endpoints is no longer tested", fd.loc())
    else:
        wit = dcfg.flag_search(
            dcfg.entry, {}, lambda n, vd: n in trues,
            assume={dest: "T", "self.valid_destination_regex is not None": "F",
                    notin: "T", dest + " in self.return_addrs": "F"})
        run.check(wit is None, "R3", key,
                  "a present destination outside return_addrs is refused",
                  "truthy result for a destination that is not one of the own "
                  "endpoints (no pattern configured)", fd.loc(),
                  witness=dcfg.describe_path(wit) if wit else None)
    srch = [c for c in calls_named(fd.node, "search", "match", "fullmatch")]
    ok = len(srch) == 1 and [unparse(a) for a in srch[0].args] == \
        ["self.valid_destination_regex", dest]
    run.check(ok, "R3", fd.qual + "::pattern-args",
              "re.search(pattern, destination)",
              "pattern match is %s" % [unparse(c) for c in srch], fd.loc())
    if ok:
        # whatever name (if any) the result is kept under: a failed search
        # (falsy result) must not reach a truthy return
        wit = dcfg.flag_search(
            dcfg.entry, {}, lambda n, vd: n in trues,
            assume={dest: "T", "self.valid_destination_regex is not None": "T",
                    unparse(srch[0]): "F"})
        run.check(wit is None, "R3", fd.qual + "::pattern-mismatch=>False",
                  "a destination not matching the pattern is refused",
                  "truthy result although the destination does not match the "
                  "configured pattern", fd.loc(),
                  witness=dcfg.describe_path(wit) if wit else None)


def r4_audience_independent(run):
    run.rule("R4", "every assertion's audience restriction is checked with "
             "for_me(conditions, self.entity_id), independently of "
             "allow_unsolicited; a false result raises")
    m = run.model
    fi = m.func(AR + "condition_ok")
    cfg = cfg_of(fi, m)
    calls = [(nd, c) for nd, c in cfg.call_nodes("for_me")]
    key = fi.qual + "::for_me"
    if not calls:
        run.violated("R4", key, "condition_ok no longer calls for_me()", fi.loc())
        return
    nd, c = calls[0]
    args = [unparse(a) for a in c.args]
    run.check(args == ["conditions", "self.entity_id"], "R4", key + "::args",
              "for_me(conditions, self.entity_id)", "for_me(%s)" % args,
              fi.loc(c))
    gs = [(unparse(e), p) for e, p, _ in cfg.guards(nd.id)]
    bad = [g for g, p in gs if "allow_unsolicited" in g]
    run.check(not bad, "R4", key + "::independent",
              "audience check does not depend on allow_unsolicited",
              "the audience check is skipped when allow_unsolicited is set "
              "(guard %s): an SP that accepts IdP-initiated logins would accept "
              "assertions addressed to other SPs" % bad, fi.loc(c))
    accept = [r.id for r in cfg.by_kind("return") if is_true_const(r.ast.value)]
    wit = unguarded_path(
        cfg, cfg.entry, accept, [nd.id],
        just(cfg, ("self.assertion.conditions", False),
             ("conditions.keyswv()", False)))
    run.check(wit is None, "R4", key + "::on-every-path",
              "every accepting path with Conditions evaluates for_me()",
              "an accepting path skips the audience check", fi.loc(),
              witness=cfg.describe_path(wit) if wit else None)
    wit = cfg.flag_search(cfg.entry, {"lax": "F"}, lambda n, vd: n in accept,
                          assume={unparse(c): "F", "self.test": "F",
                                  "not self.assertion.conditions": "F",
                                  "not conditions.keyswv()": "F"})
    run.check(wit is None, "R4", key + "::false=>raise",
              "a false for_me() result raises (lax closed by C04.R4)",
              "`return True` reachable although for_me() is false", fi.loc(c),
              witness=cfg.describe_path(wit) if wit else None)
    ei = m.func(AR + "__init__")
    vals = [s.value for s in walk_no_nested(ei.node) if isinstance(s, ast.Assign)
            and any(attr_chain(t) == "self.entity_id" for t in s.targets)]
    run.check(vals and all(unparse(v) == "entity_id" for v in vals), "R4",
              ei.qual + "::entity_id", "own entity id stored unchanged",
              "self.entity_id <- %s" % [unparse(v) for v in vals], ei.loc(),
              nontrivial=False)


def r5_for_me_forall(run):
    run.rule("R5", "for_me: EVERY AudienceRestriction must list this entity "
             "(for-all over restrictions, exists over audiences, == comparison)")
    m = run.model
    fi = m.func("response.for_me")
    cfg = cfg_of(fi, m)
    outer = [n for n in fi.node.body if isinstance(n, ast.For)]
    key = fi.qual + "::for-all-restrictions"
    alt = [n for n in walk_no_nested(fi.node) if isinstance(n, ast.Call) and
           call_name(n) == "all"]
    if not outer and alt:
        ok = any(isinstance(a, (ast.GeneratorExp, ast.ListComp)) and
                 any(isinstance(x, ast.Call) and call_name(x) == "any"
                     for x in ast.walk(a.elt)) for c in alt for a in c.args)
        run.check(ok, "R5", key, "all(any(...)) idiom",
                  "all(...) without an inner any(...) over audiences", fi.loc())
        return
    if len(outer) != 1 or "audience_restriction" not in unparse(outer[0].iter):
        run.violated("R5", key, "loop over conditions.audience_restriction "
                     "vanished", fi.loc())
        return
    loop = outer[0]
    # (the loop's own else clause runs after the last restriction: it is the
    # "all of them matched" exit, not part of an iteration)
    inside = {id(x) for st in loop.body for x in ast.walk(st)}
    bad = [r for r in cfg.by_kind("return")
           if id(r.ast) in inside and not is_falsy_const(r.ast.value)]
    run.check(not bad, "R5", key,
              "no truthy return inside the loop over restrictions",
              "`return True` inside the loop over restrictions: one matching "
              "restriction suffices although another one names somebody else",
              fi.loc(bad[0].ast) if bad else fi.loc())
    # a restriction without a match must lead to a falsy return
    inner = [n for n in ast.walk(loop) if isinstance(n, ast.For) and n is not loop]
    ok = len(inner) == 1 and "audience" in unparse(inner[0].iter)
    cmp_ok = False
    if ok:
        for c in ast.walk(inner[0]):
            if isinstance(c, ast.Compare) and len(c.ops) == 1 and \
                    isinstance(c.ops[0], ast.Eq):
                sides = {unparse(c.left), unparse(c.comparators[0])}
                if "myself" in sides and any("audience.text" in s for s in sides):
                    cmp_ok = True
        # exhausted inner loop => falsy return
        ex = [n for n in cfg.by_kind("exhausted") if n.ast is inner[0]]
        ok = bool(ex)
        if ok:
            # from the exhausted node, before the next outer iteration, a
            # falsy return must be the only way forward
            nxt = cfg.reachable_from(ex[0].id, avoid=[
                h.id for h in cfg.by_kind("for") if h.ast is loop])
            rets = [cfg.nodes[x] for x in nxt if cfg.nodes[x].kind == "return"]
            ok = rets and all(is_falsy_const(r.ast.value) for r in rets) and \
                not any(cfg.nodes[x].kind == "for" and cfg.nodes[x].ast is loop
                        for x in cfg.succ[ex[0].id])
            outer_h = [h.id for h in cfg.by_kind("for") if h.ast is loop]
            p = cfg.path(ex[0].id, outer_h[0]) if outer_h else None
            ok = ok and p is None
    run.check(ok, "R5", fi.qual + "::unmatched-restriction=>False",
              "a restriction naming nobody equal to this entity returns False",
              "a restriction without a matching audience does not lead to a "
              "falsy return", fi.loc(loop))
    run.check(cmp_ok, "R5", fi.qual + "::equality",
              "audience.text.strip() == myself",
              "audience comparison is not an equality with the own entity id",
              fi.loc(loop))
    # final return truthy only after the loop; no-restriction => True
    finals = [r for r in cfg.by_kind("return") if id(r.ast) not in inside]
    run.check(any(is_true_const(r.ast.value) for r in finals), "R5",
              fi.qual + "::all-satisfied=>True",
              "all restrictions satisfied => True",
              "for_me can no longer return True", fi.loc(), nontrivial=False)


def r6_recipient(run):
    run.rule("R6", "a confirmation is accepted only with a Recipient that "
             "verify_recipient() accepts; with conversation info that means the "
             "own entity id or an own endpoint")
    m = run.model
    fi = m.func(AR + "get_subject")
    cfg = cfg_of(fi, m)
    apps = [(nd, c) for nd, c in cfg.call_nodes("append")
            if attr_chain(c.func) == "subjconf.append"]
    run.floor("R6", "subjconf.append sites", len(apps), 1)
    for nd, c in apps:
        gs = facts(cfg, nd.id)
        ok = Q("_recip", True) in gs and \
            Q("self.verify_recipient(_recip)", True) in gs
        run.check(ok, "R6", fi.qual + "::recipient-gate",
                  "append dominated by `_recip and verify_recipient(_recip)`",
                  "confirmation accepted under guards %s (recipient not "
                  "verified)" % sorted(gs), fi.loc(c))
    recs = [s for s in walk_no_nested(fi.node) if isinstance(s, ast.Assign) and
            isinstance(s.targets[0], ast.Name) and s.targets[0].id == "_recip"]
    run.check(len(recs) == 1 and unparse(recs[0].value) == "_data.recipient",
              "R6", fi.qual + "::_recip", "_recip = _data.recipient",
              "_recip <- %s" % [unparse(r.value) for r in recs], fi.loc(),
              nontrivial=False)
    # subject.subject_confirmation replaced by the accepted ones
    rep = [s for s in walk_no_nested(fi.node) if isinstance(s, ast.Assign) and
           unparse(s.targets[0]) == "subject.subject_confirmation"]
    run.check(len(rep) == 1 and unparse(rep[0].value) == "subjconf", "R6",
              fi.qual + "::keep-only-accepted",
              "only accepted confirmations are kept",
              "subject_confirmation <- %s" % [unparse(r.value) for r in rep],
              fi.loc(), nontrivial=False)
    nov = [r for r in cfg.by_kind("raise")
           if "No valid subject confirmation" in unparse(r.ast)]
    run.check(bool(nov), "R6", fi.qual + "::none-accepted=>raise",
              "no accepted confirmation raises", "the empty case no longer "
              "raises", fi.loc(), nontrivial=False)
    fv = m.func(AR + "verify_recipient")
    vcfg = cfg_of(fv, m)
    ok_guards = ({Q("recipient == self.conv_info['entity_id']")[0]},
                 {Q("recipient in self.return_addrs")[0]})
    n = 0
    for r in vcfg.by_kind("return"):
        if is_falsy_const(r.ast.value):
            continue
        gs = facts(vcfg, r.id, inline=True)
        if Q("self.conv_info", False) in gs or Q("not self.conv_info", True) in gs:
            continue
        n += 1
        pos = {g for g, p in gs if p}
        which = [sorted(og)[0] for og in ok_guards if og <= pos]
        run.check(bool(which), "R6",
                  fv.qual + "::" + norm_text(r.ast) + "@" +
                  (which[0] if which else ",".join(sorted(pos)))[:80],
                  "True only for the own entity id / an own endpoint",
                  "verify_recipient returns %s under %s" %
                  (unparse(r.ast.value), sorted(gs)), fv.loc(r.ast))
    run.floor("R6", "truthy returns with conversation info", n, 2)
    wit = vcfg.flag_search(
        vcfg.entry, {}, lambda nn, vd: nn == vcfg.return_exit and False,
        assume={})
    # falls through to False
    last = [r for r in vcfg.by_kind("return") if is_falsy_const(r.ast.value)]
    run.check(bool(last), "R6", fv.qual + "::default-False",
              "otherwise False", "no falsy default", fv.loc(), nontrivial=False)


def r7_own_endpoints(run):
    run.rule("R7", "return_addrs are the provider's own configured endpoints "
             "for the service and binding")
    m = run.model
    fi = m.func("entity.Entity._parse_response")
    hits = [s for s in walk_no_nested(fi.node) if isinstance(s, ast.Assign) and
            unparse(s.targets[0]) == "kwargs['return_addrs']"]
    ok = len(hits) == 1 and isinstance(hits[0].value, ast.Call) and \
        attr_chain(hits[0].value.func) == "self.config.endpoint"
    if ok:
        c = hits[0].value
        ok = unparse(arg_of(c, 0, "service")) == "service" and \
            unparse(arg_of(c, 1, "binding")) == "binding" and \
            unparse(arg_of(c, 2, "context")) == "self.entity_type"
    run.check(ok, "R7", fi.qual + "::return_addrs",
              "config.endpoint(service, binding, own entity type)",
              "return_addrs <- %s" % [unparse(h.value) for h in hits], fi.loc())
    su = m.func("client_base.Base.service_urls")
    cfg = cfg_of(su, m)
    org = Origins(cfg)
    for r in cfg.by_kind("return"):
        if is_falsy_const(r.ast.value):
            continue
        atoms = org.of(r.ast.value, r.id)
        ok = len(atoms) == 1 and list(atoms)[0].kind == "call" and \
            list(atoms)[0].text == "self.config.endpoint"
        if ok:
            c = list(atoms)[0].ast
            got = [arg_of(c, 0, "service"), arg_of(c, 1, "binding"),
                   arg_of(c, 2, "context")]
            ok = [unparse(a) if a is not None else None for a in got] == \
                ["'assertion_consumer_service'", "binding", "'sp'"]
        run.check(ok, "R7", su.qual + "::return",
                  "config.endpoint('assertion_consumer_service', binding, 'sp')",
                  "service_urls returns %s" % sorted(a.text for a in atoms),
                  su.loc(r.ast))
    pr = m.func("client_base.Base.parse_authn_request_response")
    kd = [n for n in walk_no_nested(pr.node) if isinstance(n, ast.Dict)]
    val = None
    for d in kd:
        for k, v in zip(d.keys, d.values):
            if isinstance(k, ast.Constant) and k.value == "return_addrs":
                val = v
    run.check(val is not None and isinstance(val, ast.Call) and
              attr_chain(val.func) == "self.service_urls" and
              arg_of(val, 0, "binding") is not None and
              unparse(arg_of(val, 0, "binding")) == "binding", "R7",
              pr.qual + "::return_addrs", "service_urls(binding=binding)",
              "return_addrs <- %s" % unparse(val), pr.loc())
    si = m.func("response.StatusResponse.__init__")
    vals = [s.value for s in walk_no_nested(si.node) if isinstance(s, ast.Assign)
            and any(attr_chain(t) == "self.return_addrs" for t in s.targets)]
    run.check(vals and all(unparse(v) == "return_addrs" for v in vals), "R7",
              si.qual + "::self.return_addrs", "stored unchanged",
              "self.return_addrs <- %s" % [unparse(v) for v in vals], si.loc(),
              nontrivial=False)
    # endpoint(): binding filter
    ep = m.func("config.Config.endpoint")
    ecfg = cfg_of(ep, m)
    for nd, c in ecfg.call_nodes("append"):
        if attr_chain(c.func) != "spec.append":
            continue
        gs = {(unparse(e), p) for e, p in
              [(e, p) for e, p, _ in ecfg.guards(nd.id)]}
        ok = any("bind == binding" in g and p for g, p in gs)
        run.check(ok, "R7", ep.qual + "::binding-filter",
                  "endpoint kept only for the requested binding",
                  "endpoint appended under %s" % sorted(gs), ep.loc(c))


def r8_came_from(run):
    run.rule("R8", "_assertion: over a browser binding, without "
             "allow_unsolicited, an assertion that could not be tied to an "
             "outstanding request is refused")
    m = run.model
    fi = m.func(AR + "_assertion")
    cfg = cfg_of(fi, m)
    acc = [r.id for r in cfg.by_kind("return") if is_true_const(r.ast.value)]
    run.require(acc, "_assertion: `return True` vanished")
    wit = cfg.flag_search(cfg.entry, {}, lambda n, vd: n in acc,
                          assume={"self.asynchop": "T",
                                  "self.allow_unsolicited": "F",
                                  "self.came_from is None": "T"})
    run.check(wit is None, "R8", fi.qual + "::came_from-gate",
              "came_from None => VerificationError",
              "`return True` reachable with came_from None although "
              "unsolicited responses are not allowed", fi.loc(),
              witness=cfg.describe_path(wit) if wit else None)
    fb = m.func(AR + "_bearer_confirmed")
    bcfg = cfg_of(fb, m)
    bacc = [r.id for r in bcfg.by_kind("return") if is_true_const(r.ast.value)]
    wit = bcfg.flag_search(
        bcfg.entry, {}, lambda n, vd: n in bacc,
        assume={"self.asynchop": "T", "self.came_from is None": "T",
                "data.in_response_to": "T",
                "data.in_response_to in self.outstanding_queries": "F",
                "self.allow_unsolicited": "F"})
    run.check(wit is None, "R8", fb.qual + "::unknown-request",
              "a bearer confirmation naming an unknown request is refused",
              "a bearer confirmation naming an unknown request is confirmed "
              "although unsolicited responses are not allowed", fb.loc(),
              witness=bcfg.describe_path(wit) if wit else None)


def r10_asynchop_provenance(run):
    run.rule("R10", "the switch that turns the solicitation / destination "
             "checks on (asynchop) is off only for the back-channel bindings "
             "SOAP and PAOS: Entity._parse_response sets it truthy for every "
             "other binding value (HTTP-Artifact, URI, none ...)")
    from .. import canon
    m = run.model
    fi = m.func("entity.Entity._parse_response")
    cfg = cfg_of(fi, m)
    consts = sorted({x.id for x in ast.walk(fi.node) if isinstance(x, ast.Name)
                     and x.id.startswith("BINDING_")} |
                    {"BINDING_SOAP", "BINDING_PAOS", "BINDING_HTTP_REDIRECT",
                     "BINDING_HTTP_POST"})
    # a binding value that is none of the named ones
    env = {canon.query("binding == %s" % c)[0]: "F" for c in consts}
    env[canon.query("'asynchop' in kwargs")[0]] = "F"
    sets = []
    for nd in cfg.by_kind("stmt"):
        s = nd.ast
        if isinstance(s, ast.Assign) and isinstance(s.targets[0], ast.Subscript) \
                and unparse(s.targets[0].value) == "kwargs" and \
                isinstance(s.targets[0].slice, ast.Constant) and \
                s.targets[0].slice.value == "asynchop":
            sets.append((nd, s.value))
        for c in cfg.own_calls(nd):
            if call_name(c) == "setdefault" and len(c.args) == 2 and \
                    isinstance(c.args[0], ast.Constant) and \
                    c.args[0].value == "asynchop":
                sets.append((nd, c.args[1]))
    run.floor("R10", "places where asynchop is decided", len(sets), 1)
    reach = []
    for nd, v in sets:
        wit = cfg.flag_search(cfg.entry, {}, lambda n, vd, t=nd.id: n == t,
                              assume={k: val for k, val in env.items()})
        if wit is not None:
            reach.append((nd, v))
    ok = bool(reach)
    bad = []
    for nd, v in reach:
        from ..dataflow import inline_expr
        val = canon.eval3(inline_expr(cfg.rd, v, nd.id), env)
        if val != "T":
            ok = False
            bad.append(unparse(v))
    run.check(ok, "R10", fi.qual + "::other-binding=>asynchop",
              "for a binding that is neither SOAP nor PAOS the checks stay on",
              "for a binding value other than the named ones asynchop is set "
              "from %s (not truthy): a response that arrives over HTTP-Artifact "
              "/ URI skips the InResponseTo, allow_unsolicited and Destination "
              "checks" % bad, fi.loc(reach[0][0].ast) if reach else fi.loc())
    init = m.func("response.StatusResponse.__init__")
    d = init.param_default("asynchop")
    run.check(d is not None and is_true_const(d), "R10",
              init.qual + "::asynchop-default", "defaults to True",
              "asynchop defaults to %s" % (unparse(d) if d is not None else None),
              init.loc(), nontrivial=False)


def r11_outstanding_is_the_callers(run):
    run.rule("R11", "the set of outstanding requests a response is checked "
             "against is the one the application passes to this call "
             "(parameter `outstanding`): nothing the client object kept from "
             "earlier calls is mixed into it, so a request the application no "
             "longer lists is not solicited")
    fi = run.model.func("client_base.Base.parse_authn_request_response")
    fn = fi.node
    vals = []
    for x in ast.walk(fn):
        if isinstance(x, ast.Dict):
            for k, v in zip(x.keys, x.values):
                if isinstance(k, ast.Constant) and k.value == "outstanding_queries":
                    vals.append(v)
        elif isinstance(x, ast.Assign):
            for t in x.targets:
                if isinstance(t, ast.Subscript) and \
                        isinstance(t.slice, ast.Constant) and \
                        t.slice.value == "outstanding_queries":
                    vals.append(x.value)
        elif isinstance(x, ast.Call):
            for k in x.keywords:
                if k.arg == "outstanding_queries":
                    vals.append(k.value)
    run.require(vals, "R11: parse_authn_request_response no longer passes "
                "outstanding_queries")
    params = set(fi.params())
    assigns = {}
    for x in ast.walk(fn):
        if isinstance(x, ast.Assign):
            for t in x.targets:
                if isinstance(t, ast.Name):
                    assigns.setdefault(t.id, []).append(x.value)
    for v in vals:
        roots, seen, todo = set(), set(), [v]
        while todo:
            e = todo.pop()
            for n in ast.walk(e):
                if isinstance(n, ast.Attribute):
                    ch = attr_chain(n)
                    if ch and ch.startswith("self."):
                        roots.add(".".join(ch.split(".")[:2]))
                elif isinstance(n, ast.Name) and n.id != "self":
                    if n.id in assigns and n.id not in seen:
                        seen.add(n.id)
                        todo.extend(assigns[n.id])
                    elif n.id in params:
                        roots.add(n.id)
        kept = sorted(r for r in roots if r.startswith("self."))
        run.check(not kept and "outstanding" in roots, "R11",
                  "%s::outstanding_queries" % fi.qual,
                  "outstanding_queries = %s (the caller's)" % unparse(v),
                  "outstanding_queries is built from %s: requests remembered "
                  "by the client object from earlier calls count as "
                  "outstanding although the application no longer lists them" %
                  (kept or sorted(roots)), fi.loc(v))


def check(run):
    run.explanation = (
        "C05: solicitation gate (flag-sensitive search under assumed test "
        "outcomes), for-all shape and equality of the SubjectConfirmationData "
        "InResponseTo check and its non-skippability, destination validation "
        "and its independence from allow_unsolicited, audience check "
        "independence and for-all shape of for_me, recipient gate, provenance "
        "of return_addrs, came_from gate. Not decided: the run-time cross "
        "product of message shapes.")
    run.assumptions = ["Config.endpoint returns only configured endpoints",
                       "tests assumed True/False are treated as opaque atoms"]
    r1_solicitation_gate(run)
    r2_scd_in_response_to(run)
    r3_destination(run)
    r4_audience_independent(run)
    r5_for_me_forall(run)
    r6_recipient(run)
    r7_own_endpoints(run)
    r8_came_from(run)
    r10_asynchop_provenance(run)
    from ..common_rules import misplaced_rule
    misplaced_rule(run, "R9", {"client_base", "response", "client"}, "response parsing")
    r11_outstanding_is_the_callers(run)
