"""C19 - The SP session cache returns only unexpired data of the right subject."""
import ast

from ..srcmodel import attr_chain, call_name, unparse, norm_text, walk_no_nested
from ..cfg import cfg_of, raised_class
from ..dataflow import Origins
from .. import excflow
from ..match import calls_named, arg_of, unguarded_path, only_raises_from
from ..match import result_reaches, just, facts, Q
from . import c04

C = "cache.Cache."


def r1_key_discipline(run):
    run.rule("R1", "every access to the cache map is keyed by code(name_id) of "
             "the method's own name_id (then entity_id); subjects() is the only "
             "whole-map read; Population forwards name_id unchanged; the key "
             "function code() is one-to-one")
    m = run.model
    from . import c18
    c18.code_is_injective(run, "R1")
    ci = m.cls("cache.Cache")
    n = 0
    for name, fi in sorted(ci.methods.items()):
        if name == "__init__":
            continue
        cfg = cfg_of(fi, m)
        org = Origins(cfg, transparent={"code": None})
        for nd in cfg.stmt_nodes():
            for root in cfg.own_exprs(nd):
                for sub in walk_no_nested(root):
                    if isinstance(sub, ast.Subscript) and \
                            attr_chain(sub.value) == "self._db":
                        n += 1
                        got = org.of(sub.slice, nd.id)
                        ok = got and all(a.kind == "call" and a.text == "code"
                                         and a.ast.args and
                                         unparse(a.ast.args[0]) == "name_id"
                                         for a in got) and \
                            "name_id" in fi.params()
                        run.check(ok, "R1", "%s::%s" % (fi.qual,
                                                        norm_text(sub)),
                                  "keyed by code(name_id)",
                                  "cache map indexed by %s" %
                                  sorted(repr(a) for a in got), fi.loc(sub))
                    if isinstance(sub, ast.Subscript) and \
                            isinstance(sub.value, ast.Subscript) and \
                            attr_chain(sub.value.value) == "self._db":
                        ok = unparse(sub.slice) == "entity_id" and \
                            "entity_id" in fi.params()
                        run.check(ok, "R1", "%s::%s[entity]" % (
                            fi.qual, norm_text(sub)), "second key is entity_id",
                            "second index is %s" % unparse(sub.slice),
                            fi.loc(sub), nontrivial=False)
        # whole-map operations
        for c in ast.walk(fi.node):
            if isinstance(c, ast.Call) and isinstance(c.func, ast.Attribute) \
                    and attr_chain(c.func.value) == "self._db" and \
                    c.func.attr in ("keys", "values", "items", "clear", "pop",
                                    "popitem", "update"):
                run.check(name == "subjects" and c.func.attr == "keys", "R1",
                          "%s::self._db.%s()" % (fi.qual, c.func.attr),
                          "the one whole-map read",
                          "whole-map access self._db.%s() in %s" %
                          (c.func.attr, name), fi.loc(c))
        for c in ast.walk(fi.node):
            if isinstance(c, ast.Compare) and any(
                    attr_chain(x) == "self._db" for x in c.comparators):
                ok = unparse(c.left) == "cni"
                run.check(ok, "R1", "%s::%s" % (fi.qual, norm_text(c)),
                          "membership test by the encoded key",
                          "membership tested with %s" % unparse(c.left),
                          fi.loc(c), nontrivial=False)
    run.floor("R1", "self._db subscripts", n, 7)
    # outside Cache nobody touches _db
    for mi in m.modules.values():
        for node in ast.walk(mi.tree):
            if isinstance(node, ast.Attribute) and node.attr == "_db":
                fi = m.enclosing_function(mi, node)
                q = fi.qual if fi else mi.name
                if attr_chain(node) == "self._db":
                    continue      # an object's own private map
                run.violated("R1", "%s::_db" % q, "the cache map is accessed "
                             "outside Cache", "%s:%d" % (mi.relpath,
                                                         node.lineno))
    # Population forwards
    pc = m.cls("population.Population")
    for name, fi in sorted(pc.methods.items()):
        for c in ast.walk(fi.node):
            if isinstance(c, ast.Call) and isinstance(c.func, ast.Attribute) \
                    and attr_chain(c.func.value) == "self.cache" and \
                    c.func.attr in ("get", "get_identity", "delete", "entities",
                                    "active", "set", "reset"):
                a0 = unparse(arg_of(c, 0))
                ok = a0 == "name_id"
                if name == "add_information_about_person":
                    ok = a0 == "name_id" and any(
                        isinstance(s, ast.Assign) and
                        unparse(s.targets[0]) == "name_id" and
                        unparse(s.value) == "session_info['name_id']"
                        for s in walk_no_nested(fi.node))
                run.check(ok, "R1", "%s::cache.%s(%s)" % (fi.qual, c.func.attr,
                                                          a0),
                          "the subject is passed on unchanged",
                          "Population passes %s as subject" % a0, fi.loc(c))


def r2_expiry_guard(run):
    run.rule("R2", "Cache.get returns only after the expiry test of the stored "
             "timestamp (raise ToOld when now is past it), and set()/get() "
             "agree on the stored tuple")
    m = run.model
    fi = m.func(C + "get")
    cfg = cfg_of(fi, m)
    # reader: (expiry, info) = self._db[code(name_id)][entity_id]
    unp = [nd for nd in cfg.by_kind("stmt") if isinstance(nd.ast, ast.Assign) and
           isinstance(nd.ast.targets[0], ast.Tuple) and
           len(nd.ast.targets[0].elts) == 2 and
           all(isinstance(e, ast.Name) for e in nd.ast.targets[0].elts) and
           cfg.itext(nd.ast.value, nd.id) == "self._db[code(name_id)][entity_id]"]
    run.require(len(unp) == 1, "Cache.get: the read of the stored "
                "(expiry, info) tuple vanished")
    ts = unp[0].ast.targets[0].elts[0].id
    key = fi.qual + "::expiry-guard"
    tests = [(nd, c) for nd, c in cfg.call_nodes("after")
             if attr_chain(c.func) == "time_util.after" and c.args and
             unparse(c.args[0]) == ts]
    if not tests:
        run.violated("R2", key, "the stored timestamp is no longer tested with "
                     "time_util.after()", fi.loc())
    else:
        t, tc = tests[0]
        exc = [n.id for n in cfg.nodes if n.kind == "exc"]
        wit = result_reaches(cfg, t.id, tc, [cfg.return_exit], "T",
                             assume={"check_not_on_or_after": "T"}, avoid=exc)
        rs = [r for r in cfg.by_kind("raise") if raised_class(r.ast) == "ToOld"]
        run.check(wit is None and bool(rs), "R2", key + "::expired=>ToOld",
                  "an expired entry raises ToOld",
                  "an expired entry does not raise", fi.loc(t.ast),
                  witness=cfg.describe_path(wit) if wit else None)
        # not expired => returns (no other condition makes it raise)
        wit = result_reaches(cfg, t.id, tc, [cfg.return_exit], "F",
                             assume={"check_not_on_or_after": "T"}, avoid=exc)
        run.check(wit is not None, "R2", key + "::condition",
                  "an entry that is not expired is returned",
                  "an unexpired entry no longer reaches the return", fi.loc(t.ast),
                  nontrivial=False)
        wit = unguarded_path(cfg, cfg.entry, [cfg.return_exit], [t.id],
                             just(cfg, ("check_not_on_or_after", False)))
        run.check(wit is None, "R2", key + "::dominates",
                  "every normal return passes the test (unless the caller "
                  "switched expiry checking off)",
                  "Cache.get can return without the expiry test", fi.loc(),
                  witness=cfg.describe_path(wit) if wit else None)
    st = m.func(C + "set")
    scfg = cfg_of(st, m)
    sorg = Origins(scfg)
    wr = [nd for nd in scfg.by_kind("stmt") if isinstance(nd.ast, ast.Assign) and
          isinstance(nd.ast.targets[0], ast.Subscript) and
          scfg.itext(nd.ast.targets[0], nd.id) ==
          "self._db[code(name_id)][entity_id]"]
    ok = len(wr) == 1 and isinstance(wr[0].ast.value, ast.Tuple) and \
        len(wr[0].ast.value.elts) == 2
    if ok:
        e0, e1 = wr[0].ast.value.elts
        ok = {(a.kind, a.text) for a in sorg.of(e0, wr[0].id)} == \
            {("param", "not_on_or_after")} and \
            ("param", "not_on_or_after") not in \
            {(a.kind, a.text) for a in sorg.of(e1, wr[0].id)}
    run.check(ok, "R2", "cache.Cache::tuple-order",
              "written (not_on_or_after, info), read (expiry, info)",
              "writer and reader disagree on the stored tuple", fi.loc())
    ac = m.func(C + "active")
    unp2 = [s for s in walk_no_nested(ac.node) if isinstance(s, ast.Assign) and
            isinstance(s.targets[0], ast.Tuple)]
    run.check(len(unp2) == 1 and len(unp2[0].targets[0].elts) == 2, "R2",
              ac.qual + "::tuple-order",
              "same tuple order", "active() unpacks differently", ac.loc(),
              nontrivial=False)
    rets = [unparse(r.value) for r in walk_no_nested(ac.node)
            if isinstance(r, ast.Return)]
    ats = unparse(unp2[0].targets[0].elts[0]) if unp2 else "?"
    run.check("time_util.not_on_or_after(%s)" % ats in rets and
              rets.count("False") >= 2, "R2", ac.qual + "::verdict",
              "active iff info present and not_on_or_after(timestamp)",
              "active() returns %s" % rets, ac.loc())
    # info returned is a copy of what was stored for that key
    iname = unp[0].ast.targets[0].elts[1].id
    cp = [s for s in walk_no_nested(fi.node) if isinstance(s, ast.Assign) and
          unparse(s.targets[0]) == iname and
          unparse(s.value) == iname + ".copy()"]
    run.check(len(cp) == 1, "R2", fi.qual + "::copy",
              "callers get a copy (cannot corrupt the cache)",
              "stored info is handed out by reference", fi.loc(),
              nontrivial=False)
    c04.r1_before_after(run, rule="R2")


def r3_stale_contribute_nothing(run):
    run.rule("R3", "get_identity merges attributes only of sources whose get() "
             "succeeded with data; expired and empty sources are listed as "
             "stale and skipped")
    m = run.model
    fi = m.func(C + "get_identity")
    cfg = cfg_of(fi, m)
    merges = [nd for nd in cfg.by_kind("foriter")
              if unparse(nd.ast.iter) == "info['ava'].items()"]
    run.require(len(merges) == 1, "get_identity: merge loop vanished")
    mg = merges[0]
    hs = [h for h in excflow.handlers_of(fi, m) if h.caught == ["ToOld"]]
    gets = [nd for nd in cfg.by_kind("stmt") if isinstance(nd.ast, ast.Assign)
            and isinstance(nd.ast.value, ast.Call) and
            attr_chain(nd.ast.value.func) == "self.get" and
            isinstance(nd.ast.targets[0], ast.Name)]
    run.require(gets and len({g.ast.targets[0].id for g in gets}) == 1,
                "get_identity: `info = self.get(...)` vanished")
    gets.sort(key=lambda g: g.ast.lineno)
    iname = gets[0].ast.targets[0].id
    ok = len(hs) == 1 and "get" in hs[0].body_calls()
    run.check(ok, "R3", fi.qual + "::ToOld=>skip",
              "the expiry of one source is caught per source",
              "the ToOld handler around get() changed: %s" %
              [sorted(h.dispositions) for h in hs], fi.loc())
    if hs:
        # whether the handler says `continue` itself or marks the source as
        # having no information and lets the common path skip it: within the
        # same iteration the merge is unreachable and the source is reported
        exc = {n.id for n in cfg.nodes if n.kind == "exc"}
        heads = [h.id for h in cfg.by_kind("for")]
        wit = cfg.flag_search(hs[0].cfgnode, {iname: "U"},
                              lambda n, vd: n == mg.id,
                              avoid=set(heads) | exc)
        run.check(wit is None, "R3", fi.qual + "::expired-not-merged",
                  "the merge is unreachable from the ToOld handler within the "
                  "same iteration", "attributes of an expired source can be "
                  "merged", fi.loc(),
                  witness=cfg.describe_path(wit) if wit else None)
        rep = [nd.id for nd, c in cfg.call_nodes("append")
               if len(c.args) == 1 and unparse(c.args[0]) == "entity_id" and
               attr_chain(c.func) != "res.append"]
        out = set(heads) | {r.id for r in cfg.by_kind("return")} | \
            {cfg.return_exit}
        wit = cfg.flag_search(hs[0].cfgnode, {iname: "U"},
                              lambda n, vd: n in out,
                              avoid=set(rep) | exc)
        run.check(bool(rep) and wit is None, "R3",
                  fi.qual + "::expired-reported", "reported as stale",
                  "expired source is not reported", fi.loc(),
                  witness=cfg.describe_path(wit) if wit else None)
    # a source whose get() answered nothing (falsy) never reaches the merge
    wit = cfg.flag_search(gets[0].id, {}, lambda n, vd: n == mg.id,
                          avoid=[h.id for h in cfg.by_kind("for")],
                          assume={iname: "F"})
    run.check(wit is None, "R3", fi.qual + "::empty-not-merged",
              "a reset/empty source is skipped",
              "an empty (reset) source reaches the merge", fi.loc())
    gs = cfg.call_nodes("get")
    ok = len(gs) == 1 and [unparse(a) for a in gs[0][1].args] == \
        ["name_id", "entity_id", "check_not_on_or_after"]
    run.check(ok, "R3", fi.qual + "::get-args",
              "each source is read for this subject with the caller's expiry "
              "flag", "get(%s)" % [unparse(a) for n, c in gs for a in c.args],
              fi.loc())
    d = fi.param_default("check_not_on_or_after")
    g = m.func(C + "get").param_default("check_not_on_or_after")
    run.check(unparse(d) == "True" and unparse(g) == "True", "R3",
              "cache.Cache::check_not_on_or_after-default",
              "expiry checking is on by default",
              "defaults are %s / %s" % (unparse(d), unparse(g)), fi.loc())
    ents = [nd for nd in cfg.by_kind("stmt") if isinstance(nd.ast, ast.Assign)
            and unparse(nd.ast.targets[0]) == "entities"]
    run.check(len(ents) == 1 and cfg.itext(ents[0].ast.value, ents[0].id) ==
              "self._db[code(name_id)].keys()", "R3", fi.qual + "::all-sources",
              "without a list all sources of that subject are consulted",
              "entities <- %s" % [unparse(e.ast.value) for e in ents], fi.loc(),
              nontrivial=False)
    rets = [unparse(r.ast.value) for r in cfg.by_kind("return")]
    run.check(sorted(rets) == ["(res, oldees)", "({}, [])"], "R3",
              fi.qual + "::returns", "returns (merged, stale)",
              "returns %s" % rets, fi.loc(), nontrivial=False)


def r4_delete_reset(run):
    run.rule("R4", "delete removes the subject's whole entry; reset stores an "
             "empty, expired record")
    m = run.model
    d = m.func(C + "delete")
    dels = [s for s in walk_no_nested(d.node) if isinstance(s, ast.Delete)]
    run.check(len(dels) == 1 and unparse(dels[0].targets[0]) ==
              "self._db[code(name_id)]", "R4", d.qual + "::whole-entry",
              "del self._db[code(name_id)]", "delete() removes %s" %
              [unparse(x.targets[0]) for x in dels], d.loc())
    r = m.func(C + "reset")
    cs = [c for c in calls_named(r.node, "set")]
    got = []
    if len(cs) == 1:
        for i, pn in enumerate(("name_id", "entity_id", "info",
                                "not_on_or_after")):
            a = arg_of(cs[0], i, pn)
            got.append(unparse(a) if a is not None else None)
    run.check(got == ["name_id", "entity_id", "{}", "0"], "R4",
              r.qual + "::empty+0",
              "set(name_id, entity_id, {}, 0)", "reset() calls set(%s)" % got,
              r.loc())
    # ... on every path: an expired or otherwise inactive source is scrapped too
    rcfg = cfg_of(r, m)
    sn = [nd.id for nd, c in rcfg.call_nodes("set")]
    exc = [n.id for n in rcfg.nodes if n.kind == "exc"]
    wit = rcfg.path(rcfg.entry, rcfg.return_exit, set(sn) | set(exc)) \
        if sn else None
    run.check(bool(sn) and wit is None, "R4", r.qual + "::unconditional",
              "every normal path of reset() stores the empty record",
              "reset() can return without scrapping the source: its attributes "
              "stay in the cache and are served by reads that do not check "
              "expiry", r.loc(),
              witness=rcfg.describe_path(wit) if wit else None)
    g = m.func(C + "get")
    rets = [unparse(x.value) for x in walk_no_nested(g.node)
            if isinstance(x, ast.Return)]
    run.check(rets == ["info or None"], "R4", g.qual + "::empty=>None",
              "an empty record reads back as None (reported stale by "
              "get_identity)", "get() returns %s" % rets, g.loc())
    pr = m.func("population.Population.remove_person")
    cs = [c for c in calls_named(pr.node, "delete")]
    run.check(len(cs) == 1 and unparse(cs[0].args[0]) == "name_id", "R4",
              pr.qual, "remove_person -> cache.delete(name_id)",
              "remove_person changed", pr.loc(), nontrivial=False)


def r5_backend_neutral(run):
    run.rule("R5", "the file-backed and the in-memory cache run the same code: "
             "_sync only guards sync() calls")
    m = run.model
    ci = m.cls("cache.Cache")
    n = 0
    for name, fi in sorted(ci.methods.items()):
        cfg = cfg_of(fi, m)
        tests = [t for t in cfg.by_kind("test")
                 if any(attr_chain(x) == "self._sync" for x in ast.walk(t.ast))]
        for t in tests:
            n += 1
            # what runs only when _sync is set may only be self._db.sync();
            # what runs only when it is not set may only be a bare return
            bad = []
            for nd in cfg.nodes:
                if nd.kind not in ("stmt", "return", "raise") or nd.ast is None:
                    continue
                gs = {(unparse(e), p) for e, p, b in cfg.guards(nd.id)
                      if cfg.nodes[b].test == t.id}
                if isinstance(nd.ast, ast.Pass):
                    continue
                if ("self._sync", True) in gs:
                    if not (isinstance(nd.ast, ast.Expr) and
                            isinstance(nd.ast.value, ast.Call) and
                            attr_chain(nd.ast.value.func) == "self._db.sync"):
                        bad.append(nd)
                elif ("self._sync", False) in gs:
                    if not (isinstance(nd.ast, ast.Return) and (
                            nd.ast.value is None or
                            (isinstance(nd.ast.value, ast.Constant) and
                             nd.ast.value.value is None))):
                        bad.append(nd)
                elif gs:
                    bad.append(nd)
            # code after the test must be the end of the function: nothing
            # else may depend on which backend is in use
            run.check(not bad, "R5", "%s::if self._sync" % fi.qual,
                      "only calls self._db.sync()",
                      "behaviour differs between the backends under "
                      "`if %s`: %s" % (unparse(t.ast),
                                       [norm_text(b.ast)[:40] for b in bad]),
                      fi.loc(t.ast))
        if name != "__init__":
            for s in walk_no_nested(fi.node):
                if isinstance(s, ast.Assign) and any(
                        attr_chain(x) in ("self._sync", "self._db")
                        for x in s.targets):
                    run.violated("R5", "%s::%s" % (fi.qual, norm_text(s)),
                                 "backend state reassigned outside the "
                                 "constructor", fi.loc(s))
    run.floor("R5", "_sync guards", n, 2)
    init = ci.methods["__init__"]
    src = unparse(init.node)
    run.check("shelve.open(filename, writeback=True, protocol=2)" in src and
              "self._db = {}" in src, "R5", init.qual + "::backends",
              "shelve (writeback) or dict", "constructor changed", init.loc(),
              nontrivial=False)


MUTATING = {"append", "extend", "insert", "remove", "pop", "clear", "update",
            "setdefault", "sort", "reverse", "add", "discard", "popitem",
            "__setitem__", "__delitem__"}
FRESH_CALLS = {"copy", "list", "dict", "set", "sorted", "deepcopy", "tuple",
               "union", "decode", "code"}


def r6_read_path_does_not_mutate(run):
    run.rule("R6", "the read path (get, get_identity, active, entities, "
             "subjects) never modifies in place an object it obtained from the "
             "cache map: what one query merges must not leak into what the "
             "next query returns")
    m = run.model
    from ..dataflow import ReachingDefs
    n = 0
    for name in ("get", "get_identity", "active", "entities", "subjects",
                 "receivers"):
        fi = m.func(C + name)
        cfg = cfg_of(fi, m)
        rd = ReachingDefs(cfg)
        tainted_elems = set()

        def level(expr, nid, depth=0):
            """0 fresh object; 1 fresh container whose elements are stored
            objects (shallow copy); 2 an object stored in the cache map."""
            if expr is None or depth > 8:
                return 0
            if isinstance(expr, ast.Name):
                best = 0
                for d in rd.reaching(expr.id, nid):
                    if d.weak or d.kind == "param":
                        continue
                    if d.kind == "assign":
                        best = max(best, level(d.value, d.node, depth + 1))
                    elif d.kind in ("unpack", "iter", "with"):
                        best = max(best, 2 if level(d.value, d.node,
                                                    depth + 1) >= 1 else 0)
                return best
            if isinstance(expr, ast.Attribute):
                ch = attr_chain(expr) or ""
                if ch.startswith("self._db"):
                    return 2
                return level(expr.value, nid, depth + 1)
            if isinstance(expr, ast.Subscript):
                if isinstance(expr.value, ast.Name) and \
                        expr.value.id in tainted_elems:
                    return 2
                return 2 if level(expr.value, nid, depth + 1) >= 1 else 0
            if isinstance(expr, ast.Call):
                f = expr.func
                nm = call_name(expr)
                if isinstance(f, ast.Attribute) and nm in ("items", "values",
                                                            "keys", "get"):
                    if attr_chain(f) == "self.get":
                        return 1
                    return level(f.value, nid, depth + 1)
                if attr_chain(f) == "self.get":
                    return 1
                if nm in FRESH_CALLS:
                    src = f.value if isinstance(f, ast.Attribute) and \
                        nm in ("copy", "union") else \
                        (expr.args[0] if expr.args else None)
                    return 1 if level(src, nid, depth + 1) >= 1 and \
                        nm in ("copy", "dict", "list", "tuple") else 0
                return 0
            if isinstance(expr, (ast.List, ast.Tuple, ast.Set, ast.Dict,
                                 ast.ListComp, ast.DictComp, ast.SetComp)):
                return 0
            return 0
        for nd in cfg.by_kind("stmt"):
            s2 = nd.ast
            if isinstance(s2, ast.Assign):
                for t in s2.targets:
                    if isinstance(t, ast.Subscript) and \
                            isinstance(t.value, ast.Name) and \
                            level(s2.value, nd.id) == 2:
                        tainted_elems.add(t.value.id)
        for nd in cfg.stmt_nodes():
            for root in cfg.own_exprs(nd):
                for c in walk_no_nested(root):
                    if not (isinstance(c, ast.Call) and
                            isinstance(c.func, ast.Attribute) and
                            c.func.attr in MUTATING):
                        continue
                    n += 1
                    bad = level(c.func.value, nd.id) == 2
                    run.check(not bad, "R6", "%s::%s" % (fi.qual,
                                                         norm_text(c)[:70]),
                              "mutates a fresh object",
                              "%s() is applied in place to an object that may "
                              "be the very list/dict stored in the cache (e.g. "
                              "res[key] was bound to a stored value list): a "
                              "later query for one source returns values merged "
                              "in from another, also after that other source "
                              "expired or was reset" % c.func.attr, fi.loc(c))
            s2 = nd.ast
            if nd.kind == "stmt" and isinstance(s2, (ast.Assign, ast.AugAssign,
                                                     ast.Delete)):
                tg = s2.targets if not isinstance(s2, ast.AugAssign) \
                    else [s2.target]
                for t in tg:
                    if isinstance(t, ast.Subscript):
                        n += 1
                        bad = level(t.value, nd.id) == 2
                        run.check(not bad, "R6", "%s::%s" % (
                            fi.qual, norm_text(s2)[:70]),
                            "stores into a fresh object",
                            "item assignment/deletion on an object that may be "
                            "stored cache data", fi.loc(s2))
    run.floor("R6", "mutation sites on the read path", n, 3)


def check(run):
    run.explanation = (
        "C19: key discipline of every access to Cache._db (derivation of the "
        "index from code(name_id) of the method's own parameter), dominance of "
        "the expiry test in get() and writer/reader agreement on the stored "
        "tuple, unreachability of the merge from the expired/empty branches in "
        "get_identity, delete/reset shapes, backend neutrality of _sync, "
        "before/after normal forms. Not decided: operation histories, shelve "
        "semantics.")
    run.assumptions = ["ident.code is injective on NameID fields (C18.R2)"]
    r1_key_discipline(run)
    r2_expiry_guard(run)
    r3_stale_contribute_nothing(run)
    r4_delete_reset(run)
    r5_backend_neutral(run)
    r6_read_path_does_not_mutate(run)
    from ..common_rules import memo_rule
    memo_rule(run, "R7", {"cache", "ident", "population"}, "cache and identifier lookups")
    from ..common_rules import shared_state_rule
    shared_state_rule(run, "R8", {"cache", "population", "mcache", "mdbcache"},
                      "cache operations")
    from ..common_rules import derived_state_rule
    derived_state_rule(run, "R9", "cache.Cache", {"_db"}, ["delete"],
                       "the session cache")
