"""C17 - Encrypted assertions stay confidential and are validated like plain ones."""
import ast

from ..match import facts, Q, just, result_reaches, value_satisfies
from ..srcmodel import attr_chain, call_name, unparse, norm_text, walk_no_nested
from ..cfg import cfg_of, raised_class
from ..dataflow import Origins
from .. import excflow
from ..match import (calls_named, arg_of, unguarded_path, only_raises_from,
                     is_falsy_const, is_true_const)
from . import c01


def _block_index(block, node):
    for i, s in enumerate(block):
        if any(x is node for x in ast.walk(s)):
            return i
    return None


def _blocks(fnode):
    for n in ast.walk(fnode):
        for field in ("body", "orelse", "finalbody"):
            b = getattr(n, field, None)
            if isinstance(b, list) and b and isinstance(b[0], ast.stmt):
                yield b


def _common_block_order(fnode, first, second):
    """Indices of the statements containing `first` and `second` in the
    innermost statement list that contains both."""
    best = None
    for b in _blocks(fnode):
        i, j = _block_index(b, first), _block_index(b, second)
        if i is not None and j is not None:
            if best is None or len(b) <= best[2] or True:
                if i != j:
                    best = (i, j, len(b))
    return best


def r1_sign_then_encrypt(run):
    run.rule("R1", "in Entity._response an assertion is signed before it is "
             "encrypted, and the response is signed after the encryption "
             "(statement order in the common block)")
    m = run.model
    fi = m.func("entity.Entity._response")
    encs = [c for c in calls_named(fi.node, "_encrypt_assertion")]
    signs = [c for c in calls_named(fi.node, "signed_instance_factory")]
    run.floor("R1", "_encrypt_assertion calls", len(encs), 2)
    ass_sign = {"to_sign_assertion": None, "to_sign_advice": None}
    resp_sign = []
    for c in signs:
        a2 = unparse(arg_of(c, 2))
        if a2 in ass_sign:
            ass_sign[a2] = c
        elif a2 == "sign_class":
            resp_sign.append(c)
    for which, enc_arg in (("to_sign_assertion", "encrypt_cert_assertion"),
                           ("to_sign_advice", "encrypt_cert_advice")):
        enc = [c for c in encs if unparse(arg_of(c, 0)) == enc_arg]
        s = ass_sign[which]
        key = "%s::%s-before-encrypt" % (fi.qual, which)
        if not enc or s is None:
            run.violated("R1", key, "signing with %s or the matching encryption "
                         "call vanished" % which, fi.loc())
            continue
        order = _common_block_order(fi.node, s, enc[0])
        run.check(order is not None and order[0] < order[1], "R1", key,
                  "signed_instance_factory(..., %s) precedes "
                  "_encrypt_assertion(%s, ...)" % (which, enc_arg),
                  "the assertion is encrypted before (or without) being signed: "
                  "the signature would cover ciphertext or be lost", fi.loc(s))
        # the list really contains the assertion's own node
        apps = [c for c in calls_named(fi.node, "append")
                if attr_chain(c.func) == which + ".append"]
        ok = apps and all(
            isinstance(c.args[0], ast.Tuple) and
            call_name(c.args[0].elts[0]) == "class_name" and
            unparse(c.args[0].elts[0].args[0]) + ".id" ==
            unparse(c.args[0].elts[1]) for c in apps)
        run.check(ok, "R1", "%s::%s-content" % (fi.qual, which),
                  "(class_name(X), X.id) of the assertion being protected",
                  "to-sign entries no longer name the assertion and its own ID",
                  fi.loc(), nontrivial=False)
    for e in encs:
        key = "%s::response-signed-after-%s" % (fi.qual, unparse(arg_of(e, 0)))
        ok = False
        for rs in resp_sign:
            order = _common_block_order(fi.node, e, rs)
            if order is not None and order[0] < order[1]:
                ok = True
        run.check(ok, "R1", key,
                  "signed_instance_factory(response, ..., sign_class) comes "
                  "after the encryption",
                  "the response is signed before the assertion is encrypted: "
                  "the response signature would not cover what is sent",
                  fi.loc(e))
    # the encryption result is what is used afterwards
    cfg = cfg_of(fi, m)
    for nd, c in cfg.call_nodes("_encrypt_assertion"):
        st = nd.ast
        run.check(isinstance(st, ast.Assign) and
                  unparse(st.targets[0]) == "response" and
                  unparse(arg_of(c, 2)) == "response", "R1",
                  fi.qual + "::encrypted-response-used@" + unparse(arg_of(c, 0)),
                  "response = _encrypt_assertion(..., response)",
                  "the encrypted text is not what the function goes on with",
                  fi.loc(c))


def r2_no_clear_copy(run):
    run.rule("R2", "the assertion is moved (not copied) into the "
             "EncryptedAssertion before encryption")
    m = run.model
    fi = m.func("sigver.pre_encrypt_assertion")
    cfg = cfg_of(fi, m)
    clears = [nd for nd in cfg.by_kind("stmt") if isinstance(nd.ast, ast.Assign)
              and unparse(nd.ast.targets[0]) == "response.assertion" and
              is_falsy_const(nd.ast.value)]
    adds = [nd for nd, c in cfg.call_nodes("add_extension_element") +
            cfg.call_nodes("add_extension_elements")
            if attr_chain(c.func).startswith("response.encrypted_assertion.")]
    rets = cfg.by_kind("return")
    ok = len(clears) == 1 and adds and all(
        cfg.dominates(clears[0].id, r.id) for r in rets)
    run.check(ok, "R2", fi.qual + "::move",
              "response.assertion = None on every path; assertion re-attached "
              "inside encrypted_assertion",
              "the clear assertion is left in place next to the encrypted one",
              fi.loc())
    for nd, c in [(n, c) for n, c in cfg.call_nodes("add_extension_element") +
                  cfg.call_nodes("add_extension_elements")]:
        run.check(unparse(arg_of(c, 0)) == "assertion", "R2",
                  fi.qual + "::" + call_name(c), "moves the saved assertion",
                  "moves %s" % unparse(arg_of(c, 0)), fi.loc(c),
                  nontrivial=False)
    rf = m.func("entity.Entity._response")
    rcfg = cfg_of(rf, m)
    pre = [nd for nd, c in rcfg.call_nodes("pre_encrypt_assertion")]
    enc = [nd for nd, c in rcfg.call_nodes("_encrypt_assertion")
           if unparse(arg_of(c, 0)) == "encrypt_cert_assertion"]
    ok = bool(pre) and bool(enc)
    if ok:
        wit = unguarded_path(rcfg, rcfg.entry, [e.id for e in enc],
                             [p.id for p in pre], lambda e, p: False)
        ok = wit is None
    run.check(ok, "R2", rf.qual + "::pre_encrypt-before-encrypt",
              "pre_encrypt_assertion(response) on every path to the encryption",
              "the main assertion can be encrypted without having been moved "
              "out of the clear part", rf.loc())
    emp = [nd for nd in rcfg.by_kind("stmt") if isinstance(nd.ast, ast.Assign)
           and unparse(nd.ast.targets[0]).endswith(".advice.assertion") and
           unparse(nd.ast.value) == "[]"]
    enc_adv = [nd for nd, c in rcfg.call_nodes("_encrypt_assertion")
               if unparse(arg_of(c, 0)) == "encrypt_cert_advice"]
    ok = emp and enc_adv and all(rcfg.dominates(emp[0].id, e.id)
                                 for e in enc_adv)
    run.check(ok, "R2", rf.qual + "::advice-cleared",
              "clear advice assertions are emptied before the advice is "
              "encrypted", "clear advice assertions stay next to the encrypted "
              "ones", rf.loc())


def r3_failures_raise(run):
    run.rule("R3", "an encryption that produced nothing raises; with at least "
             "one certificate _encrypt_assertion never returns the unencrypted "
             "response")
    m = run.model
    fe = m.func("sigver.CryptoBackendXmlSec1.encrypt_assertion")
    cfg = cfg_of(fe, m)
    rets = [r.id for r in cfg.by_kind("return")]
    wit = cfg.flag_search(cfg.entry, {}, lambda n, vd: n in rets,
                          assume={"not output": "T", "output": "F"})
    run.check(wit is None, "R3", fe.qual + "::empty=>EncryptError",
              "no return with empty tool output",
              "encrypt_assertion can return although xmlsec1 produced no "
              "output", fe.loc(), witness=cfg.describe_path(wit) if wit else None)
    for r in cfg.by_kind("return"):
        run.check("output" in unparse(r.ast.value), "R3",
                  fe.qual + "::returns-output", "returns the tool's output",
                  "returns %s" % unparse(r.ast.value), fe.loc(r.ast),
                  nontrivial=False)
    fi = m.func("entity.Entity._encrypt_assertion")
    ecfg = cfg_of(fi, m)
    iters = [n.id for n in ecfg.by_kind("iter")]
    run.require(iters, "_encrypt_assertion: loop over certificates vanished")
    plain_rets = []
    for r in ecfg.by_kind("return"):
        inside_try = any(any(x is r.ast for x in ast.walk(t))
                         for t in walk_no_nested(fi.node)
                         if isinstance(t, ast.Try))
        if not inside_try:
            plain_rets.append(r.id)
    wit = ecfg.flag_search(iters[0], {"exception": "F", "ex": "U"},
                           lambda n, vd: n in plain_rets)
    run.check(wit is None, "R3", fi.qual + "::no-unencrypted-return",
              "after at least one certificate was tried the function either "
              "returns the encrypted text or raises the recorded error",
              "the unencrypted response can be returned although encryption "
              "was attempted and failed", fi.loc(),
              witness=ecfg.describe_path(wit) if wit else None)
    for r in ecfg.by_kind("return"):
        if r.id in plain_rets:
            continue
        org = Origins(ecfg)
        got = org.of(r.ast.value, r.id)
        ok = got and all(a.kind == "call" and
                         a.text == "self.sec.encrypt_assertion" for a in got)
        run.check(ok, "R3", fi.qual + "::returns-ciphertext",
                  "the in-loop return is the result of sec.encrypt_assertion",
                  "the in-loop return derives from %s" %
                  sorted(repr(a) for a in got), fi.loc(r.ast))
    rf = m.func("entity.Entity._response")
    rcfg = cfg_of(rf, m)
    offs = [nd for nd in rcfg.by_kind("stmt")
            if isinstance(nd.ast, ast.Assign) and
            isinstance(nd.ast.targets[0], ast.Name) and
            nd.ast.targets[0].id == "encrypt_assertion" and
            is_falsy_const(nd.ast.value)]
    run.check(bool(offs) and all(
        {Q("self.has_encrypt_cert_in_metadata(sp_entity_id)", False),
         Q("encrypt_cert_assertion is None", True)} <= facts(rcfg, nd.id)
        for nd in offs), "R3",
              rf.qual + "::no-cert=>no-encryption-flag",
              "encryption is only attempted when a certificate exists "
              "(otherwise the caller asked for the impossible; noted)",
              "certificate precondition changed", rf.loc(), nontrivial=False)
    sc = m.func("sigver.SecurityContext.encrypt_assertion")
    cs = [c for c in calls_named(sc.node, "encrypt_assertion")]
    run.check(len(cs) == 1 and attr_chain(cs[0].func) ==
              "self.crypto.encrypt_assertion" and
              [unparse(a) for a in cs[0].args][:2] == ["statement", "enc_key"],
              "R3", sc.qual + "::delegates", "delegates to the backend",
              "SecurityContext.encrypt_assertion changed", sc.loc(),
              nontrivial=False)


def r4_same_gate(run, rule="R4"):
    run.rule(rule, "every decrypted assertion passes AuthnResponse._assertion "
             "and is adopted only on success; decryption-time signature checks "
             "as in C01.R5/R6")
    m = run.model
    fi = m.func("response.AuthnResponse.parse_assertion")
    cfg = cfg_of(fi, m)
    org = Origins(cfg)
    apps = [(nd, c) for nd, c in cfg.call_nodes("append")
            if attr_chain(c.func) == "self.assertions.append"]
    run.floor(rule, "self.assertions.append sites", len(apps), 2)
    for nd, c in apps:
        src = org.of(arg_of(c, 0), nd.id)
        from_dec = any(a.kind == "call" and a.text.endswith("decrypt_assertions")
                       for a in src)
        gs = cfg.guards(nd.id)
        if from_dec:
            ok = any(isinstance(e, ast.Call) and call_name(e) == "_assertion"
                     and unparse(e.args[0]) == unparse(arg_of(c, 0)) and p
                     for e, p, _ in gs)
            run.check(ok, rule, fi.qual + "::decrypted-adopted-iff-checked",
                      "a decrypted assertion is appended only on the success "
                      "arm of self._assertion(it, ...)",
                      "a decrypted assertion is adopted without passing "
                      "_assertion()", fi.loc(c))
        else:
            # plain assertions: the verifying loop over self.response.assertion
            vcalls = [c2 for n2, c2 in cfg.call_nodes("_assertion")
                      if is_falsy_const(arg_of(c2, 1, "verified"))]
            # the checking loop as a whole (zero iterations there and some
            # iterations in the adopting loop over the same list is not a
            # feasible path)
            loops = [n2 for n2 in cfg.by_kind("foriter")
                     if unparse(n2.ast.iter) == "self.response.assertion" and
                     any(any(x is vc for x in ast.walk(n2.ast))
                         for vc in vcalls)]
            wit = unguarded_path(
                cfg, cfg.entry, [nd.id], [l.id for l in loops],
                just(cfg, ("self.response.assertion", False))) \
                if loops else [cfg.entry]
            # inside the checking loop a falsy result stops everything
            for vc in vcalls:
                tn = [t for t in cfg.by_kind("test")
                      if any(x is vc for x in ast.walk(t.ast))]
                ok_stop = bool(tn) and isinstance(tn[0].ast, ast.UnaryOp)
                if ok_stop:
                    bad = [b for b in cfg.succ[tn[0].id]
                           if cfg.nodes[b].kind == "true"]
                    ok_stop = all(nd.id not in cfg.reachable_from(b)
                                  for b in bad)
                run.check(ok_stop, rule, fi.qual + "::plain-falsy=>stop",
                          "a falsy _assertion() result ends parse_assertion",
                          "a plain assertion that failed _assertion() is still "
                          "adopted", fi.loc(vc))
            run.check(bool(loops) and wit is None, rule,
                      fi.qual + "::plain-adopted-iff-checked",
                      "plain assertions are adopted only after the checking loop",
                      "a plain assertion is adopted without passing "
                      "_assertion()", fi.loc(c),
                      witness=cfg.describe_path(wit) if wit and loops else None)
    da = m.func("response.AuthnResponse.decrypt_assertions")
    dcfg = cfg_of(da, m)
    for nd, c in dcfg.call_nodes("check_signature"):
        excs = [x.id for x in dcfg.nodes if x.kind == "exc"]
        ok = result_reaches(dcfg, nd.id, c, [dcfg.return_exit], "F",
                            avoid=excs) is None
        run.check(ok, rule, da.qual + "::falsy-check=>raise",
                  "a falsy signature check result raises",
                  "a falsy check_signature result is ignored", da.loc(c))
        run.check(unparse(arg_of(c, None, "origdoc")) == "decr_txt", rule,
                  da.qual + "::origdoc", "verified against the decrypted text",
                  "origdoc=%s" % unparse(arg_of(c, None, "origdoc")), da.loc(c),
                  nontrivial=False)
    ee = [c for c in calls_named(da.node, "extension_elements_to_elements")]
    run.check(len(ee) == 1 and unparse(arg_of(ee[0], 0)) ==
              "encrypted_assertion.extension_elements", rule,
              da.qual + "::source", "assertions are taken only from the children "
              "of the (decrypted) EncryptedAssertion",
              "decrypted assertions are taken from %s" %
              [unparse(arg_of(c, 0)) for c in ee], da.loc())
    if rule != "R4":
        return      # (as C01.R10: C01 runs its own R5/R6)
    before = len(run.results)
    saved = dict(run.rules)
    c01.r5_present_implies_checked(run)
    c01.r6_bypass_flags_closed(run)
    for r in run.results[before:]:
        r["rule"] = "R4"
    run.rules.clear()
    run.rules.update(saved)


def r5_parity(run):
    run.rule("R5", "checks that are applied to plain assertions while loading "
             "are also applied to assertions that only become visible after "
             "decryption (SubjectConfirmationData InResponseTo)")
    m = run.model
    ld = m.func("response.AuthnResponse.loads")
    pa = m.func("response.AuthnResponse.parse_assertion")
    chk = m.func("response.AuthnResponse.check_subject_confirmation_in_response_to")
    iterates_plain = any(isinstance(l, ast.For) and
                         unparse(l.iter) == "self.response.assertion"
                         for l in walk_no_nested(chk.node))
    called_in_loads = bool(calls_named(ld.node, chk.name))
    called_after_decrypt = bool(calls_named(pa.node, chk.name))
    bc = m.func("response.AuthnResponse._bearer_confirmed")
    cfg = cfg_of(bc, m)
    cmp_nodes = [t for t in cfg.by_kind("test")
                 if "data.in_response_to" in unparse(t.ast)]
    unconditional = False
    for t in cmp_nodes:
        gs = facts(cfg, t.id)
        if not any("came_from" in g for g, p in gs):
            unconditional = True
    key = "response.AuthnResponse::decrypted-SCD-InResponseTo::parity"
    if not (iterates_plain and called_in_loads):
        run.holds("R5", key, "the InResponseTo check is no longer tied to the "
                  "plain assertion list at load time", chk.loc(), c17own=True)
        return
    r = run.check(called_after_decrypt or unconditional, "R5", key,
                  "decrypted assertions get the same InResponseTo comparison",
                  "check_subject_confirmation_in_response_to() runs in loads() "
                  "over self.response.assertion, i.e. before decryption, and "
                  "_bearer_confirmed() compares data.in_response_to only while "
                  "came_from is None (loads() has already set it): the "
                  "InResponseTo of a bearer confirmation inside an encrypted "
                  "assertion is never compared with the request",
                  bc.loc(), c17own=True)


def r6_undecryptable(run):
    run.rule("R6", "nothing that could not be decrypted yields an assertion: "
             "decrypt_keys returns a text only when the backend produced one; "
             "the decryption loop terminates; identities come only from "
             "self.assertions")
    m = run.model
    for q in ("sigver.SecurityContext.decrypt_keys",
              "sigver.SecurityContext.decrypt"):
        fi = m.func(q)
        cfg = cfg_of(fi, m)
        k = 0
        for r in cfg.by_kind("return"):
            v = unparse(r.ast.value)
            if v == "enctext":
                continue
            k += 1
            gs = facts(cfg, r.id)

            def nonempty(nm, fs):
                return {Q("%s is not None" % nm, True),
                        Q("len(%s) > 0" % nm, True)} <= fs
            ok = isinstance(r.ast.value, ast.Name) and \
                value_satisfies(cfg, v, r.id, nonempty)
            run.check(ok, "R6",
                      fi.qual + "::" + norm_text(r.ast) + "@%d" % k,
                      "a decrypted text is returned "
                      "only when non-empty", "returns %s under %s" %
                      (v, sorted(gs)), fi.loc(r.ast))
    pa = m.func("response.AuthnResponse.parse_assertion")
    whiles = [w for w in walk_no_nested(pa.node) if isinstance(w, ast.While)]
    from .. import canon
    same = Q("decr_text_old != decr_text", True)
    ok = len(whiles) == 2 and all(
        same in {(canon.ctext(e), p) for e, p in canon._atoms(w.test, True)}
        for w in whiles)
    run.check(ok, "R6", pa.qual + "::loops-terminate",
              "both decryption loops stop when a round changes nothing",
              "decryption loop guard changed", pa.loc())
    gi = m.func("response.AuthnResponse.get_identity")
    loops = [unparse(l.iter) for l in walk_no_nested(gi.node)
             if isinstance(l, ast.For)]
    run.check("self.assertions" in loops, "R6", gi.qual + "::source",
              "identity is read from self.assertions only",
              "get_identity iterates %s" % loops, gi.loc())
    # the clear response handed on is the decrypted text, assertions from it
    cfg = cfg_of(pa, m)
    org = Origins(cfg)
    for nd, c in cfg.call_nodes("decrypt_assertions"):
        a1 = arg_of(c, 1)
        got = org.of(a1, nd.id)
        ok = all((a.kind == "call" and a.text == "self.sec.decrypt_keys") or
                 a.kind == "const" or (a.kind == "attr" and
                                       a.text == "self.response") for a in got)
        run.check(ok, "R6", pa.qual + "::decr_text@" + norm_text(c)[:40],
                  "signatures of decrypted assertions are checked against the "
                  "decrypted text", "decr_text derives from %s" %
                  sorted(repr(a) for a in got), pa.loc(c), nontrivial=False)


def r7_encryption_key_lookup(run):
    run.rule("R7", "the recipient's encryption certificates are found: "
             "Entity looks them up with use 'encryption', and MetaData.certs "
             "answers a KeyDescriptor without a use attribute (valid for both "
             "uses) for every requested use - otherwise _response silently "
             "switches encryption off")
    from .. import symbolic
    from .c03 import key_filter_sites
    m = run.model
    fi, sites = key_filter_sites(run)
    run.floor("R7", "certificate accept sites in MetaData.certs", len(sites), 1)
    hit = [(l, per[symbolic.ABSENT]) for l, _, per in sites]
    ok = any(v == "consistent" for _, (v, _) in hit)
    run.check(ok, "R7", fi.qual + "::no-use=>every-use",
              "a key descriptor that declares no use is returned whatever use "
              "is requested",
              "whether a key descriptor without a use attribute is returned "
              "depends on the requested use (or it never is): %s" % hit,
              fi.loc())
    n = 0
    for q in ("entity.Entity.has_encrypt_cert_in_metadata",
              "entity.Entity._encrypt_assertion"):
        f = m.func(q)
        for c in calls_named(f.node, "certs"):
            n += 1
            a = arg_of(c, 2, "use")
            run.check(a is not None and isinstance(a, ast.Constant) and
                      a.value == "encryption", "R7",
                      f.qual + "::certs(use=encryption)",
                      "asks for encryption keys",
                      "asks for %s keys" % (unparse(a) if a is not None
                                            else "the default (signing)"),
                      f.loc(c))
    run.floor("R7", "encryption certificate lookups", n, 2)


def r8_key_is_this_recipients(run):
    run.rule("R8", "the certificate an assertion is encrypted for derives, on "
             "every call, from that call's own inputs: the certificate passed "
             "in for this request or the metadata lookup for this recipient - "
             "never from state kept on the entity between requests")
    m = run.model
    fi = m.func("entity.Entity._encrypt_assertion")
    cfg = cfg_of(fi, m)
    org = Origins(cfg, transparent={"make_temp": (0,), "encode": "recv"})
    calls = [(nd, c) for nd, c in cfg.call_nodes("encrypt_assertion")
             if attr_chain(c.func) == "self.sec.encrypt_assertion"]
    run.floor("R8", "encrypt_assertion call sites in _encrypt_assertion",
              len(calls), 1)
    for nd, c in calls:
        a = arg_of(c, 1, "enc_key")
        got = org.of(a, nd.id) if a is not None else set()
        bad = sorted(repr(x) for x in got if not (
            x.kind == "const" or
            (x.kind == "param" and x.text == "encrypt_cert") or
            (x.kind == "call" and x.text == "self.metadata.certs")))
        run.check(bool(got) and not bad, "R8",
                  fi.qual + "::enc_key-origins",
                  "the key file is written from encrypt_cert or "
                  "metadata.certs(sp_entity_id, ..., 'encryption')",
                  "the key the assertion is encrypted for may derive from %s: "
                  "a value that outlives the request can be the key of "
                  "another request or recipient" % bad, fi.loc(c))
    for c in calls_named(fi.node, "certs"):
        a = arg_of(c, 0, "entity_id")
        run.check(a is not None and unparse(a) == "sp_entity_id", "R8",
                  fi.qual + "::certs-of-recipient",
                  "looked up for the recipient of this response",
                  "certificates are looked up for %s" %
                  (unparse(a) if a is not None else None), fi.loc(c))


def r9_advice_decision_on_every_path(run):
    run.rule("R9", "Entity._response: whether the advice assertion is to be "
             "encrypted is examined on every path that ends in handing out a "
             "response - no return (e.g. 'only the assertion needs signing') "
             "comes before the tests of encrypted_advice_attributes unless its "
             "own guard says that no advice encryption was asked for")
    m = run.model
    fi = m.func("entity.Entity._response")
    cfg = cfg_of(fi, m)
    flag = "encrypted_advice_attributes"
    run.require(flag in fi.params(), "_response: parameter %s vanished" % flag)

    def mentions(e):
        return any(isinstance(x, ast.Name) and x.id == flag
                   for x in ast.walk(e))
    deciding = [t for t in cfg.by_kind("test")
                if mentions(t.ast) or mentions(cfg.ctest(t.id))]
    run.floor("R9", "tests of %s in _response" % flag, len(deciding), 2)
    # the tests that decide about the encryption block (they also look at the
    # advice itself); a return is fine when it is guarded by `not flag`
    block = [t.id for t in deciding
             if any(isinstance(x, ast.Attribute) and x.attr == "advice"
                    for x in ast.walk(cfg.ctest(t.id)))]
    run.floor("R9", "tests that open the advice encryption", len(block), 1)
    excs = {n.id for n in cfg.nodes if n.kind == "exc"}
    off = {n.id for n in cfg.nodes if n.kind in ("true", "false") and
           Q(flag, False) in cfg.branch_atoms(n.id)}
    wit = cfg.path(cfg.entry, cfg.return_exit, set(block) | excs | off)
    run.check(wit is None, "R9", fi.qual + "::advice-decision-before-return",
              "every normal return comes after the advice-encryption decision "
              "(or under `not %s`)" % flag,
              "a response is handed out without looking at %s: an advice "
              "assertion whose encryption was asked for leaves in clear" % flag,
              fi.loc(), witness=cfg.describe_path(wit) if wit else None)


def check(run):
    run.explanation = (
        "C17: statement-order rule sign-assertion < encrypt < sign-response in "
        "Entity._response, move-not-copy of the clear assertion, flag-sensitive "
        "failure rules of encrypt_assertion/_encrypt_assertion, same-gate rule "
        "for decrypted assertions (plus C01.R5/R6), parity of the "
        "SubjectConfirmationData InResponseTo check for decrypted assertions, "
        "undecryptable content, three-case evaluation of the KeyDescriptor use "
        "filter for the encryption-certificate lookup. Not decided: ciphertext contents, key matching "
        "(xmlsec1).")
    run.assumptions = ["xmlsec1 encrypts the node selected by the xpath",
                       "signed_instance_factory signs the listed nodes"]
    r1_sign_then_encrypt(run)
    r2_no_clear_copy(run)
    r3_failures_raise(run)
    r4_same_gate(run)
    r5_parity(run)
    r6_undecryptable(run)
    r7_encryption_key_lookup(run)
    r8_key_is_this_recipients(run)
    r9_advice_decision_on_every_path(run)
