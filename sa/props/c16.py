"""C16 - The metadata store serves exactly what valid, unexpired metadata declares."""
import ast

from ..match import facts, Q, result_reaches
from ..srcmodel import attr_chain, call_name, unparse, norm_text, walk_no_nested
from ..cfg import cfg_of, raised_class
from ..dataflow import Origins
from ..tables import reflect
from .. import excflow
from ..match import (calls_named, all_calls_named, arg_of, unguarded_path,
                     only_raises_from, is_falsy_const, is_true_const, str_consts)
from . import c03, c04, c09

MD = "saml2_tophat.md."
DESCRIPTORS = {
    "spsso_descriptor": "SPSSODescriptor",
    "idpsso_descriptor": "IDPSSODescriptor",
    "role_descriptor": "RoleDescriptor",
    "authn_authority_descriptor": "AuthnAuthorityDescriptor",
    "attribute_authority_descriptor": "AttributeAuthorityDescriptor",
    "pdp_descriptor": "PDPDescriptor",
    "affiliation_descriptor": "AffiliationDescriptor",
}


def _members(data, qual):
    c = data["classes"].get(qual)
    return {ch["member"]: ch for ch in c["c_children"].values()} if c else {}


def _attr_members(data, qual):
    c = data["classes"].get(qual)
    return {a["member"] for a in c["c_attributes"].values()} if c else set()


def m1_accessor_table_agreement(run, data):
    run.rule("M1", "every (descriptor, service) pair an accessor asks the store "
             "for names real members of md.EntityDescriptor / the descriptor "
             "class, and the service tables of the package use the same names")
    m = run.model
    ed = _members(data, MD + "EntityDescriptor")
    run.require(len(ed) >= 8, "md.EntityDescriptor not reflected")
    for dk, cls in DESCRIPTORS.items():
        ok = dk in ed and ed[dk]["cls"] == MD + cls
        run.check(ok, "M1", "md.EntityDescriptor.%s" % dk, "-> " + cls,
                  "EntityDescriptor has no child member %s -> %s" % (dk, cls),
                  "src/saml2_tophat/md.py", nontrivial=False)
    ms = m.cls("mdstore.MetadataStore")
    n = 0
    for name, fi in sorted(ms.methods.items()):
        fcfg = None
        for c in calls_named(fi.node, "service", "ext_service"):
            if attr_chain(c.func) not in ("self.service", "self.ext_service"):
                continue
            # (entity_id, typ, service, binding) by position or keyword
            a_desc = arg_of(c, 1, "typ")
            a_srv = arg_of(c, 2, "service")
            if a_desc is None or a_srv is None:
                continue
            if not isinstance(a_srv, ast.Constant):
                continue
            if call_name(c) == "ext_service":
                continue
            n += 1
            srv = a_srv.value
            if fcfg is None:
                fcfg = cfg_of(fi, m)
            cn = [nd for nd, c2 in fcfg.call_nodes(call_name(c)) if c2 is c]
            dtext = fcfg.itext(a_desc, cn[0].id) if cn else unparse(a_desc)
            key = "%s::service(%s, %r)" % (fi.qual, dtext, srv)
            if isinstance(a_desc, ast.Constant):
                cands = [a_desc.value]
            elif dtext == "'%s_descriptor' % typ":
                cands = None
            else:
                run.violated("M1", key, "descriptor argument has an unknown "
                             "shape", fi.loc(c))
                continue
            if cands is None:
                holders = [dk for dk, cls in DESCRIPTORS.items()
                           if srv in _members(data, MD + cls)]
                run.check(len(holders) >= 2, "M1", key,
                          "service is a member of %s" % holders,
                          "service %r is a member of %s only: the typed "
                          "accessor can never find it elsewhere" %
                          (srv, holders), fi.loc(c))
                continue
            for dk in cands:
                cls = DESCRIPTORS.get(dk)
                ok = dk in ed and cls is not None and \
                    srv in _members(data, MD + cls)
                run.check(ok, "M1", key,
                          "%s.%s exists" % (cls, srv),
                          "the store is asked for entity[%r][*][%r] but %s has "
                          "no such member: the accessor can never return what "
                          "the metadata declares" % (dk, srv, cls or dk),
                          fi.loc(c))
    run.floor("M1", "service accessors", n, 11)
    k = 0
    for c in all_calls_named(ms.node, "_providers"):
        k += 1
        a = arg_of(c, 0)
        ok = isinstance(a, ast.Constant) and a.value in ed
        fi = m.enclosing_function(m.module("mdstore"), c)
        run.check(ok, "M1", "%s::_providers(%s)" % (fi.qual, unparse(a)),
                  "descriptor key is a member of EntityDescriptor",
                  "_providers(%s): EntityDescriptor has no such member, so the "
                  "list is always empty" % unparse(a), fi.loc(c))
    run.floor("M1", "_providers callers", k, 3)
    pv = m.func("mdstore.MetadataStore._providers")
    run.check("descriptor in ent_desc" in unparse(pv.node), "M1",
              pv.qual + "::membership", "entities are selected by key "
              "membership", "_providers changed", pv.loc(), nontrivial=False)
    # certs(): key path KeyDescriptor -> KeyInfo -> X509Data -> X509Certificate
    kd = _members(data, MD + "KeyDescriptor")
    ki = _members(data, "saml2_tophat.xmldsig.KeyInfo")
    xd = _members(data, "saml2_tophat.xmldsig.X509Data")
    path_ok = "key_info" in kd and "x509_data" in ki and \
        "x509_certificate" in xd and \
        "use" in _attr_members(data, MD + "KeyDescriptor")
    cf = m.func("mdstore.MetaData.certs")
    used = set(str_consts(cf.node))
    need = {"key_descriptor", "use", "key_info", "x509_data",
            "x509_certificate", "text"}
    run.check(path_ok and need <= used, "M1", cf.qual + "::key-path",
              "key_descriptor/use/key_info/x509_data/x509_certificate are "
              "member names along the schema path",
              "certs() walks keys %s; schema members differ" %
              sorted(need - used), cf.loc())
    for dk, cls in DESCRIPTORS.items():
        if dk in ("affiliation_descriptor",):
            continue
        run.check("key_descriptor" in _members(data, MD + cls), "M1",
                  "md.%s.key_descriptor" % cls, "has key descriptors",
                  "%s has no key_descriptor member" % cls,
                  "src/saml2_tophat/md.py", nontrivial=False)
    loop = [l for l in ast.walk(cf.node) if isinstance(l, ast.For) and
            isinstance(l.iter, ast.List)]
    listed = set(str_consts(loop[0].iter)) if loop else set()
    run.check(listed and all(x + "_descriptor" in ed for x in listed), "M1",
              cf.qual + "::any-descriptors",
              "every descriptor searched for 'any' exists: %s" % sorted(listed),
              "certs('any') searches unknown descriptors %s" %
              sorted(x for x in listed if x + "_descriptor" not in ed), cf.loc())
    # service name tables agree
    all_services = set()
    for cls in DESCRIPTORS.values():
        all_services |= {k for k in _members(data, MD + cls)
                         if k.endswith("_service") or k == "discovery_response"}
    tables = {
        "mdstore.REQ2SRV(values)": set(str_consts(ast.Dict(
            keys=[], values=m.module("mdstore").assigns["REQ2SRV"][-1].values))),
        "config.PREFERRED_BINDING(keys)": {
            k.value for k in m.module("config").assigns[
                "PREFERRED_BINDING"][-1].keys},
        "entity.SERVICE2MESSAGE(keys)": {
            k.value for k in m.module("entity").assigns[
                "SERVICE2MESSAGE"][-1].keys},
    }
    ep = m.module("metadata").assigns["ENDPOINTS"][-1]
    eps = set()
    for v in ep.values:
        eps |= {k.value for k in v.keys}
    tables["metadata.ENDPOINTS(service keys)"] = eps
    for tname, names in sorted(tables.items()):
        unknown = sorted(x for x in names if x not in all_services and
                         x not in ("discovery_response", "artifact_resolve_service"))
        run.check(not unknown, "M1", tname,
                  "%d service names, all members of a descriptor class" %
                  len(names), "service name(s) %s are not members of any "
                  "descriptor class" % unknown, "src/saml2_tophat")
    run.check("artifact_resolve_service" not in all_services, "M1",
              "entity.SERVICE2MESSAGE::artifact_resolve_service",
              "(note) the artifact key differs from the schema member "
              "artifact_resolution_service; pre-existing, message-class table "
              "only", "", "src/saml2_tophat/entity.py", nontrivial=False)


def _mentions(cfg, t, text):
    """does test node t evaluate `text` (temporaries expanded)?"""
    return any(isinstance(sub, ast.expr) and unparse(sub) == text
               for e in (t.ast, cfg.ctest(t.id)) for sub in ast.walk(e))


def m2_validity_gates(run):
    run.rule("M2", "with check_validity an entity or document whose validUntil "
             "has passed is never stored; no handler around the validity test "
             "lets processing fall through to the commit")
    m = run.model
    fi = m.func("mdstore.InMemoryMetaData.do_entity_descriptor")
    cfg = cfg_of(fi, m)
    commits = [nd.id for nd in cfg.by_kind("stmt")
               if isinstance(nd.ast, ast.Assign) and
               unparse(nd.ast.targets[0]).startswith("self.entity[")]
    run.require(commits, "do_entity_descriptor: commit to self.entity vanished")
    vt = "valid(entity_descr.valid_until)"
    tests = [t for t in cfg.by_kind("test") if _mentions(cfg, t, vt)]
    key = fi.qual + "::expired=>not-stored"
    if not tests:
        run.violated("M2", key, "validUntil of the entity is no longer tested",
                     fi.loc())
    else:
        wit = cfg.flag_search(cfg.entry, {}, lambda n, vd: n in commits,
                              assume={"self.check_validity": "T", vt: "F",
                                      "not " + vt: "T"},
                              edge_filter=lambda a, b: cfg.nodes[b].kind != "exc")
        run.check(wit is None, "M2", key,
                  "an expired entity never reaches the commit",
                  "commit reachable although valid(valid_until) is false",
                  fi.loc(), witness=cfg.describe_path(wit) if wit else None)
        # fail-open sub-rule: exception raised by the validity test
        t = tests[0]
        twins = [n.id for n in cfg.nodes if n.kind == "exc" and n.ast is t.ast]
        for tw in twins:
            for cmt in commits:
                others = {n.id for n in cfg.nodes if n.kind == "exc"} - {tw}
                p = cfg.path(tw, cmt, others)
                if p is None:
                    continue
                hs = [cfg.nodes[i].text() for i in p
                      if cfg.nodes[i].kind == "handler"]
                run.violated("M2", fi.qual + "::validity-test-raises->commit-"
                             "via:" + ";".join(hs),
                             "when valid(valid_until) raises (an unparsable, "
                             "e.g. offset-spelled, validUntil makes str_to_time "
                             "raise AttributeError) the handler falls through "
                             "and the entity is stored: the validity check "
                             "fails open", fi.loc(t.ast),
                             witness=cfg.describe_path(p))
                break
    # to_old bookkeeping + duplicates
    dup = [t for t in cfg.by_kind("test")
           if cfg.same(t.ast, t.id, "entity_descr.entity_id in self.entity")]
    ok = False
    if dup:
        tb = [b for b in cfg.succ[dup[0].id] if cfg.nodes[b].kind == "true"]
        ok = tb and not (set(commits) & cfg.reachable_from(
            tb[0], avoid=[n.id for n in cfg.nodes if n.kind == "exc"]))
    run.rule("M6", "a second definition of an entity id is ignored (first wins)")
    run.check(ok, "M6", fi.qual + "::first-definition-wins",
              "duplicate entity ids never overwrite",
              "a duplicate entity id can overwrite the stored entity", fi.loc())
    for cmt in commits:
        s = cfg.nodes[cmt].ast
        t0 = s.targets[0]
        run.check(isinstance(t0, ast.Subscript) and
                  unparse(t0.value) == "self.entity" and
                  cfg.same(t0.slice, cmt, "entity_descr.entity_id"),
                  "M6", fi.qual + "::commit-key",
                  "stored under its own entityID", "stored under %s" %
                  unparse(s.targets[0]), fi.loc(s), nontrivial=False)
    # parse(): EntitiesDescriptor
    fp = m.func("mdstore.InMemoryMetaData.parse")
    pcfg = cfg_of(fp, m)
    # the entities of the document: do_entity_descriptor(x) for x in
    # self.entities_descr.entity_descriptor
    loops = [lp for lp in pcfg.by_kind("foriter")
             if isinstance(lp.ast.target, ast.Name) and
             pcfg.same(lp.ast.iter, lp.id,
                       "self.entities_descr.entity_descriptor")]
    calls = [nd.id for nd, c in pcfg.call_nodes("do_entity_descriptor")
             if any(isinstance(arg_of(c, 0), ast.Name) and
                    arg_of(c, 0).id == lp.ast.target.id and
                    any(x is c for x in ast.walk(lp.ast)) for lp in loops)]
    vt2 = "valid(self.entities_descr.valid_until)"
    tests = [t for t in pcfg.by_kind("test") if _mentions(pcfg, t, vt2)]
    key = fp.qual + "::expired-document=>ToOld"
    if not tests or not calls:
        run.violated("M2", key, "validUntil of the document is no longer "
                     "tested", fp.loc())
    else:
        wit = pcfg.flag_search(pcfg.entry, {}, lambda n, vd: n in calls,
                               assume={"self.check_validity": "T", vt2: "F",
                                       "not " + vt2: "T",
                                       "not self.entities_descr": "F"},
                               edge_filter=lambda a, b:
                               pcfg.nodes[b].kind != "exc")
        run.check(wit is None, "M2", key,
                  "entities of an expired document are never loaded",
                  "entities of an expired EntitiesDescriptor are loaded",
                  fp.loc(), witness=pcfg.describe_path(wit) if wit else None)
        told = [r for r in pcfg.by_kind("raise")
                if raised_class(r.ast) == "ToOld"]
        run.check(bool(told), "M2", fp.qual + "::ToOld", "raises ToOld",
                  "ToOld no longer raised", fp.loc(), nontrivial=False)
    vi = [nd for nd, c in pcfg.call_nodes("valid_instance")]
    run.check(bool(vi) and all(any(pcfg.dominates(v.id, c) for v in vi)
                               for c in calls), "M2",
              fp.qual + "::schema-validated",
              "the document is schema-validated before its entities are loaded "
              "(this is what rejects unparsable validUntil values inside an "
              "EntitiesDescriptor)", "entities are loaded without schema "
              "validation of the document", fp.loc())
    # defaults
    for q in ("mdstore.InMemoryMetaData.__init__", "mdstore.MetadataStore.__init__",
              "mdstore.MetaData.__init__"):
        f = m.func(q)
        d = f.param_default("check_validity")
        run.check(d is not None and is_true_const(d), "M2",
                  f.qual + "::check_validity-default", "defaults to True",
                  "check_validity defaults to %s" % unparse(d), f.loc())
    mm = m.module("mdstore")
    run.check(mm.imports.get("valid") == {"saml2_tophat.time_util.valid"}, "M2",
              "mdstore.valid", "is time_util.valid (= before)",
              "mdstore.valid resolves to %s" % mm.imports.get("valid"),
              mm.relpath, nontrivial=False)
    c04.r1_before_after(run, rule="M2")


def m4_entity_isolation(run):
    run.rule("M4", "per-entity lookups index only by the entity id they were "
             "given; key use is filtered (C03.R6)")
    m = run.model
    for q, want in (("mdstore.InMemoryMetaData.attribute_requirement",
                     "self[entity_id]['spsso_descriptor']"),
                    ("mdstore.MetadataStore.entity_attributes",
                     "self.__getitem__(entity_id)['extensions']")):
        fi = m.func(q)
        subs = [unparse(s) for s in ast.walk(fi.node)
                if isinstance(s, ast.Subscript)]
        run.check(want in subs, "M4", fi.qual + "::index",
                  "indexes %s" % want, "lookup changed: %s" % subs[:5], fi.loc())
    fi = m.func("mdstore.MetadataStore.attribute_requirement")
    cfg = cfg_of(fi, m)
    for r in cfg.by_kind("return"):
        if r.ast.value is None or is_falsy_const(r.ast.value):
            continue            # "no source knows the entity": None
        gs = facts(cfg, r.id)
        run.check(Q("entity_id in _md", True) in gs and
                  unparse(r.ast.value) ==
                  "_md.attribute_requirement(entity_id, index)", "M4",
                  fi.qual + "::source", "answered by a source that holds the "
                  "entity", "attribute_requirement answered under %s" %
                  sorted(gs), fi.loc(r.ast))
    gi = m.func("mdstore.MetadataStore.__getitem__")
    run.check("return _md[item]" in unparse(gi.node) and
              "raise KeyError(item)" in unparse(gi.node), "M4",
              gi.qual, "first source holding the entity, else KeyError",
              "__getitem__ changed", gi.loc())
    ec = m.func("mdstore.MetadataStore.entity_categories")
    run.check("self.entity_attributes(entity_id)" in unparse(ec.node), "M4",
              ec.qual, "categories of that entity only",
              "entity_categories changed", ec.loc(), nontrivial=False)
    c03.r6_certs_filter(run)
    for r in run.results:
        if r["rule"] == "R6":
            r["rule"] = "M4"
    run.rules.pop("R6", None)


def m5_verify_before_serve(run):
    run.rule("M5", "with a verification certificate configured, entities of a "
             "signed document become visible only if the signature verified: "
             "the commit is dominated by the verification, or undone on "
             "failure, or every caller acts on the result")
    m = run.model
    fi = m.func("mdstore.InMemoryMetaData.parse_and_check_signature")
    cfg = cfg_of(fi, m)
    parse = [nd for nd, c in cfg.call_nodes("parse")
             if attr_chain(c.func) == "self.parse"]
    ver = [nd for nd, c in cfg.call_nodes("verify_signature")]
    run.require(parse and ver, "parse_and_check_signature: anchors vanished")
    # falsy verdict -> falsy result
    vcall = [c for nd, c in cfg.call_nodes("verify_signature")][0]
    truthy = [r.id for r in cfg.by_kind("return")
              if not is_falsy_const(r.ast.value)]
    wit = result_reaches(cfg, ver[0].id, vcall, truthy, "F",
                         assume={"self.cert": "T", "self.signed()": "T"})
    run.check(wit is None, "M5", fi.qual + "::invalid=>False",
              "an invalid signature yields a falsy result",
              "a truthy result is reachable although the signature did not "
              "verify", fi.loc(), witness=cfg.describe_path(wit) if wit else None)
    vc = [c for nd, c in cfg.call_nodes("verify_signature")][0]
    ok = unparse(arg_of(vc, 0)) == "txt" and \
        unparse(arg_of(vc, None, "cert_file")) == "self.cert"
    run.check(ok, "M5", fi.qual + "::verify-args",
              "verifies the received text under the configured certificate",
              "verify_signature(%s)" % unparse(vc), fi.loc(vc))
    committed_first = cfg.dominates(parse[0].id, ver[0].id)
    undone = any(isinstance(s, ast.Assign) and
                 unparse(s.targets[0]) == "self.entity"
                 for s in walk_no_nested(fi.node))
    if not committed_first or undone:
        run.holds("M5", fi.qual + "::commit-after-verify",
                  "entities are committed only after verification (or the "
                  "commit is undone)", fi.loc())
        return
    # commit precedes verification: every caller must act on the result
    bad = []
    n = 0
    for mi in m.modules.values():
        for c in ast.walk(mi.tree):
            if not (isinstance(c, ast.Call) and call_name(c) in
                    ("load", "parse_and_check_signature") and
                    isinstance(c.func, ast.Attribute)):
                continue
            recv = unparse(c.func.value)
            if call_name(c) == "load":
                # a metadata source: a plain local name or an entry of
                # self.metadata (not json.load / pickle.load / self.load)
                r0 = c.func.value
                src = (isinstance(r0, ast.Name) and r0.id not in mi.imports
                       and r0.id not in ("self", "cls")) or (
                    isinstance(r0, ast.Subscript) and
                    unparse(r0.value) == "self.metadata")
                if not src:
                    continue
            f = m.enclosing_function(mi, c)
            if f is None or not f.module.endswith("mdstore"):
                continue
            if f.qual in m.absorbed:
                continue        # new helper, analysed inline in its callers
            n += 1
            # is the call's value used (test / return / assigned)?
            parent_expr = None
            for s in walk_no_nested(f.node):
                if isinstance(s, ast.Expr) and s.value is c:
                    parent_expr = s
            if parent_expr is not None:
                bad.append((f, c))
    run.count("M5.load/parse_and_check_signature call sites", n)
    for f, c in bad:
        # (the key names the call, not the local the source is held in)
        ktxt = "_md.load()" if call_name(c) == "load" and \
            isinstance(c.func.value, ast.Name) else norm_text(c)
        run.violated("M5", "%s::%s-result-discarded" % (f.qual, ktxt),
                     "parse_and_check_signature stores the entities before it "
                     "verifies and reports failure only through its return "
                     "value; this caller discards it, so with a backend that "
                     "answers False instead of raising (CryptoBackendXMLSecurity)"
                     " entities of a document whose signature did not verify "
                     "are served", f.loc(c))
    if not bad:
        run.holds("M5", fi.qual + "::callers", "every caller acts on the "
                  "verdict", fi.loc())
    run.floor("M5", "call sites", n, 4)


def m7_generator_publishes_every_key(run):
    run.rule("M7", "generation side of the round trip: do_key_descriptor emits "
             "one KeyDescriptor per configured certificate under the use it is "
             "configured for (cert -> 'signing', enc_cert -> 'encryption'), "
             "unconditionally within its loop - the uses the store's key "
             "filter (C03.R6) reads back")
    m = run.model
    fi = m.func("metadata.do_key_descriptor")
    cfg = cfg_of(fi, m)
    org = Origins(cfg)
    seen = {}
    for nd, c in cfg.call_nodes("append"):
        kd = c.args[0] if c.args else None
        if not (isinstance(kd, ast.Call) and call_name(kd) == "KeyDescriptor"):
            continue
        use = arg_of(kd, None, "use")
        ki = arg_of(kd, None, "key_info")
        korg = Origins(cfg, transparent={"KeyInfo": "all", "X509Data": "all",
                                         "X509Certificate": "all"})
        src = {(a.kind, a.text) for a in korg.of(ki, nd.id)} \
            if ki is not None else set()
        key = "%s::%s" % (fi.qual, norm_text(c)[:40] + "..use=" +
                          (unparse(use) if use is not None else "None"))
        want = {"'signing'": ("param", "cert"),
                "'encryption'": ("param", "enc_cert")}.get(
                    unparse(use) if use is not None else "")
        run.check(want is not None and src == {want}, "M7", key + "::source",
                  "certificate text comes from the parameter of that use",
                  "a KeyDescriptor use=%s is built from %s" % (
                      unparse(use) if use is not None else None, sorted(src)),
                  fi.loc(c))
        if want:
            seen[want[1]] = True
        # inside its loop the append is unconditional: no guard mentions the
        # loop variable
        loops = [l for l in cfg.by_kind("foriter")
                 if cfg.dominates(l.id, nd.id)]
        lvars = {n.id for l in loops for n in ast.walk(l.ast.target)
                 if isinstance(n, ast.Name)}
        def per_use_dedupe(e, p):
            # `if c in seen: continue` where `seen` is filled only inside this
            # very loop drops repetitions within one use, not a use
            if not (isinstance(e, ast.Compare) and isinstance(e.ops[0], ast.In)
                    and p is False and isinstance(e.comparators[0], ast.Name)):
                return False
            coll = e.comparators[0].id
            fills = [n2 for n2, c2 in cfg.call_nodes("add") +
                     cfg.call_nodes("append")
                     if attr_chain(c2.func).split(".")[0] == coll]
            inner = loops[-1] if loops else None
            return bool(fills) and inner is not None and all(
                cfg.dominates(inner.id, f.id) and
                inner.id in cfg.reachable_from(f.id) for f in fills) and \
                len([l for l in cfg.by_kind("foriter")
                     if any(cfg.dominates(l.id, f.id) for f in fills)]) == \
                len(loops)
        gs = [(unparse(e), p) for e, p, _ in cfg.guards(nd.id)
              if {x.id for x in ast.walk(e) if isinstance(x, ast.Name)} & lvars
              and not per_use_dedupe(e, p)]
        run.check(bool(loops) and not gs, "M7", key + "::every-certificate",
                  "every configured certificate gets its KeyDescriptor",
                  "a configured certificate can be left out of the generated "
                  "metadata under %s: what the store serves for that use is no "
                  "longer what the configuration declares" % gs, fi.loc(c))
    run.check(seen.get("cert") and seen.get("enc_cert"), "M7",
              fi.qual + "::both-uses", "signing and encryption descriptors are "
              "both generated", "descriptors generated for %s only" %
              sorted(seen), fi.loc())
    n = 0
    for c in all_calls_named(m.module("metadata").tree, "do_key_descriptor"):
        n += 1
        a = arg_of(c, 1, "enc_cert")
        f = m.enclosing_function(m.module("metadata"), c)
        run.check(a is not None and unparse(a) == "enc_cert", "M7",
                  "%s::do_key_descriptor(enc_cert)" % (f.qual if f else "?"),
                  "the encryption certificates are handed to the generator",
                  "do_key_descriptor is called without the encryption "
                  "certificates (%s)" % (unparse(a) if a is not None else None),
                  "%s:%d" % (m.module("metadata").relpath, c.lineno),
                  nontrivial=False)
    run.floor("M7", "do_key_descriptor callers", n, 5)


def m10_configured_index_published(run):
    run.rule("M10", "generation side: do_endpoints publishes a configured "
             "endpoint index unchanged; the running counter is used only when "
             "the configuration holds NO index - a presence test, not a "
             "truthiness test (0 is a legal configured index)")
    m = run.model
    fi = m.func("metadata.do_endpoints")
    cfg = cfg_of(fi, m)
    counters = {nd.ast.target.id for nd in cfg.by_kind("stmt")
                if isinstance(nd.ast, ast.AugAssign) and
                isinstance(nd.ast.target, ast.Name)}
    writes = [nd for nd in cfg.by_kind("stmt")
              if isinstance(nd.ast, ast.Assign) and
              isinstance(nd.ast.targets[0], ast.Subscript) and
              isinstance(nd.ast.targets[0].slice, ast.Constant) and
              nd.ast.targets[0].slice.value == "index"]
    run.floor("M10", "index assignments in do_endpoints", len(writes), 2)
    auto = 0
    for nd in writes:
        s = nd.ast
        cont = unparse(s.targets[0].value)
        names = {x.id for x in ast.walk(s.value) if isinstance(x, ast.Name)}
        key = "%s::%s" % (fi.qual, norm_text(s))
        if names & counters:
            auto += 1
            gs = facts(cfg, nd.id)
            present = [Q("'index' in %s" % cont, False),
                       Q("%s.get('index') is None" % cont, True)]
            run.check(any(g in gs for g in present), "M10", key,
                      "the counter is used only when no index is configured",
                      "the running counter replaces the index under %s: a "
                      "configured index that is falsy (0) is not published" %
                      sorted(g for g in gs if "index" in g[0]), fi.loc(s))
        else:
            src = {x for x in ast.walk(s.value)
                   if isinstance(x, ast.Subscript) and
                   isinstance(x.slice, ast.Constant) and
                   x.slice.value == "index"}
            calls = {call_name(c) for c in ast.walk(s.value)
                     if isinstance(c, ast.Call)}
            run.check(bool(src) and calls <= {"str", "int"}, "M10", key,
                      "the configured index itself (as a string)",
                      "published index is %s" % unparse(s.value), fi.loc(s))
    run.check(auto >= 1, "M10", fi.qual + "::auto-index",
              "unindexed endpoints get the running counter",
              "no automatic index any more", fi.loc(), nontrivial=False)


def m13_loader_options_per_source(run):
    run.rule("M13", "the options one metadata source is constructed with "
             "(check_validity, node_name, filter) are its own: the mapping "
             "MetadataStore.load / imp fill per source and splat into the "
             "source's constructor is created in that call, never an object "
             "kept on the store")
    m = run.model
    n = 0
    for name in ("load", "imp"):
        fi = m.func("mdstore.MetadataStore." + name)
        fn = fi.node
        splat = set()
        for c in ast.walk(fn):
            if isinstance(c, ast.Call):
                for k in c.keywords:
                    if k.arg is None and isinstance(k.value, ast.Name):
                        splat.add(k.value.id)
        params = {a.arg for a in fn.args.args + fn.args.kwonlyargs}
        if fn.args.kwarg:
            params.add(fn.args.kwarg.arg)      # **kwargs is fresh per call
        written = set()
        for x in ast.walk(fn):
            tg = []
            if isinstance(x, ast.Assign):
                tg = x.targets
            elif isinstance(x, ast.AugAssign):
                tg = [x.target]
            elif isinstance(x, ast.Call) and isinstance(x.func, ast.Attribute) \
                    and x.func.attr in ("update", "setdefault", "pop", "clear"):
                tg = [ast.Subscript(value=x.func.value)]
            for t in tg:
                if isinstance(t, ast.Subscript) and isinstance(t.value, ast.Name):
                    written.add(t.value.id)
        for v in sorted(splat & written):
            for s in ast.walk(fn):
                if isinstance(s, ast.Assign) and any(
                        isinstance(t, ast.Name) and t.id == v
                        for t in s.targets):
                    n += 1
                    e = s.value
                    while isinstance(e, ast.IfExp):
                        # both arms are looked at: take the stored one if any
                        e = e.body if _kept(e.body) else e.orelse
                    bad = _kept(e)
                    run.check(not bad, "M13", "%s::%s" % (fi.qual, norm_text(s)[:60]),
                              "created in the call",
                              "`%s` is filled with one source's options and "
                              "splatted into its constructor, but it is the "
                              "object kept at %s: the options of one source "
                              "apply to every source loaded after it" %
                              (v, unparse(e)), fi.loc(s))
    run.require(n >= 1, "M13: no per-source option mapping found in "
                "MetadataStore.load / imp")


def _kept(e):
    """expression evaluates to an object that outlives the call: an attribute
    of self (or an alias chain ending there), not a copy"""
    if isinstance(e, ast.Attribute):
        return attr_chain(e).startswith("self.")
    return False


def check(run):
    run.explanation = (
        "C16: agreement of every accessor's (descriptor, service) keys and of "
        "the package's service tables with the reflected md/xmldsig class "
        "tables, validity gates (flag-sensitive, plus fail-open exception "
        "paths), entity isolation and key-use filter, unknown/unsupported "
        "distinction (C09.R4), verify-before-serve with caller inventory, "
        "duplicate handling, generator side of the key round trip "
        "(do_key_descriptor). Not decided: exactness for arbitrary federation "
        "documents; the rest of the config->metadata->store round trip.")
    run.assumptions = ["to_dict() keys are the member names of the schema "
                       "classes (mdie.to_dict iterates keyswv())"]
    data = reflect(run.model)
    m1_accessor_table_agreement(run, data)
    m2_validity_gates(run)
    c09.r4_store_side(run, rule="M3")
    m4_entity_isolation(run)
    m5_verify_before_serve(run)
    m7_generator_publishes_every_key(run)
    m10_configured_index_published(run)
    # a KeyDescriptor without `use` is declared for both uses: served for
    # every requested use (shared with C17.R7)
    from . import c17
    from .c02 import _as
    _as(run, "M12", c17.r7_encryption_key_lookup, "R7")
    from ..common_rules import memo_rule
    memo_rule(run, "M8", {"mdstore", "metadata", "config"}, "metadata lookups")
    td = run.model.func("mdie.to_dict")
    run.check("for key in _dict.keyswv()" in unparse(td.node) and
              "res[key] = _val" in unparse(td.node), "M1", td.qual + "::keys",
              "dictionary keys are member names", "to_dict changed", td.loc(),
              nontrivial=False)
    from ..common_rules import misplaced_rule
    misplaced_rule(run, "M9", {"config", "mdstore", "metadata", "entity", "mdie"}, "building and loading the metadata store")
    m13_loader_options_per_source(run)
