"""C07 - An IdP never releases attributes beyond what its policy allows."""
import ast

from ..match import facts, Q, just
from ..srcmodel import attr_chain, call_name, unparse, norm_text, walk_no_nested
from ..cfg import cfg_of, CFG
from ..dataflow import Origins
from .. import excflow
from ..match import (calls_named, arg_of, unguarded_path, only_raises_from,
                     is_falsy_const)


def _assertion_constructions(m):
    """(FuncInfo, cfg node, variable) for every `X = Assertion(...)`."""
    out = []
    for mi in m.modules.values():
        for fi in m.funcs.values():
            if fi.module != mi.name:
                continue
            for s in walk_no_nested(fi.node):
                if isinstance(s, ast.Assign) and isinstance(s.value, ast.Call) \
                        and call_name(s.value) == "Assertion" and \
                        len(s.targets) == 1 and \
                        isinstance(s.targets[0], ast.Name):
                    tg = m.resolve_name(mi, "Assertion")
                    if "saml2_tophat.assertion.Assertion" in tg:
                        out.append((fi, s, s.targets[0].id))
    return out


def r1_typestate(run):
    run.rule("R1", "raw -> filtered typestate: every path from "
             "`X = Assertion(identity)` to `X.construct(...)` passes a normally "
             "completed `X.apply_policy(...)` (an apply_policy that raised does "
             "not count)")
    m = run.model
    cons = _assertion_constructions(m)
    run.floor("R1", "Assertion(identity) constructions", len(cons), 2)
    # `Assertion(identity).construct(...)` - no name, hence no apply_policy
    for mi in m.modules.values():
        for fi in m.funcs.values():
            if fi.module != mi.name:
                continue
            for c in walk_no_nested(fi.node):
                if isinstance(c, ast.Call) and \
                        isinstance(c.func, ast.Attribute) and \
                        c.func.attr == "construct" and \
                        isinstance(c.func.value, ast.Call) and \
                        call_name(c.func.value) == "Assertion" and \
                        "saml2_tophat.assertion.Assertion" in \
                        m.resolve_name(mi, "Assertion"):
                    run.violated("R1", "%s::Assertion(...).construct" % fi.qual,
                                 "an assertion is built straight from a freshly "
                                 "wrapped identity: no policy can have been "
                                 "applied", fi.loc(c))
    for fi, stmt, var in cons:
        cfg = cfg_of(fi, m)
        start = cfg.node_of_stmt(stmt)
        sinks = [nd.id for nd, c in cfg.call_nodes("construct")
                 if attr_chain(c.func) == var + ".construct"]
        applies = [nd for nd, c in cfg.call_nodes("apply_policy")
                   if attr_chain(c.func) == var + ".apply_policy"]
        base = "%s::%s" % (fi.qual, var)
        if not sinks:
            run.holds("R1", base + "::no-construct", "identity is never turned "
                      "into an assertion here", fi.loc(stmt), nontrivial=False)
            continue
        if not applies:
            run.violated("R1", base + "::no-apply_policy",
                         "%s.construct() is reached but %s.apply_policy() is "
                         "never called: the raw identity is released" %
                         (var, var), fi.loc(stmt))
            continue
        exc_nodes = {n.id for n in cfg.nodes if n.kind == "exc"}
        apply_ids = [a.id for a in applies]
        # (a) normal control flow only
        p = None
        for s in sinks:
            p = p or cfg.path(start.id, s, set(apply_ids) | exc_nodes)
        if p is None:
            run.holds("R1", base + "::normal-paths",
                      "apply_policy dominates construct on normal paths",
                      fi.loc(stmt))
        else:
            via = [cfg.nodes[i].ctext() for i in p
                   if cfg.nodes[i].kind in ("true", "false") and any(
                       set(apply_ids) & cfg.reachable_from(sib, avoid=exc_nodes)
                       for sib in cfg.succ[cfg.nodes[i].test] if sib != i)]
            run.violated("R1", base + "::skips-apply_policy-via:" +
                         (";".join(via) or "fallthrough"),
                         "a normal path builds the assertion from the raw "
                         "identity without applying any policy",
                         fi.loc(stmt), witness=cfg.describe_path(p))
        # (b) apply_policy raised, identity still unfiltered
        for a in applies:
            twins = [n.id for n in cfg.nodes if n.kind == "exc" and
                     n.ast is a.ast]
            for t in twins:
                for s in sinks:
                    other = exc_nodes - {t}
                    p = cfg.path(t, s, other | set(apply_ids))
                    if p is None:
                        continue
                    hs = [cfg.nodes[i].text() for i in p
                          if cfg.nodes[i].kind == "handler"]
                    run.violated(
                        "R1", base + "::apply_policy-raises->construct-via:" +
                        ";".join(hs),
                        "when apply_policy() raises (it mutates the identity "
                        "only after restrict() returned) a handler lets "
                        "processing continue to construct(): the UNFILTERED "
                        "identity is put into the assertion",
                        fi.loc(a.ast), witness=cfg.describe_path(p))
                    break
        # what is handed to apply_policy is the entity's policy and metadata
        for a, c in [(nd, c) for nd, c in cfg.call_nodes("apply_policy")
                     if attr_chain(c.func) == var + ".apply_policy"]:
            args = [unparse(x) for x in c.args]
            run.check(len(args) >= 2 and args[0] == "sp_entity_id" and
                      args[1] == "policy", "R1", base + "::apply_policy-args",
                      "apply_policy(sp_entity_id, policy, ...)",
                      "apply_policy(%s)" % ", ".join(args), fi.loc(c),
                      nontrivial=False)
    # identity never reaches construct by another road: from_local(attrconvs,
    # self, ...) inside Assertion.construct reads the (filtered) dict itself
    co = m.func("assertion.Assertion.construct")
    fl = [c for c in calls_named(co.node, "from_local")]
    run.check(len(fl) == 1 and unparse(arg_of(fl[0], 1)) == "self", "R1",
              co.qual + "::from_local(self)",
              "the attribute statement is built from the Assertion dict itself",
              "attribute statement built from %s" %
              [unparse(arg_of(c, 1)) for c in fl], co.loc())


def r2_commit_shape(run):
    run.rule("R2", "apply_policy commits the filtered view: kept keys get the "
             "filtered values, all other keys are deleted")
    m = run.model
    fi = m.func("assertion.Assertion.apply_policy")
    cfg = cfg_of(fi, m)
    rs = [s for s in walk_no_nested(fi.node) if isinstance(s, ast.Assign) and
          isinstance(s.value, ast.Call) and call_name(s.value) == "restrict"]
    ok = len(rs) == 1 and isinstance(rs[0].targets[0], ast.Name)
    run.check(ok and [unparse(a) for a in rs[0].value.args][:2] ==
              ["self", "sp_entity_id"], "R2", fi.qual + "::restrict",
              "ava = policy.restrict(self, sp_entity_id, metadata)",
              "restrict call changed: %s" % [norm_text(r) for r in rs], fi.loc())
    if not ok:
        return
    ava = rs[0].targets[0].id
    loops = [n for n in walk_no_nested(fi.node) if isinstance(n, ast.For)]
    # all own keys, over a snapshot (the loop deletes): list(self.items()),
    # list(self.keys()), list(self), tuple(...)/sorted(...) of those
    def own_keys(it):
        if isinstance(it, ast.Call) and call_name(it) in ("list", "tuple",
                                                          "sorted") and \
                len(it.args) == 1:
            inner = unparse(it.args[0])
            if inner == "self.items()":
                return "items"
            if inner in ("self.keys()", "self"):
                return "keys"
        return None
    kind = own_keys(loops[0].iter) if len(loops) == 1 else None
    ok = kind is not None and (isinstance(loops[0].target, ast.Tuple) ==
                               (kind == "items"))
    run.check(ok, "R2", fi.qual + "::loop", "iterates over a snapshot of all "
              "own keys", "the loop over all own items vanished (or no longer "
              "iterates over a snapshot): %s" %
              [unparse(l.iter) for l in loops], fi.loc())
    if not ok:
        return
    lp = loops[0]
    key = lp.target.elts[0].id if isinstance(lp.target, ast.Tuple) else \
        unparse(lp.target)
    sets = [nd for nd in cfg.by_kind("stmt") if isinstance(nd.ast, ast.Assign)
            and unparse(nd.ast.targets[0]) == "self[%s]" % key]
    dels = [nd for nd in cfg.by_kind("stmt") if isinstance(nd.ast, ast.Delete)
            and unparse(nd.ast.targets[0]) == "self[%s]" % key]
    want_in = "%s in %s" % (key, ava)
    ok_set = len(sets) == 1 and unparse(sets[0].ast.value) == "%s[%s]" % (
        ava, key) and Q(want_in, True) in facts(cfg, sets[0].id)
    ok_del = len(dels) == 1 and Q(want_in, False) in facts(cfg, dels[0].id)
    run.check(ok_set, "R2", fi.qual + "::keep-arm",
              "key in ava => self[key] = ava[key]",
              "kept keys are not given the filtered values: %s" %
              [norm_text(s.ast) for s in sets], fi.loc(lp))
    run.check(ok_del, "R2", fi.qual + "::drop-arm",
              "key not in ava => del self[key]",
              "keys absent from the filtered view are not deleted", fi.loc(lp))


def r3_filters_narrow(run):
    run.rule("R3", "the filter functions only narrow: values stored in a "
             "result come from the input under a membership/match guard, and "
             "attributes without a restriction are removed")
    m = run.model
    # ---- filter_attribute_value_assertions
    fi = m.func("assertion.filter_attribute_value_assertions")
    cfg = cfg_of(fi, m)
    org = Origins(cfg)
    hs = [h for h in excflow.handlers_of(fi, m) if h.caught == ["KeyError"]]
    ok = len(hs) == 1 and any(isinstance(s, ast.Delete) and
                              unparse(s.targets[0]) == "ava[attr]"
                              for s in hs[0].handler.body)
    run.check(ok, "R3", fi.qual + "::unrestricted=>deleted",
              "an attribute without a restriction entry is deleted",
              "attributes missing from attribute_restrictions are no longer "
              "removed", fi.loc())
    stores = [nd for nd in cfg.by_kind("stmt") if isinstance(nd.ast, ast.Assign)
              and unparse(nd.ast.targets[0]).startswith("ava[")]
    run.floor("R3", "stores into ava", len(stores), 1)
    for nd in stores:
        got = org.of(nd.ast.value, nd.id)
        texts = {a.text for a in got if a.kind != "const"}
        ok = texts <= {"ava.items"} or texts <= {"ava"} or all(
            t.startswith("ava") for t in texts)
        run.check(ok, "R3", fi.qual + "::" + norm_text(nd.ast),
                  "stored values derive from the input values",
                  "value stored into the result derives from %s" % sorted(texts),
                  fi.loc(nd.ast))
    apps = [(nd, c) for nd, c in cfg.call_nodes("append")
            if attr_chain(c.func) == "rvals.append"]
    for nd, c in apps:
        gs = facts(cfg, nd.id)
        run.check(Q("restr.match(val)", True) in gs and
                  unparse(arg_of(c, 0)) == "val", "R3",
                  fi.qual + "::value-kept-iff-match",
                  "a value is kept only if a restriction pattern matches it",
                  "value kept under guards %s" % sorted(gs), fi.loc(c))
    run.floor("R3", "rvals.append sites", len(apps), 1)
    dels = [nd for nd in cfg.by_kind("stmt") if isinstance(nd.ast, ast.Delete)
            and unparse(nd.ast.targets[0]) == "ava[attr]"]
    run.check(any(Q("rvals", False) in facts(cfg, d.id) for d in dels), "R3",
              fi.qual + "::no-value-left=>deleted",
              "an attribute with no matching value is deleted",
              "attributes whose values all fail the patterns are kept", fi.loc())
    run.check(cfg.computes("attribute_restrictions[attr.lower()]"), "R3",
              fi.qual + "::lookup-key", "restriction looked up by the "
              "lower-cased attribute name", "restriction lookup changed",
              fi.loc(), nontrivial=False)
    # every round of the loop over the identity ends in a decision: the
    # attribute is deleted, or its values are REPLACED by the matching ones,
    # or it has no value restriction at all (`_rests is None`)
    import builtins
    for nd in stores:
        names = {x.id for x in ast.walk(ast.parse(
            cfg.itext(nd.ast.value, nd.id), mode="eval"))
            if isinstance(x, ast.Name) and not hasattr(builtins, x.id)}
        run.check(names == {"rvals"}, "R3",
                  fi.qual + "::" + norm_text(nd.ast) + "::only-matching",
                  "what is stored is built from the matching values only",
                  "the stored value is built from %s" % sorted(names),
                  fi.loc(nd.ast))
    iters = [n for n in cfg.nodes if n.kind == "iter" and
             "ava" in unparse(n.ast.iter)]
    free = [n.id for n in cfg.nodes if n.kind == "true" and
            (canon_q("_rests is None") in
             {(t, p) for t, p in cfg.branch_atoms(n.id)})]
    decided = {n.id for n in stores} | {n.id for n in dels} | set(free) | \
        {n.id for n in cfg.nodes if n.kind == "exc"}
    for it in iters:
        hdr = [n.id for n in cfg.nodes if n.kind == "for" and n.ast is it.ast]
        ends = hdr + [cfg.return_exit]
        wit = None
        for e in ends:
            wit = wit or cfg.path(it.id, e, decided)
        run.check(wit is None, "R3", fi.qual + "::every-round-decides",
                  "a restricted attribute never leaves the loop with its "
                  "original values",
                  "a round of the filter loop can end without deleting the "
                  "attribute or replacing its values by the matching ones: "
                  "values no pattern matched are released", fi.loc(it.ast),
                  witness=cfg.describe_path(wit) if wit else None)
    run.floor("R3", "filter loops over the identity", len(iters), 1)
    # ---- _filter_values
    fv = m.func("assertion._filter_values")
    vcfg = cfg_of(fv, m)
    for nd, c in vcfg.call_nodes("append"):
        gs = facts(vcfg, nd.id)
        run.check(Q("val in vals", True) in gs, "R3",
                  fv.qual + "::" + norm_text(c),
                  "kept only if the subject actually has the value",
                  "value appended under %s" % sorted(gs), fv.loc(c))
    rets = [unparse(r.ast.value) for r in vcfg.by_kind("return")]
    run.check(set(rets) <= {"vals", "res"}, "R3", fv.qual + "::returns",
              "returns the input values or the filtered subset",
              "returns %s" % rets, fv.loc())
    # ---- filter_on_attributes
    fa = m.func("assertion.filter_on_attributes")
    acfg = cfg_of(fa, m)
    rets = [unparse(r.ast.value) for r in acfg.by_kind("return")]
    init = [s for s in fa.node.body if isinstance(s, ast.Assign) and
            unparse(s.targets[0]) == "res" and unparse(s.value) == "{}"]
    run.check(rets == ["res"] and len(init) == 1, "R3", fa.qual + "::fresh-result",
              "returns a fresh dict filled only by the helpers",
              "filter_on_attributes returns %s" % rets, fa.loc())
    inner = [n for n in ast.walk(fa.node) if isinstance(n, ast.FunctionDef) and
             n.name == "_apply_attr_value_restrictions"]
    run.require(len(inner) == 1, "filter_on_attributes: helper vanished")
    wr = []
    for s in ast.walk(inner[0]):
        if isinstance(s, ast.Assign) and unparse(s.targets[0]).startswith("res[") \
                and isinstance(s.targets[0], ast.Subscript):
            wr.append((unparse(s.targets[0].slice), s.value))
        if isinstance(s, ast.Call) and attr_chain(s.func) == "res[].extend" and \
                isinstance(s.func.value, ast.Subscript):
            wr.append((unparse(s.func.value.slice), s.args[0]))
    # what is stored under a key are the subject's own values for that very key
    ok = len(wr) >= 2 and all(
        isinstance(w, ast.Call) and call_name(w) == "_filter_values" and
        unparse(w.args[0]) == "ava[%s]" % k for k, w in wr)
    wr = [w for k, w in wr]
    run.check(ok, "R3", fa.qual + "::writes",
              "res is filled only with _filter_values(ava[_fn], ...)",
              "res written from %s" % [unparse(w) for w in wr], fa.loc(inner[0]))
    # ---- filter_on_demands
    fd = m.func("assertion.filter_on_demands")
    dcfg = cfg_of(fd, m)
    dels = [nd for nd in dcfg.by_kind("stmt") if isinstance(nd.ast, ast.Delete)]
    ok = any(Q("attr not in oka", True) in facts(dcfg, d.id) for d in dels)
    run.check(ok, "R3", fd.qual + "::unasked=>deleted",
              "attributes nobody asked for are deleted",
              "filter_on_demands no longer deletes unasked attributes", fd.loc())


def r4_policy_filter(run):
    run.rule("R4", "Policy.filter/restrict: the result is a copy of the "
             "identity passed through the filters; attribute_restrictions are "
             "applied whenever configured")
    m = run.model
    fi = m.func("assertion.Policy.filter")
    cfg = cfg_of(fi, m)
    org = Origins(cfg, transparent={"copy": None})
    allowed_calls = {"filter_attribute_value_assertions", "filter_on_attributes",
                     "ava.copy"}
    for r in cfg.by_kind("return"):
        got = org.of(r.ast.value, r.id)
        bad = [repr(a) for a in got if not (
            a.kind == "const" or (a.kind == "call" and a.text in allowed_calls))]
        run.check(not bad, "R4", fi.qual + "::" + norm_text(r.ast),
                  "result derives from ava.copy() through the filter functions",
                  "result may derive from %s (e.g. the unfiltered input)" % bad,
                  fi.loc(r.ast))
    # every filter call works on a copy / previous result, never on `ava` itself
    for nd, c in cfg.call_nodes("filter_attribute_value_assertions") + \
            cfg.call_nodes("filter_on_attributes"):
        a0 = arg_of(c, 0)
        got = org.of(a0, nd.id)
        ok = all(a.kind == "call" and a.text in allowed_calls or a.kind == "const"
                 for a in got)
        run.check(ok, "R4", fi.qual + "::input:" + norm_text(c)[:60],
                  "filters a copy", "filters %s in place" %
                  sorted(a.text for a in got), fi.loc(c))
    # attribute restrictions applied whenever present
    defs = [nd for nd in cfg.by_kind("stmt") if isinstance(nd.ast, ast.Assign)
            and isinstance(nd.ast.targets[0], ast.Name) and
            isinstance(nd.ast.value, ast.Call) and
            call_name(nd.ast.value) == "get_attribute_restrictions"]
    rname = defs[0].ast.targets[0].id if defs else None
    key = fi.qual + "::attribute_restrictions-always-applied"
    if len(defs) != 1:
        run.violated("R4", key, "attribute restrictions are no longer fetched",
                     fi.loc())
    else:
        d = defs[0]
        checks = [nd.id for nd, c in cfg.call_nodes(
            "filter_attribute_value_assertions")
            if cfg.dominates(d.id, nd.id) and
            unparse(arg_of(c, 1, "attribute_restrictions")) == rname and
            {x.node for x in cfg.rd.reaching(rname, nd.id)} == {d.id}]
        if not checks:
            run.violated("R4", key, "configured attribute_restrictions are not "
                         "applied", fi.loc(d.ast))
        else:
            rets = [r.id for r in cfg.by_kind("return")]
            wit = unguarded_path(cfg, d.id, rets, checks,
                                 just(cfg, (rname, False)))
            run.check(wit is None, "R4", key,
                      "every path with restrictions passes the value filter "
                      "last", "a path returns without applying configured "
                      "attribute_restrictions", fi.loc(d.ast),
                      witness=cfg.describe_path(wit) if wit else None)
            # and its result is what is returned
            for cid in checks:
                st = cfg.nodes[cid].ast
                # ... the variable it is assigned to is what a return hands
                # out (directly or through plain copies)
                kept = False
                if isinstance(st, ast.Assign) and \
                        isinstance(st.targets[0], ast.Name):
                    for r in cfg.by_kind("return"):
                        if not isinstance(r.ast.value, ast.Name):
                            continue
                        todo = [(r.ast.value.id, r.id)]
                        seen = set()
                        while todo:
                            nm, at = todo.pop()
                            for dd in cfg.rd.reaching(nm, at):
                                if (dd.name, dd.node) in seen:
                                    continue
                                seen.add((dd.name, dd.node))
                                if dd.node == cid:
                                    kept = True
                                elif isinstance(dd.value, ast.Name):
                                    todo.append((dd.value.id, dd.node))
                run.check(kept, "R4",
                          fi.qual + "::restriction-result-kept",
                          "its result becomes the answer",
                          "result of the restriction filter is discarded",
                          fi.loc(st))
    # the result of a stage that ran is never thrown away for the unfiltered
    # identity: `_ava = ava.copy()` only where no stage has produced a result
    # (`_ava is None`), not where the result is merely empty
    def _stage(nd):
        return isinstance(nd.ast, ast.Assign) and any(
            call_name(c) in ("filter_attribute_value_assertions",
                             "filter_on_attributes")
            for c in ast.walk(nd.ast.value) if isinstance(c, ast.Call))
    stages = [nd for nd in cfg.by_kind("stmt") if _stage(nd)]
    resets = []
    for nd in cfg.by_kind("stmt"):
        st = nd.ast
        if not isinstance(st, ast.Assign) or _stage(nd) or \
                not isinstance(st.targets[0], ast.Name):
            continue
        got = org.of(st.value, nd.id)
        if got and all(a.kind == "call" and a.text == "ava.copy" or
                       a.kind == "param" and a.text == "ava" for a in got):
            resets.append(nd)
    run.floor("R4", "filter stages in Policy.filter", len(stages), 3)
    for nd in resets:
        tgt = nd.ast.targets[0].id
        after = [s for s in stages if nd.id in cfg.reachable_from(s.id) and
                 unparse(s.ast.targets[0]) == tgt]
        ok = not after or Q("%s is None" % tgt) in facts(cfg, nd.id, True)
        run.check(ok, "R4", fi.qual + "::reset-only-when-no-stage-ran::" +
                  norm_text(nd.ast),
                  "the unfiltered copy is taken only when no stage produced a "
                  "result (`%s is None`)" % tgt,
                  "after a filter stage has run, its (possibly empty) result can "
                  "be replaced by the unfiltered identity under %s" %
                  sorted(facts(cfg, nd.id)), fi.loc(nd.ast))
    run.floor("R4", "unfiltered-copy assignments in Policy.filter",
              len(resets), 1)
    fr = m.func("assertion.Policy.restrict")
    rcfg = cfg_of(fr, m)
    for r in rcfg.by_kind("return"):
        v = r.ast.value
        ok = isinstance(v, ast.Call) and attr_chain(v.func) == "self.filter" and \
            unparse(v.args[0]) == "ava" and unparse(v.args[1]) == "sp_entity_id"
        run.check(ok, "R4", fr.qual + "::" + norm_text(r.ast)[:70],
                  "returns self.filter(ava, sp_entity_id, ...)",
                  "restrict returns %s" % unparse(v), fr.loc(r.ast))
    spec = [c for c in calls_named(fr.node, "attribute_requirement")]
    run.check(len(spec) == 1 and unparse(arg_of(spec[0], 0)) == "sp_entity_id",
              "R4", fr.qual + "::requirements-of-that-sp",
              "requirements looked up for the requesting SP",
              "attribute_requirement(%s)" % [unparse(arg_of(c, 0)) for c in spec],
              fr.loc())
    g = m.func("assertion.Policy.get")
    subs = [unparse(s) for s in ast.walk(g.node) if isinstance(s, ast.Subscript)
            and "_restrictions" in unparse(s)]
    run.check("self._restrictions[sp_entity_id][attribute]" in subs and
              "self._restrictions['default'][attribute]" in subs, "R4",
              g.qual + "::per-sp-then-default",
              "per-SP entry first, then default",
              "policy lookup order changed: %s" % subs, g.loc())


def r5_error_branch(run):
    run.rule("R5", "without best_effort a MissingValue becomes an error "
             "response")
    m = run.model
    fi = m.func("server.Server.setup_assertion")
    cfg = cfg_of(fi, m)
    hs = [h for h in excflow.handlers_of(fi, m) if "MissingValue" in h.caught]
    key = fi.qual + "::MissingValue-handler"
    if len(hs) != 1:
        run.violated("R5", key, "MissingValue handler vanished", fi.loc())
        return
    h = hs[0]
    sinks = [nd.id for nd, c in cfg.call_nodes("construct")]
    wit = cfg.flag_search(h.cfgnode, {"best_effort": "F"},
                          lambda n, vd: n in sinks)
    run.check(wit is None, "R5", key + "::strict=>no-assertion",
              "no assertion is built after MissingValue unless best_effort",
              "an assertion is built after MissingValue although best_effort "
              "is off", h.loc(), witness=cfg.describe_path(wit) if wit else None)
    rets = [r for r in cfg.by_kind("return")
            if any(x is r.ast for x in ast.walk(h.handler))]
    ok = rets and all(isinstance(r.ast.value, ast.Call) and
                      call_name(r.ast.value) == "create_error_response"
                      for r in rets)
    run.check(ok, "R5", key + "::error-response",
              "returns create_error_response(...)",
              "handler no longer returns an error response", h.loc())


def canon_q(text, pol=True):
    return Q(text, pol)


def r6_entity_category_tuples(run):
    run.rule("R6", "entity categories: the attributes of a composite (tuple) "
             "category key are released only if EVERY member category is among "
             "the SP's categories - after any member that is not, the "
             "attribute list is emptied before it is used")
    m = run.model
    fi = m.func("assertion.post_entity_categories")
    cfg = cfg_of(fi, m)
    ecs = [nd.ast.targets[0].id for nd in cfg.by_kind("stmt")
           if isinstance(nd.ast, ast.Assign) and
           isinstance(nd.ast.targets[0], ast.Name) and
           isinstance(nd.ast.value, ast.Call) and
           call_name(nd.ast.value) == "entity_categories"]
    run.require(len(ecs) == 1, "post_entity_categories: the SP's entity "
                "categories are no longer looked up")
    ecs = ecs[0]
    loops = []
    for lp in cfg.by_kind("foriter"):
        it = lp.ast.iter
        if not isinstance(it, ast.Name) or not isinstance(lp.ast.target, ast.Name):
            continue
        if Q("isinstance(%s, tuple)" % it.id) in facts(cfg, lp.id):
            loops.append(lp)
    run.floor("R6", "loops over the members of a tuple key", len(loops), 1)
    from .. import canon
    for lp in loops:
        v = lp.ast.target.id
        mem = Q("%s in %s" % (v, ecs))[0]
        inside = {n.id for n in cfg.nodes
                  if n.ast is not None and any(
                      x is n.ast for x in ast.walk(lp.ast))}
        fails = []
        for n in cfg.nodes:
            if n.kind in ("true", "false"):
                for conj in canon._dnf(n.ast, n.kind == "true"):
                    if any(canon.ctext(e) == mem and p is False
                           for e, p in conj) and len(conj) >= 1 and \
                            all(canon.ctext(e) == mem for e, p in conj):
                        fails.append(n.id)
            elif n.kind == "exc" and isinstance(n.ast, ast.Assert) and \
                    canon.query(unparse(n.ast.test)) == (mem, True):
                fails.append(n.id)
        # what the branch assigns and where it is consumed
        resets = [n.id for n in cfg.by_kind("stmt")
                  if isinstance(n.ast, ast.Assign) and
                  isinstance(n.ast.targets[0], ast.Name) and
                  isinstance(n.ast.value, (ast.List, ast.Tuple)) and
                  not n.ast.value.elts]
        rnames = {cfg.nodes[r].ast.targets[0].id for r in resets}
        uses = [n.id for n in cfg.by_kind("foriter")
                if isinstance(n.ast.iter, ast.Name) and n.ast.iter.id in rnames]
        # ... or any other statement that reads the list (bulk update etc.)
        uses += [n.id for n in cfg.by_kind("stmt")
                 if n.id not in resets and not (
                     isinstance(n.ast, ast.Assign) and
                     isinstance(n.ast.targets[0], ast.Name) and
                     n.ast.targets[0].id in rnames) and
                 any(isinstance(x, ast.Name) and x.id in rnames and
                     isinstance(x.ctx, ast.Load) for x in ast.walk(n.ast))]
        key = "%s::for %s in %s" % (fi.qual, v, unparse(lp.ast.iter))
        if not fails or not uses:
            run.violated("R6", key, "the members of a tuple key are no longer "
                         "tested against the SP's categories (`%s`)" % mem,
                         fi.loc(lp.ast))
            continue
        other_exc = {n.id for n in cfg.nodes if n.kind == "exc"} - set(fails)
        wit = None
        for f in fails:
            for u in uses:
                wit = wit or cfg.path(f, u, set(resets) | other_exc)
        run.check(wit is None, "R6", key,
                  "a member outside the SP's categories empties the list on "
                  "every path to its use",
                  "after a member category the SP does not have, the "
                  "attributes of the composite key can still be released (one "
                  "matching member suffices)", fi.loc(lp.ast),
                  witness=cfg.describe_path(wit) if wit else None)


def r7_declared_requirements_complete(run):
    run.rule("R7", "the SP's declared requirement that narrows the release is "
             "complete: mdstore.attribute_requirement() collects the requested "
             "attributes of every AttributeConsumingService of the entity (only "
             "an explicitly given index narrows the services); an empty "
             "requirement would switch the narrowing off")
    m = run.model
    fi = m.func("mdstore.attribute_requirement")
    cfg = cfg_of(fi, m)
    outer = [l for l in cfg.by_kind("foriter")
             if "attribute_consuming_service" in cfg.itext(l.ast.iter, l.id)]
    key = fi.qual + "::all-services"
    if len(outer) != 1:
        run.violated("R7", key, "no loop over the entity's "
                     "attribute_consuming_service list", fi.loc())
        return
    lp = outer[0]
    it = cfg.itext(lp.ast.iter, lp.id)
    run.check(it == "entity['attribute_consuming_service']", "R7", key,
              "iterates entity['attribute_consuming_service'] itself",
              "the services consulted are %s: services can be left out before "
              "their requested attributes are read" % it, fi.loc(lp.ast))
    v = unparse(lp.ast.target)
    apps = [(nd, c) for nd, c in cfg.call_nodes("append")]
    run.floor("R7", "requirement appends", len(apps), 2)
    for nd, c in apps:
        gs = [(unparse(e), p) for e, p, b in cfg.guards(nd.id)
              if v in {x.id for x in ast.walk(e) if isinstance(x, ast.Name)}
              or "index" in {x.id for x in ast.walk(e)
                             if isinstance(x, ast.Name)}]
        # a service is skipped only for `index is not None and acs[index] != index`
        bad = [g for g in gs if "index" not in g[0]]
        run.check(not bad, "R7", fi.qual + "::" + norm_text(c)[:50],
                  "services are skipped only by an explicit index",
                  "a service's requested attributes are collected only under "
                  "%s" % bad, fi.loc(c))
    # with index None nothing is skipped
    skips = [n for n in cfg.by_kind("stmt") if isinstance(n.ast, ast.Continue)]
    for sk in skips:
        fs = facts(cfg, sk.id)
        run.check(Q("index is not None") in fs, "R7",
                  fi.qual + "::skip-needs-index",
                  "`continue` only when an index was given",
                  "a service is skipped under %s even without an index" %
                  sorted(fs), fi.loc(sk.ast))


def check(run):
    run.explanation = (
        "C07: typestate raw->filtered over every Assertion(identity) "
        "construction (normal and exceptional paths separately), commit shape "
        "of apply_policy, narrowing-only shape of the four filter functions, "
        "plumbing of Policy.filter/restrict, error branch of setup_assertion. "
        "Not decided: regex semantics, entity-category module contents.")
    run.assumptions = ["restrict() has no side effect on the identity before it "
                       "returns (checked: filters work on ava.copy())"]
    r1_typestate(run)
    r2_commit_shape(run)
    r3_filters_narrow(run)
    r4_policy_filter(run)
    r5_error_branch(run)
    r6_entity_category_tuples(run)
    r7_declared_requirements_complete(run)
    from ..common_rules import shared_state_rule
    shared_state_rule(run, "R8", {"assertion", "attribute_converter"},
                      "filtering one identity")
