"""C02 - SP signature requirements decide acceptance exactly as documented.

Decided: option plumbing (defaults, config keys, kwargs, per-response copies),
the two missing-signature raise sites, and the force/record/retry/restore protocol
of Entity._parse_response whose shape *is* the decision table.
"""
import ast

from ..match import facts, Q, extra_guards
from ..srcmodel import attr_chain, call_name, unparse, norm_text, walk_no_nested
from ..cfg import cfg_of, handler_names
from ..dataflow import Origins
from ..match import (calls_named, arg_of, mentions_attr, only_raises_from,
                     is_true_const, is_falsy_const, str_consts)
from . import c01

OPTIONS = {
    # SP option -> (default, AuthnResponse attribute)
    "want_response_signed": (True, "require_response_signature"),
    "want_assertions_signed": (False, "require_signature"),
    "want_assertions_or_response_signed":
        (False, "require_signature_or_response_signature"),
}


def r1_plumbing(run):
    run.rule("R1", "each of the three SP options travels unchanged: documented "
             "default -> config key -> Base attribute -> kwargs -> the matching "
             "per-response requirement attribute")
    m = run.model
    base = m.func("client_base.Base.__init__")
    # the defaults table: the dict display whose items() the option loop
    # walks - written in the loop header or bound to a name first
    def table_of(it):
        if not (isinstance(it, ast.Call) and isinstance(it.func, ast.Attribute)
                and it.func.attr == "items" and not it.args):
            return None, None
        x = it.func.value
        if isinstance(x, ast.Dict):
            return x, None
        if isinstance(x, ast.Name):
            ds = [n for n in walk_no_nested(base.node)
                  if isinstance(n, ast.Assign) and isinstance(n.value, ast.Dict)
                  and any(isinstance(t, ast.Name) and t.id == x.id
                          for t in n.targets)]
            if len(ds) == 1:
                return ds[0].value, x.id
        return None, None
    loops = []
    for n in walk_no_nested(base.node):
        if isinstance(n, ast.For) and isinstance(n.target, ast.Tuple) and \
                len(n.target.elts) == 2 and \
                all(isinstance(e, ast.Name) for e in n.target.elts):
            d, nm = table_of(n.iter)
            if d is not None and set(OPTIONS) <= {
                    k.value for k in d.keys if isinstance(k, ast.Constant)}:
                loops.append((n, d, nm))
    run.require(len(loops) == 1, "Base.__init__: loop over the items() of the "
                "option defaults table vanished")
    loop0, d, dtab = loops[0]
    dicts = [d]
    defaults = {k.value: v for k, v in zip(d.keys, d.values)
                if isinstance(k, ast.Constant)}
    for opt, (dflt, _attr) in OPTIONS.items():
        v = defaults.get(opt)
        ok = isinstance(v, ast.Constant) and v.value is dflt
        run.check(ok, "R1", base.qual + "::default:" + opt,
                  "default is %r" % dflt,
                  "default of %s is %s, documented default is %r" %
                  (opt, unparse(v) if v is not None else "<missing>", dflt),
                  base.loc(d))
    # the loop reads config.getattr(attr, "sp") and setattr(self, attr, val)
    cfg = cfg_of(base, m)
    org = Origins(cfg)
    sets = [(nd, c) for nd, c in cfg.call_nodes("setattr")
            if unparse(arg_of(c, 0)) == "self"]
    run.require(sets, "Base.__init__: setattr(self, attr, val) vanished")
    nd, c = sets[0]
    loops = [loop0]
    kname, dname = [e.id for e in loops[0].target.elts]
    in_loop = any(c is x for x in ast.walk(loops[0]))
    a1 = arg_of(c, 1)
    run.check(in_loop and isinstance(a1, ast.Name) and a1.id == kname, "R1",
              base.qual + "::setattr.name",
              "attribute name is the option key of the defaults table",
              "setattr name is %s, expected the loop key %s" %
              (unparse(a1), kname), base.loc(c))
    val_o = org.of(arg_of(c, 2), nd.id)
    calls = [a for a in val_o if a.kind == "call"]
    others = [a for a in val_o if a.kind not in ("call", "const")]
    ok = len(calls) >= 1 and all(a.text == "self.config.getattr" for a in calls) \
        and not others
    for a in calls:
        k = arg_of(a.ast, 0, "attr")
        ok = ok and isinstance(k, ast.Name) and k.id == kname
    run.check(ok, "R1", base.qual + "::setattr.value",
              "value is config.getattr(<key>, 'sp') or the table default",
              "value derives from %s" % sorted(a.text for a in val_o),
              base.loc(c))
    for a in val_o:
        if a.kind == "call" and a.text == "self.config.getattr":
            ctx = arg_of(a.ast, 1, "context")
            run.check(isinstance(ctx, ast.Constant) and ctx.value == "sp", "R1",
                      base.qual + "::getattr.context", "read in the sp context",
                      "option read in context %s" % unparse(ctx), base.loc(a.ast))
    # the defaults table is used as written: nothing changes an entry between
    # its definition and the loop (a default that depends on another option
    # makes one option override another)
    muts = []
    for n2 in walk_no_nested(base.node):
        if isinstance(n2, (ast.Assign, ast.AugAssign, ast.Delete)):
            tg = n2.targets if not isinstance(n2, ast.AugAssign) else [n2.target]
            for t in tg:
                if dtab and isinstance(t, ast.Subscript) and \
                        unparse(t.value) == dtab:
                    muts.append(n2)
        if dtab and isinstance(n2, ast.Call) and \
                isinstance(n2.func, ast.Attribute) and \
                unparse(n2.func.value) == dtab and \
                n2.func.attr in ("update", "pop", "setdefault", "clear",
                                 "popitem", "__setitem__"):
            muts.append(n2)
    run.check(not muts, "R1", base.qual + "::defaults-unchanged",
              "the documented defaults are applied as written",
              "the defaults table is modified before it is applied (%s): the "
              "default of one option now depends on something else" %
              [norm_text(x)[:60] for x in muts], base.loc(muts[0]) if muts
              else base.loc())
    # config.SP_ARGS
    cm = m.module("config")
    sp_args = set()
    for v in cm.assigns.get("SP_ARGS", []):
        sp_args |= set(str_consts(v))
    for opt in OPTIONS:
        run.check(opt in sp_args, "R1", "config.SP_ARGS::" + opt,
                  "accepted configuration key",
                  "%s is not a recognised SP configuration key" % opt,
                  cm.relpath, nontrivial=False)
    # kwargs in parse_authn_request_response
    par = m.func("client_base.Base.parse_authn_request_response")
    # the options dict is whatever is expanded into _parse_response(**...)
    stars = [k.value.id for c in calls_named(par.node, "_parse_response")
             for k in c.keywords if k.arg is None and
             isinstance(k.value, ast.Name)]
    dname = stars[0] if len(stars) == 1 else "kwargs"
    kd = [n for n in walk_no_nested(par.node)
          if isinstance(n, ast.Assign) and isinstance(n.value, ast.Dict) and
          any(isinstance(t, ast.Name) and t.id == dname for t in n.targets)]
    run.require(len(kd) == 1, "parse_authn_request_response: the options dict "
                "passed to _parse_response vanished")
    kw = {k.value: v for k, v in zip(kd[0].value.keys, kd[0].value.values)
          if isinstance(k, ast.Constant)}
    for opt in OPTIONS:
        v = kw.get(opt)
        ok = v is not None and attr_chain(v) == "self." + opt
        run.check(ok, "R1", par.qual + "::kwargs:" + opt,
                  "forwards self.%s" % opt,
                  "kwargs[%r] is %s, expected self.%s" %
                  (opt, unparse(v) if v is not None else "<missing>", opt),
                  par.loc(kd[0]))
    pcfg = cfg_of(par, m)
    porg = Origins(pcfg)
    prs = pcfg.call_nodes("_parse_response")
    run.require(len(prs) == 1, "parse_authn_request_response: _parse_response "
                "call vanished")
    pn, pc = prs[0]
    star = [k.value for k in pc.keywords if k.arg is None]
    run.check(len(star) == 1 and porg.texts(star[0], pn.id) >=
              {"self.want_response_signed"}, "R1", par.qual + "::**kwargs",
              "the kwargs dict is what _parse_response receives",
              "_parse_response is not called with the options dict",
              par.loc(pc))
    run.check(unparse(arg_of(pc, 1)) == "AuthnResponse", "R1",
              par.qual + "::response_cls", "parsed as AuthnResponse",
              "response class is %s" % unparse(arg_of(pc, 1)), par.loc(pc),
              nontrivial=False)
    # _parse_response hands **kwargs to response_cls
    pr = m.func("entity.Entity._parse_response")
    ctor = [c for c in calls_named(pr.node, "response_cls")]
    run.require(len(ctor) == 1, "_parse_response: response_cls(...) vanished")
    run.check(any(k.arg is None and unparse(k.value) == "kwargs"
                  for k in ctor[0].keywords), "R1", pr.qual + "::response_cls",
              "constructed with **kwargs", "kwargs not forwarded to the response "
              "class", pr.loc(ctor[0]))
    # AuthnResponse.__init__ mapping
    ar = m.func("response.AuthnResponse.__init__")
    acfg = cfg_of(ar, m)
    aorg = Origins(acfg)
    for opt, (_d, attr) in OPTIONS.items():
        hits = []
        for nd in acfg.by_kind("stmt"):
            s = nd.ast
            if isinstance(s, ast.Assign):
                for t in s.targets:
                    if attr_chain(t) == "self." + attr:
                        hits.append((nd, s))
        run.require(hits, "AuthnResponse.__init__: self.%s assignment vanished"
                    % attr)
        for nd, s in hits:
            got = aorg.texts(s.value, nd.id)
            run.check(got == {opt}, "R1", ar.qual + "::self." + attr,
                      "%s <- %s" % (attr, opt),
                      "self.%s is assigned from %s, expected parameter %s" %
                      (attr, sorted(got), opt), ar.loc(s))
        dflt = ar.param_default(opt)
        run.check(is_falsy_const(dflt), "R1", ar.qual + "::param-default:" + opt,
                  "parameter default is falsy (Base supplies the real default)",
                  "constructor default of %s is %s" % (opt, unparse(dflt)),
                  ar.loc(), nontrivial=False)
    # StatusResponse.__init__ initialises all three to False
    sr = m.func("response.StatusResponse.__init__")
    for _o, (_d, attr) in OPTIONS.items():
        vals = [s.value for s in walk_no_nested(sr.node)
                if isinstance(s, ast.Assign) and
                any(attr_chain(t) == "self." + attr for t in s.targets)]
        run.check(vals and all(isinstance(v, ast.Constant) and v.value is False
                               for v in vals), "R1",
                  sr.qual + "::self." + attr, "initialised False",
                  "base initialisation of %s is %s" %
                  (attr, [unparse(v) for v in vals]), sr.loc(),
                  nontrivial=False)


def r2_missing_signature_raises(run):
    run.rule("R2", "an unsigned element is refused exactly when its own "
             "requirement flag is set: response -> require_response_signature, "
             "assertion -> require_signature")
    m = run.model
    # response level
    fi = m.func("sigver.SecurityContext.correctly_signed_response")
    cfg = cfg_of(fi, m)
    hits = []
    for rn in cfg.by_kind("raise"):
        gs = facts(cfg, rn.id)
        if Q("response.signature", False) in gs:
            hits.append((rn, gs))
    key = fi.qual + "::raise-when-unsigned"
    if not hits:
        run.violated("R2", key, "no raise on the unsigned-response branch", fi.loc())
    for rn, gs in hits:
        extra = extra_guards(cfg, rn.id, ("response.signature", False),
                             ("require_response_signature", True),
                             ("response", True))
        run.check(Q("require_response_signature", True) in gs and not extra and
                  c01.raised_class(rn.ast) == "SignatureError", "R2", key,
                  "raise SignatureError iff unsigned and "
                  "require_response_signature",
                  "unsigned-response raise is guarded by %s" % sorted(gs),
                  fi.loc(rn.ast))
    # unsigned and not required -> returns the response
    wit = cfg.flag_search(cfg.entry, {"require_response_signature": "T"},
                          lambda n, vd: n == cfg.return_exit,
                          assume={"response.signature": "F"})
    run.check(wit is None, "R2", fi.qual + "::unsigned+required=>reject",
              "no normal return when unsigned and required",
              "returns normally for an unsigned response although the response "
              "signature is required", fi.loc(),
              witness=cfg.describe_path(wit) if wit else None)
    # _loads passes the per-response flags
    ld = m.func("response.StatusResponse._loads")
    lcfg = cfg_of(ld, m)
    sc = lcfg.call_nodes("signature_check")
    run.require(len(sc) == 1, "_loads: signature_check call vanished")
    nd, c = sc[0]
    a = arg_of(c, None, "require_response_signature")
    run.check(a is not None and attr_chain(a) == "self.require_response_signature",
              "R2", ld.qual + "::require_response_signature=",
              "forwards self.require_response_signature",
              "signature_check receives require_response_signature=%s" %
              unparse(a), ld.loc(c))
    a0 = arg_of(c, 0)
    run.check(unparse(a0) == "xmldata", "R2", ld.qual + "::text",
              "checks the received text", "signature_check is given %s" %
              unparse(a0), ld.loc(c), nontrivial=False)
    # result is what becomes self.response
    s = nd.ast
    ok = isinstance(s, ast.Assign) and any(
        attr_chain(t) == "self.response" for t in s.targets)
    run.check(ok, "R2", ld.qual + "::self.response",
              "self.response is the checked object",
              "result of signature_check is not stored as self.response",
              ld.loc(c))
    # assertion level
    af = m.func("response.AuthnResponse._assertion")
    acfg = cfg_of(af, m)
    found = False
    for rn in acfg.by_kind("raise"):
        gs = facts(acfg, rn.id)
        if Q("self.require_signature", True) in gs:
            found = True
            absent = any(("assertion.signature" in g or "hasattr" in g)
                         for g, _ in gs)
            extra = {g for g in gs if g[0] not in (
                "self.require_signature",
                "not hasattr(assertion, 'signature') or not assertion.signature")
                and "assertion.signature" not in g[0]}
            run.check(absent and not extra and
                      c01.raised_class(rn.ast) == "SignatureError", "R2",
                      af.qual + "::raise-when-unsigned",
                      "raise SignatureError iff unsigned and require_signature",
                      "unsigned-assertion raise is guarded by %s" % sorted(gs),
                      af.loc(rn.ast))
    if not found:
        run.violated("R2", af.qual + "::raise-when-unsigned",
                     "no raise guarded by self.require_signature on the "
                     "unsigned-assertion branch", af.loc())
    # unsigned + required never reaches `self.assertion = assertion`
    sinks = [nd.id for nd in acfg.by_kind("stmt")
             if isinstance(nd.ast, ast.Assign) and
             any(attr_chain(t) == "self.assertion" for t in nd.ast.targets)]
    run.require(sinks, "_assertion: `self.assertion = assertion` vanished")
    wit = acfg.flag_search(
        acfg.entry, {}, lambda n, vd: n in sinks,
        assume={"self.require_signature": "T", "assertion.signature": "F"})
    run.check(wit is None, "R2", af.qual + "::unsigned+required=>reject",
              "an unsigned assertion is never adopted when signatures are "
              "required", "an unsigned assertion is adopted although "
              "require_signature is set", af.loc(),
              witness=acfg.describe_path(wit) if wit else None)


PHASES = [
    # (requirement attribute, callee, signed-flag local)
    ("require_response_signature", "loads", "response_is_signed"),
    ("require_signature", "verify", "assertions_are_signed"),
]


def _assign_to(stmt, chain):
    return isinstance(stmt, ast.Assign) and any(
        attr_chain(t) == chain for t in stmt.targets)


def r4_force_record_retry_restore(run):
    run.rule("R4", "for each of the two phases: record S=response.<flag>, force "
             "it True, call; on a signature error re-raise iff S else restore "
             "and retry the same call inside the handler; the *_signed flag "
             "becomes True only in the else clause; finally restores S")
    m = run.model
    fi = m.func("entity.Entity._parse_response")
    tries = [n for n in walk_no_nested(fi.node) if isinstance(n, ast.Try)]
    cfg = cfg_of(fi, m)
    found = 0
    for flag, callee, signed in PHASES:
        chain = "response." + flag
        cands = [t for t in tries
                 if any(_assign_to(s, chain) and is_true_const(s.value)
                        for s in t.body)]
        key = "%s::phase:%s" % (fi.qual, flag)
        if len(cands) != 1:
            run.violated("R4", key, "expected exactly one try block that forces "
                         "%s = True, found %d" % (chain, len(cands)), fi.loc())
            continue
        found += 1
        t = cands[0]
        body = t.body
        # (i) record before force
        rec_i = [i for i, s in enumerate(body)
                 if isinstance(s, ast.Assign) and len(s.targets) == 1 and
                 isinstance(s.targets[0], ast.Name) and
                 attr_chain(s.value) == chain]
        force_i = [i for i, s in enumerate(body)
                   if _assign_to(s, chain) and is_true_const(s.value)]
        call_i = [i for i, s in enumerate(body)
                  if any(attr_chain(c.func) == "response." + callee
                         for c in calls_named(s, callee))]
        ok = bool(rec_i and force_i and call_i) and \
            rec_i[0] < force_i[0] < call_i[0]
        run.check(ok, "R4", key + "::record<force<call",
                  "records, then forces, then calls response.%s" % callee,
                  "order record/force/call broken (record at %s, force at %s, "
                  "call at %s)" % (rec_i, force_i, call_i), fi.loc(t))
        if not ok:
            continue
        S = body[rec_i[0]].targets[0].id
        the_call = [c for c in calls_named(body[call_i[0]], callee)
                    if attr_chain(c.func) == "response." + callee][0]
        # S is assigned only once in the function
        s_defs = [s for s in walk_no_nested(fi.node)
                  if isinstance(s, ast.Assign) and
                  any(isinstance(x, ast.Name) and x.id == S for x in s.targets)]
        run.check(len(s_defs) == 1, "R4", key + "::S-single-def",
                  "%s recorded once" % S,
                  "%s is reassigned (%d definitions)" % (S, len(s_defs)),
                  fi.loc(t))
        # (iii) the handler that catches SignatureError first
        sig_handler = None
        for h in t.handlers:
            names = handler_names(h)
            if names is None:
                sig_handler = h
                break
            if any(m.exc_is_subclass("SignatureError", n) for n in names):
                sig_handler = h
                break
        if sig_handler is None:
            run.violated("R4", key + "::handler", "no handler for SignatureError "
                         "in the phase's try block", fi.loc(t))
            continue
        hn = [n for n in cfg.nodes if n.kind == "handler" and
              n.ast is sig_handler][0]
        # paths from handler with S true: must all raise, without retry
        inside = {id(x) for x in ast.walk(sig_handler)}
        wit = cfg.flag_search(
            hn.id, {S: "T"},
            lambda n, vd: cfg.nodes[n].ast is not None and
            id(cfg.nodes[n].ast) not in inside and
            cfg.nodes[n].kind not in ("exc", "raise_exit", "join"),
            edge_filter=lambda a, b: cfg.nodes[b].kind != "exc")
        # leaving the handler normally means: swallowed although required.
        # (the finally copy is outside `inside`; a raise goes through join)
        swallowed_required = None
        if wit is not None:
            last = cfg.nodes[wit[-1]]
            prev = cfg.nodes[wit[-2]] if len(wit) > 1 else None
            if not (prev is not None and prev.kind == "raise"):
                swallowed_required = wit
        run.check(swallowed_required is None, "R4", key + "::required=>reraise",
                  "when %s is true the handler only re-raises" % S,
                  "signature error swallowed although %s (the recorded "
                  "requirement) is true" % S, fi.loc(sig_handler),
                  witness=cfg.describe_path(swallowed_required)
                  if swallowed_required else None)
        # the handler tests the recorded local, not the (forced) attribute
        tests = [n for n in walk_no_nested(sig_handler) if isinstance(n, ast.If)]
        uses_attr = any(isinstance(a, ast.Attribute) and a.attr == flag
                        for x in tests for a in ast.walk(x.test))
        uses_S = any(isinstance(x.test, ast.Name) and x.test.id == S or
                     (isinstance(x.test, ast.UnaryOp) and
                      isinstance(x.test.operand, ast.Name) and
                      x.test.operand.id == S) for x in tests)
        run.check(uses_S and not uses_attr, "R4", key + "::tests-recorded-value",
                  "handler decides on the recorded local %s" % S,
                  "handler decides on %s, which is always True at this point "
                  "(forced), instead of the recorded value" % chain
                  if uses_attr else "handler does not test the recorded value",
                  fi.loc(sig_handler))
        # not required: restore then retry same call inside handler
        restores = [s for s in walk_no_nested(sig_handler)
                    if _assign_to(s, chain) and isinstance(s.value, ast.Name)
                    and s.value.id == S]
        retries = [c for c in calls_named(sig_handler, callee)
                   if attr_chain(c.func) == "response." + callee]
        same = retries and all(norm_text(c) == norm_text(the_call)
                               for c in retries)
        nested_try = any(isinstance(x, ast.Try) for x in walk_no_nested(sig_handler)
                         if x is not sig_handler)
        ok = bool(restores) and bool(retries) and same and not nested_try
        if ok:
            rs = cfg.node_of_stmt(restores[0])
            rc = [n for n, c in cfg.call_nodes(callee) if c is retries[0]]
            ok = rs is not None and rc and cfg.dominates(rs.id, rc[0].id)
            # retry result is what continues
            st = rc[0].ast if rc else None
            ok = ok and isinstance(st, ast.Assign) and any(
                isinstance(x, ast.Name) and x.id == "response"
                for x in st.targets)
        run.check(ok, "R4", key + "::restore+retry",
                  "restores %s then re-runs %s inside the handler (a second "
                  "failure propagates)" % (chain, norm_text(the_call)),
                  "retry protocol broken: restore=%d retry=%d same-args=%s "
                  "nested-try=%s" % (len(restores), len(retries), bool(same),
                                     nested_try), fi.loc(sig_handler))
        # every path through the handler with S false passes the retry
        if retries:
            rc_ids = [n.id for n, c in cfg.call_nodes(callee)
                      if any(c is r for r in retries)]
            wit = cfg.flag_search(
                hn.id, {S: "F"},
                lambda n, vd: cfg.nodes[n].ast is not None and
                id(cfg.nodes[n].ast) not in inside and
                cfg.nodes[n].kind not in ("exc", "raise_exit", "join",
                                          "return_exit"),
                avoid=rc_ids,
                edge_filter=lambda a, b: cfg.nodes[b].kind != "exc")
            bad = wit is not None and not (len(wit) > 1 and
                                           cfg.nodes[wit[-2]].kind == "raise")
            run.check(not bad, "R4", key + "::not-required=>retry",
                      "every non-raising path through the handler re-runs the "
                      "call", "the handler can complete without re-running %s: "
                      "the message would continue unchecked" % callee,
                      fi.loc(sig_handler),
                      witness=cfg.describe_path(wit) if bad else None)
        # (iv) signed flag
        defs = [s for s in walk_no_nested(fi.node)
                if isinstance(s, ast.Assign) and
                any(isinstance(x, ast.Name) and x.id == signed for x in s.targets)]
        in_else = [s for s in defs if any(s is e for o in t.orelse
                                          for e in ast.walk(o))]
        trues = [s for s in defs if not is_falsy_const(s.value)]
        falses = [s for s in defs if is_falsy_const(s.value)]
        ok = len(trues) == 1 and trues[0] in in_else and \
            is_true_const(trues[0].value) and len(falses) >= 1
        run.check(ok, "R4", key + "::signed-flag-only-in-else",
                  "%s initialised False and set True only in the else clause" %
                  signed,
                  "%s is set truthy outside the else clause of the forced "
                  "phase (definitions: %s)" % (signed, [norm_text(s) for s in defs]),
                  fi.loc(t))
        if falses:
            fn = cfg.node_of_stmt(falses[0])
            cn = [n for n, c in cfg.call_nodes(callee) if c is the_call]
            run.check(fn is not None and cn and cfg.dominates(fn.id, cn[0].id),
                      "R4", key + "::signed-flag-init",
                      "initialised before the forced call",
                      "%s not initialised False before the forced call" % signed,
                      fi.loc(falses[0]))
        # (v) finally restores
        fin = [s for f in t.finalbody for s in ast.walk(f)
               if _assign_to(s, chain) and isinstance(s.value, ast.Name) and
               s.value.id == S]
        run.check(bool(fin), "R4", key + "::finally-restores",
                  "finally: %s = %s" % (chain, S),
                  "the forced requirement is not restored in a finally clause: "
                  "later phases would see %s = True" % chain, fi.loc(t))
    run.floor("R4", "phases", found, 2)


def r5_either_or(run):
    run.rule("R5", "with want_assertions_or_response_signed, acceptance requires "
             "response_is_signed or assertions_are_signed")
    m = run.model
    fi = m.func("entity.Entity._parse_response")
    cfg = cfg_of(fi, m)
    flag = "response.require_signature_or_response_signature"
    finals = []
    for rn in cfg.by_kind("return"):
        if not (isinstance(rn.ast.value, ast.Name) and
                rn.ast.value.id == "response"):
            continue
        gs = facts(cfg, rn.id)
        if Q("not response", True) in gs or Q("not xmlstr", True) in gs:
            continue
        finals.append(rn.id)
    run.require(finals, "_parse_response: final `return response` vanished")
    verify_calls = [n.id for n, c in cfg.call_nodes("verify")
                    if attr_chain(c.func) == "response.verify"]
    run.require(verify_calls, "_parse_response: response.verify call vanished")
    wit = cfg.flag_search(
        cfg.entry, {"response_is_signed": "U", "assertions_are_signed": "U"},
        lambda n, vd: n in finals and vd["response_is_signed"] == "F" and
        vd["assertions_are_signed"] == "F",
        assume={flag: "T"})
    key = fi.qual + "::either-or"
    run.check(wit is None, "R5", key,
              "the accepting return is unreachable with both *_signed flags "
              "False when the either-or option is on",
              "accepting return reachable with neither the response nor the "
              "assertions signed although the either-or option is on",
              fi.loc(), witness=cfg.describe_path(wit, 24) if wit else None)
    # the guard is on the option itself (an option-independent raise would
    # reject valid unsigned responses when nothing is required)
    wit2 = cfg.flag_search(
        cfg.entry, {"response_is_signed": "U", "assertions_are_signed": "U"},
        lambda n, vd: n in finals and vd["response_is_signed"] == "F" and
        vd["assertions_are_signed"] == "F",
        assume={flag: "F"})
    run.check(wit2 is not None, "R5", key + "::only-when-enabled",
              "without the option an unsigned response can still be accepted",
              "the either-or rejection fires even when the option is off",
              fi.loc())


def check(run):
    run.explanation = (
        "C02: writer/reader agreement of the three SP options from the "
        "documented defaults to the per-response requirement attributes; the "
        "guards of the two missing-signature raise sites; the force/record/"
        "retry/restore protocol of Entity._parse_response (flag-sensitive CFG "
        "search per phase); the either-or gate. Present-but-invalid signatures "
        "(C01.R5/R8) are re-evaluated here. Not decided: the outcome of each "
        "row of the 8x4x2 table at run time (needs xmlsec1).")
    run.assumptions = ["Config.getattr(attr, 'sp') returns the configured "
                       "value or None", "CFG exception edges over-approximate"]
    r1_plumbing(run)
    r2_missing_signature_raises(run)
    run.rule("R3", "a present signature is verified regardless of the options "
             "(C01.R5) and its failure propagates (C01.R8)")
    _as(run, "R3", c01.r5_present_implies_checked, "R5")
    r4_force_record_retry_restore(run)
    r5_either_or(run)
    _as(run, "R6", c01.r8_handler_inventory, "R8")
    # "every signature that is present verifies": the verdict of the
    # verifier, not its mere return, marks a signature as verified (C01.R7)
    _as(run, "R7", c01.r7_response_path, "R7")
    # ... and the flags that switch verification off stay closed: only the
    # library's own second pass may set them (C01.R6)
    _as(run, "R8", c01.r6_bypass_flags_closed, "R6")


def _as(run, rule, fn, orig):
    """Run a shared rule and re-label its instances under this property."""
    before = len(run.results)
    stmt = run.rules.get(orig)
    fn(run)
    for r in run.results[before:]:
        if r["rule"] == orig:
            r["rule"] = rule
    if orig in run.rules and orig != rule:
        run.rules.setdefault(rule, run.rules[orig])
        if stmt is None:
            del run.rules[orig]
        else:
            run.rules[orig] = stmt
