"""C04 - Assertions are honoured only inside their validity windows.

Exports the time normal-form helpers used by C10, C16 and C19.
"""
import ast

from ..match import facts, Q
from ..srcmodel import attr_chain, call_name, unparse, norm_text, walk_no_nested
from ..cfg import cfg_of, raised_class
from ..dataflow import Origins, ReachingDefs
from .. import linear
from ..linear import form, normal_forms, same_modulo_equality, show
from .. import excflow
from ..match import result_reaches, just
from ..match import (calls_named, all_calls_named, arg_of, unguarded_path,
                     is_falsy_const, is_true_const, only_raises_from)

DAY = 86400
TD_ORDER = ["days", "seconds", "microseconds", "milliseconds", "minutes",
            "hours", "weeks"]
TD_SECONDS = {"days": DAY, "seconds": 1, "microseconds": 1e-6,
              "milliseconds": 1e-3, "minutes": 60, "hours": 3600,
              "weeks": 7 * DAY}


class TimeSym(object):
    """Symbol resolver for the linear normaliser (see DESIGN 2.5)."""

    def __init__(self, cfg, nid, params=None, attrs=None):
        self.cfg = cfg
        self.rd = ReachingDefs(cfg)
        self.nid = nid
        self.params = params or {}
        self.attrs = attrs or {}
        self._depth = 0

    def __call__(self, e):
        return self.resolve(e, self.nid)

    def resolve(self, e, nid):
        self._depth += 1
        try:
            if self._depth > 30:
                return None
            return self._resolve(e, nid)
        finally:
            self._depth -= 1

    def _lin(self, e, nid):
        return linear.linearize(e, lambda x: self.resolve(x, nid))

    def _resolve(self, e, nid):
        if isinstance(e, ast.Name):
            defs = self.rd.reaching(e.id, nid)
            if len(defs) == 1 and defs[0].kind == "param":
                return self.params.get(e.id, "param:" + e.id)
            vals = []
            for d in defs:
                if d.kind == "param":
                    vals.append(_freeze(self.params.get(e.id, "param:" + e.id)))
                elif d.kind == "assign":
                    r = self._lin(d.value, d.node)
                    vals.append(_freeze(r))
                else:
                    return None
            vals = set(vals)
            if len(vals) == 1:
                v = vals.pop()
                return dict(v) if isinstance(v, frozenset) else v
            # e.g. `point` converted by str_to_time / gmtime on some branches:
            # all conversions of the same parameter denote the same instant
            plain = {v for v in vals}
            if len(plain) == 1:
                return plain.pop()
            return None
        if isinstance(e, ast.Attribute):
            ch = attr_chain(e)
            if ch in self.attrs:
                return self.attrs[ch]
            return None
        if isinstance(e, ast.Call):
            name = call_name(e)
            ch = attr_chain(e.func) or ""
            if name in ("utc_now", "utcnow") and not e.args:
                return "now"
            if name == "gmtime":
                if not e.args:
                    return "now"
                return self._lin(e.args[0], nid)
            if name in ("timegm", "str_to_time", "int", "float") and e.args:
                return self._lin(e.args[0], nid)
            if name == "timetuple" and isinstance(e.func, ast.Attribute):
                return self._lin(e.func.value, nid)
            if name == "shift_time" and arg_of(e, 0, "dtime") is not None \
                    and arg_of(e, 1, "shift") is not None:
                a = self._lin(arg_of(e, 0, "dtime"), nid)
                b = self._lin(arg_of(e, 1, "shift"), nid)
                if a is None or b is None:
                    return None
                return linear._add(a, b)
            if name in ("time_in_a_while", "time_a_while_ago"):
                delta = {}
                for i, a in enumerate(e.args):
                    v = self._lin(a, nid)
                    if v is None:
                        return None
                    delta = linear._add(delta, linear._scale(
                        v, TD_SECONDS[TD_ORDER[i]]))
                for k in e.keywords:
                    if k.arg not in TD_SECONDS:
                        return None
                    v = self._lin(k.value, nid)
                    if v is None:
                        return None
                    delta = linear._add(delta, linear._scale(
                        v, TD_SECONDS[k.arg]))
                sign = 1 if name == "time_in_a_while" else -1
                return linear._add({"now": 1}, delta, sign)
            return None
        return None


def _freeze(r):
    if isinstance(r, str):
        r = {r: 1}
    if isinstance(r, dict):
        return frozenset(r.items())
    return r


# ------------------------------------------------------------------ summaries
def check_helper_summaries(run, rule="R1"):
    """The helper summaries used by TimeSym are re-verified against the helper
    bodies on every run."""
    m = run.model
    tu = "time_util."
    for name, sign in (("time_in_a_while", ast.Add), ("time_a_while_ago", ast.Sub)):
        fi = m.func(tu + name)
        cfg = cfg_of(fi, m)
        params = [a.arg for a in fi.node.args.args]
        rets = cfg.by_kind("return")
        ok = params == TD_ORDER and len(rets) == 1
        if ok:
            from ..dataflow import inline_expr
            v = inline_expr(cfg.rd, rets[0].ast.value, rets[0].id)
            ok = isinstance(v, ast.BinOp) and isinstance(v.op, sign) and \
                isinstance(v.left, ast.Call) and \
                call_name(v.left) == "utcnow" and \
                isinstance(v.right, ast.Call) and \
                call_name(v.right) == "timedelta"
            if ok:
                # timedelta's own parameter order, by position or keyword
                td = v.right
                got = dict(zip(TD_ORDER, [unparse(a) for a in td.args]))
                for k in td.keywords:
                    ok = ok and k.arg in TD_ORDER and k.arg not in got
                    got[k.arg] = unparse(k.value)
                ok = ok and got == {p: p for p in TD_ORDER}
        run.check(ok, rule, fi.qual + "::summary",
                  "%s(...) == utcnow() %s timedelta(days, seconds, ...)" %
                  (name, "+" if sign is ast.Add else "-"),
                  "helper body no longer matches its summary", fi.loc())
    fi = m.func(tu + "shift_time")
    scfg = cfg_of(fi, m)
    rets = scfg.by_kind("return")
    ok = len(rets) == 1 and scfg.same(rets[0].ast.value, rets[0].id,
                                      "dtime + timedelta(seconds=shift)")
    run.check(ok, rule, fi.qual + "::summary", "shift_time(t, s) == t + s seconds",
              "shift_time body no longer matches its summary: %s" %
              (unparse(rets[0].ast.value) if rets else "?"), fi.loc())
    fi = m.func(tu + "str_to_time")
    rets = [n for n in walk_no_nested(fi.node) if isinstance(n, ast.Return)]
    vals = sorted(unparse(r.value) for r in rets)
    thens = sorted(unparse(s2.value) for s2 in walk_no_nested(fi.node)
                   if isinstance(s2, ast.Assign) and
                   unparse(s2.targets[0]) == "then")
    plain = vals == ["0", "time.gmtime(calendar.timegm(then))"] and \
        all(t.startswith("time.strptime(") for t in thens) and thens
    if plain:
        run.holds(rule, fi.qual + "::summary", "str_to_time(s) is the plain "
                  "conversion gmtime(timegm(strptime(s))): no arithmetic on the "
                  "parsed instant", fi.loc())
    elif _zone_offset_verdict(run, rule, fi):
        pass
    else:
        run.undecided(rule, fi.qual + "::summary",
                      "str_to_time is no longer the plain conversion "
                      "gmtime(timegm(strptime(...))) that every time rule "
                      "summarises as the identity (returns %s; `then` from %s): "
                      "whether arithmetic applied to the parsed instant (zone "
                      "offsets, rounding) has the right sign and size is not "
                      "decidable by these rules" % (vals, thens), fi.loc())
    fi = m.func(tu + "utc_now")
    rets = [n for n in walk_no_nested(fi.node) if isinstance(n, ast.Return)]
    ok = len(rets) == 1 and unparse(rets[0].value) == \
        "calendar.timegm(time.gmtime())"
    run.check(ok, rule, fi.qual + "::summary", "utc_now() == timegm(gmtime())",
              "utc_now body no longer matches its summary", fi.loc())


def _zone_offset_verdict(run, rule, fi):
    """str_to_time applies arithmetic to the parsed instant.  Decide the one
    shape that has a definite answer: `gmtime(timegm(then) + c*off)` where `off`
    is a positive magnitude built from matched digits and negated under a test
    of the sign character.  A '+hh:mm' designator means local = UTC + hh:mm, so
    the magnitude of a '+' zone must be SUBTRACTED.  Returns True when a
    verdict (HOLDS/VIOLATED) was recorded."""
    m = run.model
    cfg = cfg_of(fi, m)
    rets = [r for r in cfg.by_kind("return")
            if isinstance(r.ast.value, ast.Call) and
            call_name(r.ast.value) == "gmtime" and r.ast.value.args]
    if len(rets) != 1:
        return False
    arg = rets[0].ast.value.args[0]

    def sym(e):
        if isinstance(e, ast.Call) and call_name(e) == "timegm" and e.args and \
                isinstance(e.args[0], ast.Name):
            return "then"
        if isinstance(e, ast.Name):
            return "off:" + e.id
        return None
    lin = linear.linearize(arg, sym)
    if not lin or lin.get("then") != 1:
        return False
    offs = [k for k in lin if isinstance(k, str) and k.startswith("off:")]
    if len(offs) != 1 or set(lin) - {"then", offs[0]}:
        return False
    coeff = lin[offs[0]]
    name = offs[0][4:]
    flips = []          # (sign character tested, polarity of the flipping branch)
    magnitude_ok = False
    for nd in cfg.by_kind("stmt"):
        s2 = nd.ast
        if not (isinstance(s2, ast.Assign) and
                unparse(s2.targets[0]) == name):
            continue
        v = s2.value
        if isinstance(v, ast.Constant) and v.value == 0:
            continue
        if isinstance(v, ast.UnaryOp) and isinstance(v.op, ast.USub) and \
                unparse(v.operand) == name:
            for e, pol, _ in cfg.guards(nd.id):
                if isinstance(e, ast.Compare) and len(e.ops) == 1 and \
                        isinstance(e.ops[0], ast.Eq) and \
                        isinstance(e.comparators[0], ast.Constant) and \
                        e.comparators[0].value in ("+", "-"):
                    flips.append((e.comparators[0].value, pol))
            continue
        # positive magnitude: sum of int(<group>) * positive constants
        pos = True
        for sub in ast.walk(v):
            if isinstance(sub, (ast.USub, ast.Sub)):
                pos = False
        magnitude_ok = magnitude_ok or (pos and any(
            isinstance(x, ast.Call) and call_name(x) == "int"
            for x in ast.walk(v)))
    if not magnitude_ok or len(flips) != 1:
        return False
    ch, pol = flips[0]
    # sign of `off` when the designator is '+'
    negated_for_plus = (ch == "+" and pol) or (ch == "-" and not pol)
    sign_plus = -1 if negated_for_plus else 1
    effective = coeff * sign_plus
    key = fi.qual + "::zone-offset-sign"
    if effective == -1:
        run.holds(rule, key, "a '+hh:mm' designator is subtracted to reach UTC",
                  fi.loc(rets[0].ast))
        return True
    if effective == 1:
        run.violated(rule, key,
                     "a zone designator '+hh:mm' means local = UTC + hh:mm, but "
                     "str_to_time ADDS the offset of a '+' zone to the parsed "
                     "local time (and subtracts for '-'): every bound spelled "
                     "with an offset is shifted by twice the offset, so expired "
                     "assertions are accepted", fi.loc(rets[0].ast))
        return True
    return False


# ------------------------------------------------------------------ R1
def _raise_guard_forms(run, fi, cfg, exc_cls, sym_params):
    out = []
    for rn in cfg.by_kind("raise"):
        if raised_class(rn.ast) != exc_cls:
            continue
        forms = []
        undecided = False
        for e, pol, bid in cfg.guards(rn.id):
            if not isinstance(e, ast.Compare):
                continue
            if not any(isinstance(o, (ast.Lt, ast.Gt, ast.LtE, ast.GtE))
                       for o in e.ops):
                continue
            tn = cfg.nodes[bid].test
            sym = TimeSym(cfg, tn, params=sym_params)
            f = normal_forms(e, pol, sym)
            if f is None:
                undecided = True
            else:
                forms.extend(f)
        out.append((rn, forms, undecided))
    return out


def r1_validate_on_or_after(run, rule="R1"):
    m = run.model
    fi = m.func("validate.validate_on_or_after")
    cfg = cfg_of(fi, m)
    got = _raise_guard_forms(run, fi, cfg, "ResponseLifetimeExceed",
                             {"not_on_or_after": "bound", "slack": "slack"})
    key = fi.qual + "::raise-iff-expired"
    if not got:
        run.violated(rule, key, "no ResponseLifetimeExceed raise", fi.loc())
        return
    want = [form({"now": 1, "bound": -1, "slack": -1})]
    for rn, forms, und in got:
        if und:
            run.undecided(rule, key, "comparison not linear in (now, bound, "
                          "slack)", fi.loc(rn.ast))
            continue
        run.check(same_modulo_equality(forms, want), rule, key,
                  "raise iff now - NotOnOrAfter - slack > 0",
                  "raise condition is %s, expected now - bound - slack > 0" %
                  show(forms), fi.loc(rn.ast))
    # present bound: every normal return passes the test
    tests = [t for t in cfg.by_kind("test") if isinstance(t.ast, ast.Compare)]
    rets = cfg.by_kind("return")
    ok_ret = False
    for r in rets:
        gs = facts(cfg, r.id)
        if Q("not_on_or_after", True) in gs and \
                isinstance(r.ast.value, ast.Name):
            sym = TimeSym(cfg, r.id, params={"not_on_or_after": "bound"})
            ok_ret = sym(r.ast.value) in ("bound", {"bound": 1})
    run.check(ok_ret, rule, fi.qual + "::returns-bound",
              "returns the parsed bound (used as session expiry)",
              "accepting return no longer yields the parsed NotOnOrAfter",
              fi.loc())


def r1_validate_before(run, rule="R1"):
    m = run.model
    fi = m.func("validate.validate_before")
    cfg = cfg_of(fi, m)
    got = _raise_guard_forms(run, fi, cfg, "ToEarly",
                             {"not_before": "bound", "slack": "slack"})
    key = fi.qual + "::raise-iff-early"
    if not got:
        run.violated(rule, key, "no ToEarly raise", fi.loc())
        return
    want = [form({"bound": 1, "now": -1, "slack": -1})]
    for rn, forms, und in got:
        if und:
            run.undecided(rule, key, "comparison not linear", fi.loc(rn.ast))
            continue
        run.check(same_modulo_equality(forms, want), rule, key,
                  "raise iff NotBefore - now - slack > 0",
                  "raise condition is %s, expected bound - now - slack > 0" %
                  show(forms), fi.loc(rn.ast))
    # guard is only presence of the bound
    for rn, forms, und in got:
        gs = {(unparse(e), p) for e, p, _ in cfg.guards(rn.id)
              if not isinstance(e, ast.Compare)}
        run.check(gs <= {Q("not_before", True)}, rule, fi.qual + "::presence",
                  "checked whenever the bound is present",
                  "extra conditions on the check: %s" % sorted(gs),
                  fi.loc(rn.ast), nontrivial=False)


def r1_later_than(run, rule="R1"):
    m = run.model
    fi = m.func("time_util.later_than")
    cfg = cfg_of(fi, m)
    finals = [r for r in cfg.by_kind("return")
              if isinstance(r.ast.value, ast.Compare)]
    key = fi.qual + "::after>=before"
    if len(finals) != 1:
        run.violated(rule, key, "expected one comparing return, found %d" %
                     len(finals), fi.loc())
        return
    r = finals[0]
    f = normal_forms(r.ast.value, True,
                     lambda e: e.id if isinstance(e, ast.Name) else None)
    want = [form({"after": 1, "before": -1}, False)]
    run.check(f is not None and same_modulo_equality(f, want), rule, key,
              "true iff after - before >= 0",
              "returns %s" % (show(f) if f else unparse(r.ast.value)),
              fi.loc(r.ast))
    # symmetric conversions
    convs = {}
    for n in walk_no_nested(fi.node):
        if isinstance(n, ast.Assign) and isinstance(n.targets[0], ast.Name) and \
                isinstance(n.value, ast.Call):
            convs.setdefault(n.targets[0].id, set()).add(
                (call_name(n.value), unparse(n.value.args[0])
                 if n.value.args else ""))
    a = {c for c, _ in convs.get("after", set())}
    b = {c for c, _ in convs.get("before", set())}
    run.check(a == b and all(arg == nm for nm in ("after", "before")
                             for _, arg in convs.get(nm, set())), rule,
              fi.qual + "::symmetric-conversion",
              "both operands converted by the same functions",
              "operands converted differently: after via %s, before via %s" %
              (sorted(a), sorted(b)), fi.loc(), nontrivial=False)


def r1_issue_instant(run, qual, attr, rule="R1"):
    m = run.model
    fi = m.func(qual)
    cfg = cfg_of(fi, m)
    rets = cfg.by_kind("return")
    key = fi.qual + "::window"
    if len(rets) != 1:
        run.violated(rule, key, "expected a single return", fi.loc())
        return
    r = rets[0]
    sym = TimeSym(cfg, r.id, attrs={"self.timeslack": "slack", attr: "issued"})
    f = normal_forms(r.ast.value, True, sym)
    want = [form({"issued": 1, "now": -1, linear.ONE: DAY, "slack": 1}),
            form({"now": 1, linear.ONE: DAY, "slack": 1, "issued": -1})]
    if f is None:
        v = r.ast.value
        if isinstance(v, ast.BoolOp) and isinstance(v.op, ast.Or) and all(
                isinstance(x, ast.Compare) for x in v.values):
            run.violated(rule, key, "the two window edges are joined by `or`: "
                         "any instant satisfies one of them (%s)" % unparse(v),
                         fi.loc(r.ast))
            return
        run.undecided(rule, key, "return expression is not a conjunction of "
                      "linear comparisons: %s" % unparse(r.ast.value),
                      fi.loc(r.ast))
        return
    run.check(same_modulo_equality(f, want), rule, key,
              "true iff -(1 day + slack) < issued - now < 1 day + slack",
              "window is %s, expected %s" % (show(f), show(want)),
              fi.loc(r.ast))


def r1_before_after(run, rule="R1"):
    m = run.model
    fi = m.func("time_util.before")
    cfg = cfg_of(fi, m)
    finals = [r for r in cfg.by_kind("return")
              if isinstance(r.ast.value, ast.Compare)]
    key = fi.qual + "::now<=point"
    if len(finals) != 1:
        run.violated(rule, key, "expected one comparing return", fi.loc())
    else:
        r = finals[0]
        sym = TimeSym(cfg, r.id, params={"point": "point"})
        f = normal_forms(r.ast.value, True, sym)
        want = [form({"point": 1, "now": -1}, False)]
        if f is None:
            run.undecided(rule, key, "not linear: %s" % unparse(r.ast.value),
                          fi.loc(r.ast))
        else:
            run.check(same_modulo_equality(f, want), rule, key,
                      "true iff point - now >= 0", "returns %s" % show(f),
                      fi.loc(r.ast))
    fa = m.func("time_util.after")
    rets = [n for n in walk_no_nested(fa.node) if isinstance(n, ast.Return)]
    neg = [r for r in rets if unparse(r.value) == "not before(point)"]
    run.check(len(neg) == 1, rule, fa.qual + "::not-before",
              "after(point) == not before(point)",
              "after() is no longer the negation of before(): %s" %
              [unparse(r.value) for r in rets], fa.loc())
    tm = m.module("time_util")
    for alias, target in (("valid", "before"), ("not_on_or_after", "before"),
                          ("not_before", "after")):
        vals = [unparse(v) for v in tm.assigns.get(alias, [])]
        run.check(vals == [target], rule, "time_util.%s" % alias,
                  "alias of %s" % target, "%s is bound to %s" % (alias, vals),
                  tm.relpath, nontrivial=False)


# ------------------------------------------------------------------ R2
def _call_nodes_with_args(cfg, name, arg0_text, slack_text="self.timeslack"):
    out = []
    for nd, c in cfg.call_nodes(name):
        a0 = arg_of(c, 0)
        a1 = arg_of(c, 1)
        if a0 is None:
            continue
        if cfg.same(a0, nd.id, arg0_text) and (
                slack_text is None or cfg.same(a1, nd.id, slack_text)):
            out.append(nd.id)
    return out


def r2_must_call(run):
    run.rule("R2", "on every accepting path each present bound is consulted "
             "with self.timeslack: Conditions, bearer SubjectConfirmationData, "
             "SessionNotOnOrAfter, IssueInstant; falsy results reject")
    m = run.model
    AR = "response.AuthnResponse."
    # --- condition_ok
    fi = m.func(AR + "condition_ok")
    cfg = cfg_of(fi, m)
    accept = [r.id for r in cfg.by_kind("return") if is_true_const(r.ast.value)]
    run.require(accept, "condition_ok: `return True` vanished")
    absent = {"self.assertion.conditions", "conditions.keyswv()"}

    def just_for(bound):
        # `lax` is closed by R4
        return just(cfg, ("lax", True), (bound, False),
                    *[(t, False) for t in sorted(absent)])
    for fn, bound in (("validate_on_or_after", "conditions.not_on_or_after"),
                      ("validate_before", "conditions.not_before")):
        checks = _call_nodes_with_args(cfg, fn, bound)
        key = "%s::%s(%s)" % (fi.qual, fn, bound)
        if not checks:
            run.violated("R2", key, "%s(%s, self.timeslack) is no longer called"
                         % (fn, bound), fi.loc())
            continue
        wit = unguarded_path(cfg, cfg.entry, accept, checks, just_for(bound))
        run.check(wit is None, "R2", key,
                  "every accepting path with the bound present calls it",
                  "an accepting path skips %s although %s may be present" %
                  (fn, bound), fi.loc(),
                  witness=cfg.describe_path(wit) if wit else None)
    ltc = [(nd, c) for nd, c in cfg.call_nodes("later_than")
           if len(c.args) == 2 and
           cfg.same(c.args[0], nd.id, "conditions.not_on_or_after") and
           cfg.same(c.args[1], nd.id, "conditions.not_before")]
    lt = [nd for nd, c in ltc]
    key = fi.qual + "::later_than"
    if not lt:
        run.violated("R2", key, "NotBefore <= NotOnOrAfter is no longer checked",
                     fi.loc())
    else:
        t, tc = ltc[0]
        wit = result_reaches(cfg, t.id, tc, accept, "F")
        run.check(wit is None, "R2", key, "inverted window rejects",
                  "a false later_than() result can still reach `return True`",
                  fi.loc(t.ast), witness=cfg.describe_path(wit) if wit else None)
        wit = unguarded_path(
            cfg, cfg.entry, accept, [x.id for x in lt],
            just(cfg, *[(t, False) for t in sorted(absent) + [
                "conditions.not_before", "conditions.not_on_or_after"]]))
        run.check(wit is None, "R2", key + "::dominates",
                  "checked whenever both bounds are present",
                  "an accepting path skips the NotBefore<=NotOnOrAfter check",
                  fi.loc(), witness=cfg.describe_path(wit) if wit else None)
    # --- _bearer_confirmed
    fb = m.func(AR + "_bearer_confirmed")
    bcfg = cfg_of(fb, m)
    baccept = [r.id for r in bcfg.by_kind("return")
               if is_true_const(r.ast.value)]
    run.require(baccept, "_bearer_confirmed: `return True` vanished")
    for fn, bound in (("validate_on_or_after", "data.not_on_or_after"),
                      ("validate_before", "data.not_before")):
        checks = _call_nodes_with_args(bcfg, fn, bound)
        key = "%s::%s(%s)" % (fb.qual, fn, bound)
        if not checks:
            run.violated("R2", key, "%s(%s, self.timeslack) is no longer called"
                         % (fn, bound), fb.loc())
            continue
        wit = unguarded_path(bcfg, bcfg.entry, baccept, checks,
                             lambda e, pol: False)
        run.check(wit is None, "R2", key, "on every confirming path",
                  "a confirming path skips %s" % fn, fb.loc(),
                  witness=bcfg.describe_path(wit) if wit else None)
    ltc = [(nd, c) for nd, c in bcfg.call_nodes("later_than")
           if len(c.args) == 2 and
           bcfg.same(c.args[0], nd.id, "data.not_on_or_after") and
           bcfg.same(c.args[1], nd.id, "data.not_before")]
    lt = [nd for nd, c in ltc]
    key = fb.qual + "::later_than"
    if not lt:
        run.violated("R2", key, "bearer window ordering is no longer checked",
                     fb.loc())
    else:
        wit = unguarded_path(bcfg, bcfg.entry, baccept, [x.id for x in lt],
                             lambda e, pol: False)
        t, tc = ltc[0]
        wit2 = result_reaches(bcfg, t.id, tc, baccept, "F")
        run.check(wit is None and wit2 is None, "R2", key,
                  "inverted bearer window does not confirm",
                  "inverted bearer window can still confirm", fb.loc(t.ast),
                  witness=bcfg.describe_path(wit or wit2) if (wit or wit2)
                  else None)
    # --- authn_statement_ok
    fa = m.func(AR + "authn_statement_ok")
    acfg = cfg_of(fa, m)
    aaccept = [r.id for r in acfg.by_kind("return")
               if is_true_const(r.ast.value)]
    checks = _call_nodes_with_args(acfg, "validate_on_or_after",
                                   "self.assertion.authn_statement[0].session_not_on_or_after")
    key = fa.qual + "::validate_on_or_after(session_not_on_or_after)"
    if not checks:
        run.violated("R2", key, "SessionNotOnOrAfter is no longer validated",
                     fa.loc())
    else:
        wit = unguarded_path(
            acfg, acfg.entry, aaccept, checks,
            just(acfg, ("self.assertion.authn_statement[0].session_not_on_or_after", False),
                 ("optional", True)))
        run.check(wit is None, "R2", key,
                  "validated whenever SessionNotOnOrAfter is present",
                  "an accepting path skips the SessionNotOnOrAfter check",
                  fa.loc(), witness=acfg.describe_path(wit) if wit else None)
    # --- _assertion
    fs = m.func(AR + "_assertion")
    scfg = cfg_of(fs, m)
    saccept = [r.id for r in scfg.by_kind("return")
               if is_true_const(r.ast.value)]
    run.require(saccept, "_assertion: `return True` vanished")
    for callee, jst in (
            ("authn_statement_ok",
             just(scfg, ("self.context == 'AuthnReq'", False))),
            ("condition_ok", lambda e, pol: False),
            ("get_subject", lambda e, pol: False)):
        nodes = [nd.id for nd, c in scfg.call_nodes(callee)
                 if attr_chain(c.func) == "self." + callee]
        key = "%s::%s" % (fs.qual, callee)
        if not nodes:
            run.violated("R2", key, "self.%s() is no longer called" % callee,
                         fs.loc())
            continue
        wit = unguarded_path(scfg, scfg.entry, saccept, nodes, jst)
        run.check(wit is None, "R2", key, "on every accepting path",
                  "an accepting path of _assertion skips %s()" % callee,
                  fs.loc(), witness=scfg.describe_path(wit) if wit else None)
    # condition_ok falsy => raise
    for nd, c in scfg.call_nodes("condition_ok"):
        wit = result_reaches(scfg, nd.id, c, saccept, "F")
        ok = wit is None and nd.kind != "stmt" or (
            wit is None and isinstance(nd.ast, (ast.Assign, ast.Return)))
        run.check(ok, "R2", fs.qual + "::condition_ok-result",
                  "a falsy condition_ok() result raises",
                  "the result of condition_ok() is ignored (an inverted or "
                  "failed window would be accepted)", fs.loc(c))
    # authn_statement_ok takes no truthy `optional`
    for nd, c in scfg.call_nodes("authn_statement_ok"):
        a = arg_of(c, 0, "optional")
        run.check(a is None or is_falsy_const(a), "R2",
                  fs.qual + "::authn_statement_ok.optional",
                  "AuthnStatement is mandatory", "optional=%s" % unparse(a),
                  fs.loc(c), nontrivial=False)
    # --- StatusResponse._verify
    fv = m.func("response.StatusResponse._verify")
    vcfg = cfg_of(fv, m)
    vaccept = [r.id for r in vcfg.by_kind("return")
               if unparse(r.ast.value) == "self"]
    run.require(vaccept, "_verify: `return self` vanished")
    for callee in ("issue_instant_ok",):
        nodes = [nd.id for nd in vcfg.by_kind("stmt")
                 if isinstance(nd.ast, ast.Assert) and
                 unparse(nd.ast.test) == "self.%s()" % callee]
        key = "%s::assert %s" % (fv.qual, callee)
        if not nodes:
            run.violated("R2", key, "`assert self.%s()` vanished" % callee,
                         fv.loc())
            continue
        wit = unguarded_path(vcfg, vcfg.entry, vaccept, nodes,
                             lambda e, pol: False)
        run.check(wit is None, "R2", key, "asserted before `return self`",
                  "`return self` reachable without asserting %s()" % callee,
                  fv.loc(), witness=vcfg.describe_path(wit) if wit else None)
    # --- AuthnResponse.verify
    fv2 = m.func(AR + "verify")
    v2 = cfg_of(fv2, m)
    acc = [r.id for r in v2.by_kind("return") if unparse(r.ast.value) == "self"]
    vnodes = [nd.id for nd, c in v2.call_nodes("_verify")]
    pnodes = [nd.id for nd, c in v2.call_nodes("parse_assertion")]
    run.require(acc and vnodes and pnodes, "AuthnResponse.verify: anchors "
                "vanished")
    wit = unguarded_path(v2, v2.entry, acc, vnodes, lambda e, pol: False)
    run.check(wit is None, "R2", fv2.qual + "::_verify",
              "_verify() on every accepting path",
              "verify() can return self without _verify()", fv2.loc(),
              witness=v2.describe_path(wit) if wit else None)
    wit = unguarded_path(
        v2, v2.entry, acc, pnodes,
        just(v2, ("isinstance(self.response, samlp.Response)", False)))
    run.check(wit is None, "R2", fv2.qual + "::parse_assertion",
              "parse_assertion() on every accepting path of a Response",
              "verify() can return self for a Response without "
              "parse_assertion()", fv2.loc(),
              witness=v2.describe_path(wit) if wit else None)
    for nd, c in v2.call_nodes("parse_assertion"):
        ok = result_reaches(v2, nd.id, c, acc, "F") is None
        run.check(ok, "R2", fv2.qual + "::parse_assertion-result",
                  "a falsy parse_assertion() result is a rejection",
                  "the result of parse_assertion() is ignored", fv2.loc(c))
    # --- parse_assertion: every assertion goes through _assertion
    fp = m.func(AR + "parse_assertion")
    pcfg = cfg_of(fp, m)
    for nd, c in pcfg.call_nodes("_assertion"):
        # after a falsy result: no truthy return, and the assertion is not
        # adopted (self.assertions.append) either
        truthy = [r.id for r in pcfg.by_kind("return")
                  if not is_falsy_const(r.ast.value)]
        adopt = [n2.id for n2, c2 in pcfg.call_nodes("append")
                 if attr_chain(c2.func) == "self.assertions.append"]
        excs = [x.id for x in pcfg.nodes if x.kind == "exc"]
        ok = result_reaches(pcfg, nd.id, c, truthy + adopt, "F",
                            avoid=excs) is None
        run.check(ok, "R2", fp.qual + "::" + norm_text(c),
                  "a falsy _assertion() result returns False",
                  "the result of _assertion() is not turned into a rejection",
                  fp.loc(c))


def r3_slack_provenance(run):
    run.rule("R3", "the slack used by every check is the configured "
             "accepted_time_diff")
    m = run.model
    fi = m.func("entity.Entity._parse_response")
    hits = [s for s in walk_no_nested(fi.node) if isinstance(s, ast.Assign) and
            unparse(s.targets[0]) == "kwargs['timeslack']"]
    run.check(len(hits) == 1 and
              unparse(hits[0].value) == "self.config.accepted_time_diff", "R3",
              fi.qual + "::timeslack",
              "kwargs['timeslack'] = self.config.accepted_time_diff",
              "timeslack for responses is %s" %
              [unparse(h.value) for h in hits], fi.loc())
    si = m.func("response.StatusResponse.__init__")
    vals = [s.value for s in walk_no_nested(si.node) if isinstance(s, ast.Assign)
            and any(attr_chain(t) == "self.timeslack" for t in s.targets)]
    run.check(len(vals) == 1 and unparse(vals[0]) == "timeslack", "R3",
              si.qual + "::self.timeslack", "stored unchanged",
              "self.timeslack = %s" % [unparse(v) for v in vals], si.loc())
    ai = m.func("response.AuthnResponse.__init__")
    calls = [c for c in calls_named(ai.node, "__init__")
             if attr_chain(c.func) == "StatusResponse.__init__"]
    run.require(len(calls) == 1, "AuthnResponse.__init__: base call vanished")
    a = arg_of(calls[0], 3, "timeslack")
    run.check(a is not None and unparse(a) == "timeslack", "R3",
              ai.qual + "::forward", "forwards timeslack to the base class",
              "base constructor receives timeslack=%s" % unparse(a),
              ai.loc(calls[0]))
    # no other writer of .timeslack on responses
    rm = m.module("response")
    from ..match import assigns_to_attr
    for st, t, v in assigns_to_attr(rm.tree, "timeslack"):
        f = m.enclosing_function(rm, st)
        ok = f is not None and f.qual.endswith(".__init__") and \
            unparse(v) == "timeslack"
        run.check(ok, "R3", "%s::%s" % (f.qual if f else rm.name, norm_text(st)),
                  "constructor assignment", "timeslack overwritten: %s" %
                  norm_text(st), "%s:%d" % (rm.relpath, st.lineno),
                  nontrivial=False)


def r4_laxity_closed(run):
    run.rule("R4", "the lax/test escape hatch stays closed: defaults False, no "
             "package call passes a truthy test=/lax=, and without it the "
             "condition handler re-raises")
    m = run.model
    fi = m.func("response.AuthnResponse.condition_ok")
    d = fi.param_default("lax")
    run.check(is_falsy_const(d) and d is not None, "R4", fi.qual + "::lax-default",
              "lax defaults to False", "lax defaults to %s" % unparse(d),
              fi.loc())
    cfg = cfg_of(fi, m)
    for nd in cfg.by_kind("stmt"):
        s = nd.ast
        if isinstance(s, ast.Assign) and any(
                isinstance(t, ast.Name) and t.id == "lax" for t in s.targets):
            gs = facts(cfg, nd.id)
            run.check(Q("self.test", True) in gs, "R4", fi.qual + "::lax=",
                      "lax only set under self.test",
                      "lax assigned under %s" % sorted(gs), fi.loc(s))
    ai = m.func("response.AuthnResponse.__init__")
    d = ai.param_default("test")
    run.check(d is not None and is_falsy_const(d), "R4",
              ai.qual + "::test-default", "test defaults to False",
              "test defaults to %s" % unparse(d), ai.loc())
    from ..match import assigns_to_attr
    for mi in m.modules.values():
        for st, t, v in assigns_to_attr(mi.tree, "test"):
            f = m.enclosing_function(mi, st)
            ok = f is not None and f.qual == ai.qual and unparse(v) == "test"
            if attr_chain(t) is None or not attr_chain(t).startswith("self."):
                continue
            run.check(ok, "R4", "%s::%s" % (f.qual if f else mi.name,
                                             norm_text(st)),
                      "self.test <- constructor parameter",
                      "self.test written elsewhere: %s" % norm_text(st),
                      "%s:%d" % (mi.relpath, st.lineno))
    n = 0
    for mi in m.modules.values():
        if not (mi.name.startswith("saml2_tophat.response") or
                mi.name.startswith("saml2_tophat.client") or
                mi.name.startswith("saml2_tophat.entity") or
                mi.name.startswith("saml2_tophat.server") or
                mi.name.startswith("saml2_tophat.ecp") or
                mi.name.startswith("saml2_tophat.s2repoze")):
            continue
        for c in ast.walk(mi.tree):
            if not isinstance(c, ast.Call):
                continue
            for k in c.keywords:
                if k.arg in ("test", "lax"):
                    n += 1
                    f = m.enclosing_function(mi, c)
                    ok = is_falsy_const(k.value)
                    if not ok and isinstance(k.value, ast.Name) and f is not None:
                        dd = f.param_default(k.value.id)
                        ok = dd is not None and is_falsy_const(dd) and \
                            k.value.id == k.arg
                    run.check(ok, "R4", "%s::%s=%s" % (
                        f.qual if f else mi.name, k.arg, unparse(k.value)),
                        "forwards a parameter whose default is False",
                        "a call enables the laxity switch: %s=%s" %
                        (k.arg, unparse(k.value)),
                        "%s:%d" % (mi.relpath, c.lineno))
    run.floor("R4", "test=/lax= call sites", n, 3)
    # handler in condition_ok
    hs = [h for h in excflow.handlers_of(fi, m)
          if "validate_on_or_after" in h.body_calls()]
    run.require(len(hs) == 1, "condition_ok: handler around the validity checks "
                "vanished")
    h = hs[0]
    hn = h.cfgnode
    inside = {id(x) for x in ast.walk(h.handler)}
    wit = cfg.flag_search(
        hn, {"lax": "F"},
        lambda n, vd: cfg.nodes[n].ast is not None and
        id(cfg.nodes[n].ast) not in inside and
        cfg.nodes[n].kind not in ("exc", "raise_exit", "join"),
        edge_filter=lambda a, b: cfg.nodes[b].kind != "exc")
    bad = wit is not None and not (len(wit) > 1 and
                                   cfg.nodes[wit[-2]].kind == "raise")
    run.check(not bad, "R4", fi.qual + "::handler-reraises-unless-lax",
              "with lax False the handler re-raises",
              "a failed validity check is swallowed even when lax is False",
              h.loc(), witness=cfg.describe_path(wit) if bad else None)
    # overrides of the checking methods
    for meth, allowed in (("condition_ok",
                           {"saml2_tophat.response.AuthnQueryResponse"}),
                          ("_bearer_confirmed", set()),
                          ("authn_statement_ok", set()),
                          ("issue_instant_ok", set()),
                          ("_assertion", set()), ("get_subject", set())):
        base = "saml2_tophat.response.AuthnResponse" if meth != \
            "issue_instant_ok" else "saml2_tophat.response.StatusResponse"
        for sub in m.subclasses(base, strict=True):
            ci = m.classes[sub]
            if meth in ci.methods:
                if sub in allowed:
                    run.note("%s overrides %s() and returns True unconditionally"
                             " (authn-query responses; pre-existing, outside "
                             "the web-SSO shapes the property's acceptance "
                             "side is restricted to)" % (sub, meth))
                    f2 = ci.methods[meth]
                    body = [s for s in f2.node.body
                            if not isinstance(s, ast.Expr)]
                    run.check(len(body) == 1 and isinstance(body[0], ast.Return),
                              "R4", "%s.%s::frozen-override" % (sub, meth),
                              "the one known override", "override body changed",
                              f2.loc(), nontrivial=False)
                else:
                    run.violated("R4", "%s.%s::override" % (sub, meth),
                                 "a response subclass overrides the validity "
                                 "check %s()" % meth, ci.methods[meth].loc())


PROTECTED = ["ResponseLifetimeExceed", "ToEarly", "VerificationError",
             "AssertionError", "Exception"]
CONE = ["response.AuthnResponse.verify", "response.StatusResponse.verify",
        "response.StatusResponse._verify", "response.AuthnResponse._assertion",
        "response.AuthnResponse.condition_ok",
        "response.AuthnResponse.authn_statement_ok",
        "response.AuthnResponse._bearer_confirmed",
        "response.AuthnResponse.get_subject",
        "response.AuthnResponse.parse_assertion",
        "validate.validate_on_or_after", "validate.validate_before"]
ALLOWED = {
    ("saml2_tophat.response.StatusResponse.verify", "AssertionError"):
        "a failed assertion becomes None, which callers treat as rejection",
    ("saml2_tophat.response.AuthnResponse.condition_ok", "Exception"):
        "re-raises unless lax (obligation R4)",
    ("saml2_tophat.response.AuthnResponse.authn_statement_ok", "AssertionError"):
        "returns True only when `optional`, which no caller passes (R2)",
    ("saml2_tophat.response.StatusResponse._verify", "AssertionError"):
        "version mismatch handler: always raises RequestVersionTooLow/High",
}


def r5_handlers(run):
    run.rule("R5", "no handler on the validity cone swallows a lifetime error "
             "outside the enumerated idioms")
    m = run.model
    funcs = [m.func(q) for q in CONE]
    inv = excflow.inventory(m, funcs, PROTECTED)
    for hi, hit in inv:
        if not hi.swallows():
            run.holds("R5", hi.key, "re-raises/converts: %s" %
                      sorted(hi.dispositions), hi.loc())
            continue
        caught = hi.caught or ["<bare>"]
        reasons = [ALLOWED.get((hi.fi.qual, c)) for c in caught]
        # handlers for unrelated specific classes around attribute access
        if all(c in ("AttributeError", "KeyError", "IndexError") for c in caught):
            continue
        run.check(all(reasons), "R5", hi.key,
                  "enumerated idiom: %s" % reasons[0],
                  "handler may swallow %s from %s (%s)" %
                  (hit, sorted(set(hi.body_calls()))[:5],
                   sorted(hi.dispositions)), hi.loc())
    run.floor("R5", "handlers", len(inv), 4)


def r6_session_expiry(run):
    run.rule("R6", "session_info()['not_on_or_after'] is SessionNotOnOrAfter "
             "when present, else the Conditions NotOnOrAfter")
    m = run.model
    fi = m.func("response.AuthnResponse.session_info")
    cfg = cfg_of(fi, m)
    org = Origins(cfg)
    n = 0
    for r in cfg.by_kind("return"):
        if not isinstance(r.ast.value, ast.Dict):
            continue
        for k, v in zip(r.ast.value.keys, r.ast.value.values):
            if isinstance(k, ast.Constant) and k.value == "not_on_or_after":
                n += 1
                got = org.texts(v, r.id)
                run.check(got == {"self.session_not_on_or_after",
                                  "self.not_on_or_after"}, "R6",
                          fi.qual + "::value-origins",
                          "derives from the two expiry attributes",
                          "not_on_or_after derives from %s" % sorted(got),
                          fi.loc(r.ast))
    run.floor("R6", "returned dicts with not_on_or_after", n, 1)
    for nd in cfg.by_kind("stmt"):
        s = nd.ast
        if isinstance(s, ast.Assign) and isinstance(s.targets[0], ast.Name) and \
                s.targets[0].id == "nooa":
            gs = [(e, p) for e, p, _ in cfg.guards(nd.id)]
            src = unparse(s.value)
            ok = False
            for e, p in gs:
                f = normal_forms(e, p, lambda x: "s" if unparse(x) ==
                                 "self.session_not_on_or_after" else None)
                if f is None:
                    continue
                pos = same_modulo_equality(f, [form({"s": 1})])
                neg = same_modulo_equality(f, [form({"s": -1}, False)])
                if src == "self.session_not_on_or_after" and pos:
                    ok = True
                if src == "self.not_on_or_after" and neg:
                    ok = True
            run.check(ok, "R6", fi.qual + "::" + norm_text(s),
                      "chosen under the right sign of session_not_on_or_after",
                      "`%s` is chosen under guards %s" % (
                          norm_text(s), [(unparse(e), p) for e, p in gs]),
                      fi.loc(s))
    # writers of the two attributes
    rm = m.module("response")
    from ..match import assigns_to_attr
    for st, t, v in assigns_to_attr(rm.tree, "session_not_on_or_after"):
        if attr_chain(t) != "self.session_not_on_or_after":
            continue
        f = m.enclosing_function(rm, st)
        txt = unparse(v)
        fcfg = cfg_of(f, m)
        fnd = fcfg.node_of_stmt(st)
        ok = txt == "0" or (fnd is not None and fcfg.same(
            v, fnd.id, "calendar.timegm(time_util.str_to_time("
            "self.assertion.authn_statement[0].session_not_on_or_after))"))
        run.check(ok, "R6", "%s::%s" % (f.qual, norm_text(st))[:160],
                  "0 or the parsed SessionNotOnOrAfter",
                  "session expiry written from %s" % txt,
                  "%s:%d" % (rm.relpath, st.lineno))
    for st, t, v in assigns_to_attr(rm.tree, "not_on_or_after"):
        if attr_chain(t) != "self.not_on_or_after":
            continue
        f = m.enclosing_function(rm, st)
        txt = unparse(v)
        fcfg = cfg_of(f, m)
        fnd = fcfg.node_of_stmt(st)
        ok = txt == "0" or (fnd is not None and fcfg.same(
            v, fnd.id, "validate_on_or_after(conditions.not_on_or_after, "
            "self.timeslack)"))
        run.check(ok, "R6", "%s::%s" % (f.qual, norm_text(st))[:160],
                  "0 or the validated Conditions NotOnOrAfter",
                  "not_on_or_after written from %s" % txt,
                  "%s:%d" % (rm.relpath, st.lineno))


LOCAL_CLOCK = {"mktime", "localtime", "fromtimestamp", "ctime", "asctime"}
CLOCK_CONE = [
    "response.StatusResponse.issue_instant_ok", "request.Request.issue_instant_ok",
    "validate.validate_on_or_after", "validate.validate_before",
    "time_util.before", "time_util.after", "time_util.later_than",
    "time_util.utc_now", "time_util.time_in_a_while",
    "time_util.time_a_while_ago", "time_util.shift_time",
    "time_util.str_to_time", "response.AuthnResponse.condition_ok",
    "response.AuthnResponse._bearer_confirmed",
    "response.AuthnResponse.authn_statement_ok", "cache.Cache.get",
    "cache.Cache.active", "cache.Cache.set",
]


def r7_clock_sources(run):
    run.rule("R7", "every instant that enters a validity comparison is UTC: no "
             "function on the checking paths reads the clock or converts a "
             "time tuple through the process's local zone (mktime / localtime "
             "/ naive datetime.now / fromtimestamp), directly or through a "
             "package helper that does")
    m = run.model

    def direct(fnode):
        out = []
        for c in ast.walk(fnode):
            if not isinstance(c, ast.Call):
                continue
            nm = call_name(c)
            ch = attr_chain(c.func) or ""
            if nm in LOCAL_CLOCK or ch.endswith("datetime.now") or \
                    ch == "datetime.now" or ch.endswith("datetime.today"):
                if nm == "now" and (c.args or c.keywords):
                    continue           # now(tz) is zone-aware
                out.append(c)
        return out
    # package helpers of time_util / validate that depend on the local zone
    local_helpers = {}
    for modname in ("time_util", "validate"):
        mi = m.module(modname)
        for name, f in mi.functions.items():
            d = direct(f.node)
            if d:
                local_helpers[name] = (f, d[0])
    run.count("R7.local-zone helpers in time_util/validate", len(local_helpers))
    run.require("utc_time_sans_frac" in local_helpers or
                m.func("time_util.utc_time_sans_frac", required=False) is None,
                "R7 positive control: utc_time_sans_frac (mktime of a UTC "
                "tuple) is not recognised as local-zone dependent")
    n = 0
    for q in CLOCK_CONE:
        f = m.func(q, required=False)
        if f is None:
            continue
        n += 1
        bad = ["%s()" % unparse(c.func) for c in direct(f.node)]
        for c in ast.walk(f.node):
            if isinstance(c, ast.Call) and call_name(c) in local_helpers and \
                    call_name(c) != f.name:
                bad.append("%s() [calls %s]" % (
                    unparse(c.func), unparse(local_helpers[call_name(c)][1].func)))
        run.check(not bad, "R7", f.qual + "::utc-only",
                  "no local-zone clock or conversion",
                  "uses %s: the instant depends on the time zone the process "
                  "runs in, so windows shift by the UTC offset" % sorted(set(bad)),
                  f.loc())
    run.floor("R7", "functions on the time-checking paths", n, 15)


def check(run):
    run.explanation = (
        "C04: linear normal forms of every time comparison (with helper "
        "summaries re-verified against the helper bodies), must-call path rules "
        "for each present bound with self.timeslack on all accepting paths of "
        "condition_ok/_bearer_confirmed/authn_statement_ok/_assertion/_verify/"
        "verify, slack provenance, closed laxity switch, handler inventory, "
        "session-expiry selection. Not decided: timestamp parsing of arbitrary "
        "spellings, run-time clock arithmetic.")
    run.assumptions = ["time.gmtime()/datetime.utcnow() denote the same "
                       "instant 'now' within one call",
                       "str_to_time/timegm are monotone conversions"]
    run.rule("R1", "each time comparison has the required linear normal form "
             "(direction, slack sign, one-day window); equality is left "
             "unspecified")
    check_helper_summaries(run)
    r1_validate_on_or_after(run)
    r1_validate_before(run)
    r1_later_than(run)
    r1_issue_instant(run, "response.StatusResponse.issue_instant_ok",
                     "self.response.issue_instant")
    r1_issue_instant(run, "request.Request.issue_instant_ok",
                     "self.message.issue_instant")
    r1_before_after(run)
    r2_must_call(run)
    r3_slack_provenance(run)
    r7_clock_sources(run)
    r4_laxity_closed(run)
    r5_handlers(run)
    r6_session_expiry(run)
