"""C01 - Accepted signed content is exactly what its signature covers.

Decided: the structural chain that makes "the element pysaml2 believes is
signed" the element handed to the verifier (see DESIGN.md Part 3, C01).
Several rules are shared with C02/C10/C17/C20 and exported from here.
"""
import ast

from ..srcmodel import (attr_chain, call_name, unparse, norm_text,
                        walk_no_nested, AnalysisError)
from ..cfg import cfg_of, raised_class, atoms
from ..dataflow import ReachingDefs, Origins
from .. import excflow
from ..match import (calls_named, all_calls_named, arg_of, mentions,
                     mentions_attr, unguarded_path, only_raises_from,
                     assigns_to_attr, is_true_const, is_falsy_const, str_consts,
                     has_starargs, chains_in)

SC = "sigver.SecurityContext"

RESPONSE_CONE = [
    "sigver.SecurityContext._check_signature",
    "sigver.SecurityContext.check_signature",
    "sigver.SecurityContext.verify_signature",
    "sigver.SecurityContext.correctly_signed_response",
    "sigver.SecurityContext.correctly_signed_message",
    "sigver.CryptoBackendXmlSec1.validate_signature",
    "sigver.CryptoBackendXmlSec1._run_xmlsec",
    "sigver.parse_xmlsec_output",
    "response.StatusResponse._loads",
    "response.StatusResponse.loads",
    "response.StatusResponse.load_instance",
    "response.StatusResponse._postamble",
    "response.AuthnResponse.loads",
    "response.AuthnResponse._assertion",
    "response.AuthnResponse.decrypt_assertions",
    "response.AuthnResponse.parse_assertion",
    "response.AuthnResponse.verify",
    "response.AssertionIDResponse.loads",
    "response.AssertionIDResponse.verify",
    "response.AssertionIDResponse._postamble",
    "entity.Entity._parse_response",
    "client_base.Base.parse_authn_request_response",
]

PROTECTED = ["SignatureError", "XmlsecError", "SigverError", "MissingKey",
             "CertificateError", "BadSignature", "DecryptError"]


# --------------------------------------------------------------------- R1
def r1_who_may_verify(run):
    run.rule("R1", "crypto.validate_signature is called only from "
             "SecurityContext.verify_signature, and verify_signature only from "
             "_check_signature (and the metadata loader): no acceptance "
             "decision is taken outside the guarded function")
    m = run.model
    allowed_vs = {"saml2_tophat.sigver.SecurityContext.verify_signature"}
    allowed_ver = {"saml2_tophat.sigver.SecurityContext._check_signature",
                   "saml2_tophat.mdstore.InMemoryMetaData.parse_and_check_signature"}
    n_vs = n_ver = 0
    for mi in m.modules.values():
        for c in all_calls_named(mi.tree, "validate_signature"):
            fi = m.enclosing_function(mi, c)
            q = fi.qual if fi else mi.name
            n_vs += 1
            run.check(q in allowed_vs, "R1", "%s -> validate_signature" % q,
                      "sole caller of the backend verifier",
                      "validate_signature called outside verify_signature",
                      loc="%s:%d" % (mi.relpath, c.lineno))
        for c in all_calls_named(mi.tree, "verify_signature"):
            if isinstance(c.func, ast.Name):
                # s_utils.verify_signature(secret, parts) is an unrelated HMAC helper
                tgt = m.resolve_name(mi, c.func.id)
                if tgt and all(t.endswith("s_utils.verify_signature") for t in tgt):
                    continue
            fi = m.enclosing_function(mi, c)
            q = fi.qual if fi else mi.name
            n_ver += 1
            run.check(q in allowed_ver, "R1", "%s -> verify_signature" % q,
                      "caller is a guarded verification function",
                      "verify_signature called from a function that is not "
                      "_check_signature / the metadata loader",
                      loc="%s:%d" % (mi.relpath, c.lineno))
    run.floor("R1", "validate_signature call sites", n_vs, 1)
    run.floor("R1", "verify_signature call sites", n_ver, 2)


# --------------------------------------------------------------------- R2
def _verify_call(run, cfg):
    vc = cfg.call_nodes("verify_signature")
    run.require(len(vc) == 1, "_check_signature: expected exactly one "
                "verify_signature call, found %d" % len(vc))
    return vc[0]


def r2_same_element(run):
    run.rule("R2", "the element whose .signature was tested is the element "
             "whose ID and class name are handed to the verifier, together with "
             "the text it was parsed from")
    m = run.model
    fi = m.func(SC + "._check_signature")
    cfg = cfg_of(fi, m)
    org = Origins(cfg)
    node, call = _verify_call(run, cfg)
    a_text = arg_of(call, 0, "signedtext")
    a_name = arg_of(call, 3, "node_name")
    a_id = arg_of(call, 4, "node_id")
    run.require(a_text is not None and a_name is not None,
                "_check_signature: verify_signature call lost its text/node_name "
                "arguments")
    t = org.texts(a_text, node.id)
    run.check(t == {"decoded_xml"}, "R2", fi.qual + "::verify_signature.text",
              "verified text derives only from parameter decoded_xml",
              "verified text derives from %s" % sorted(t), fi.loc(call))
    t = org.texts(a_name, node.id)
    run.check(t == {"node_name"}, "R2", fi.qual + "::verify_signature.node_name",
              "node_name derives only from the parameter",
              "node_name derives from %s" % sorted(t), fi.loc(call))
    if a_id is None:
        run.violated("R2", fi.qual + "::verify_signature.node_id",
                     "no node_id handed to the verifier: xmlsec1 would verify "
                     "whichever Signature it finds first", fi.loc(call))
    else:
        t = org.texts(a_id, node.id)
        run.check(t == {"item.id"}, "R2", fi.qual + "::verify_signature.node_id",
                  "node_id derives only from item.id",
                  "node_id derives from %s (must be the ID of the element whose "
                  "signature was inspected)" % sorted(t), fi.loc(call))
    # the returned object is the inspected item
    for rn in cfg.by_kind("return"):
        t = org.texts(rn.ast.value, rn.id) if rn.ast.value is not None else set()
        run.check(t == {"item"}, "R2", fi.qual + "::return",
                  "returns the inspected item",
                  "returns %s instead of the inspected item" % sorted(t),
                  fi.loc(rn.ast))

    # verify_signature forwards unchanged
    vf = m.func(SC + ".verify_signature")
    vcfg = cfg_of(vf, m)
    vorg = Origins(vcfg)
    vcalls = vcfg.call_nodes("validate_signature")
    run.require(len(vcalls) == 1, "verify_signature: expected one "
                "validate_signature call")
    vn, vcall = vcalls[0]
    for pos, kw, want in ((0, "signedtext", {"signedtext"}),
                          (3, "node_name", {"node_name"}),
                          (4, "node_id", {"node_id"})):
        a = arg_of(vcall, pos, kw)
        got = vorg.texts(a, vn.id) if a is not None else set()
        run.check(got == want, "R2", "%s::forward.%s" % (vf.qual, kw),
                  "forwarded unchanged", "argument %s derives from %s" %
                  (kw, sorted(got)), vf.loc(vcall))

    # callers: item / class_name(item) / text parsed into item
    n = 0
    for qual, textparam, parsed_by in (
            (SC + ".correctly_signed_response", "decoded_xml",
             "any_response_from_string"),
            (SC + ".correctly_signed_message", "decoded_xml", None)):
        cf = m.func(qual)
        ccfg = cfg_of(cf, m)
        corg = Origins(ccfg)
        for cn, cc in ccfg.call_nodes("_check_signature"):
            n += 1
            a0, a1, a2 = arg_of(cc, 0), arg_of(cc, 1), arg_of(cc, 2)
            ok = a0 is not None and corg.texts(a0, cn.id) == {textparam}
            run.check(ok, "R2", qual + "::_check_signature.text",
                      "verifier receives the text the element was parsed from",
                      "first argument does not derive solely from %s" % textparam,
                      cf.loc(cc))
            # item is a local parsed from the same text
            ok = isinstance(a1, ast.Name)
            parsed_from = set()
            if ok:
                for a in corg.of(a1, cn.id):
                    if a.kind == "call" and a.ast is not None and a.ast.args:
                        parsed_from |= corg.texts(a.ast.args[0], a.node)
                        if parsed_by and call_name(a.ast) != parsed_by:
                            ok = False
                    else:
                        ok = False
            run.check(ok and parsed_from == {textparam}, "R2",
                      qual + "::_check_signature.item",
                      "item was parsed from the very text that is verified",
                      "item is not (only) the object parsed from %s" % textparam,
                      cf.loc(cc))
            ok = isinstance(a2, ast.Call) and call_name(a2) == "class_name" and \
                isinstance(a1, ast.Name) and len(a2.args) == 1 and \
                isinstance(a2.args[0], ast.Name) and a2.args[0].id == a1.id
            run.check(ok, "R2", qual + "::_check_signature.node_name",
                      "node name is class_name(item)",
                      "node name is not class_name of the checked item: %s" %
                      unparse(a2), cf.loc(cc))
            # the call is guarded by <item>.signature being truthy
            gs = [(unparse(e), pol) for e, pol, _ in ccfg.guards(cn.id)]
            want = "%s.signature" % a1.id if isinstance(a1, ast.Name) else None
            ok = any(g == (want, True) for g in gs)
            run.check(ok, "R2", qual + "::_check_signature.guard",
                      "call guarded by %s" % want,
                      "the signature tested in the guard (%s) is not that of "
                      "the verified item" % gs, cf.loc(cc))
    for qual, itemname in (("response.AuthnResponse._assertion", "assertion"),
                           ("response.AuthnResponse.decrypt_assertions",
                            "assertion")):
        cf = m.func(qual)
        ccfg = cfg_of(cf, m)
        for cn, cc in ccfg.call_nodes("check_signature"):
            n += 1
            a_item = arg_of(cc, 0, "item")
            a_nn = arg_of(cc, 1, "node_name")
            ok = isinstance(a_item, ast.Name) and isinstance(a_nn, ast.Call) and \
                call_name(a_nn) == "class_name" and len(a_nn.args) == 1 and \
                isinstance(a_nn.args[0], ast.Name) and \
                a_nn.args[0].id == a_item.id
            run.check(ok, "R2", qual + "::check_signature.node_name",
                      "node name is class_name(item) of the same object",
                      "check_signature(%s, node_name=%s): names differ" %
                      (unparse(a_item), unparse(a_nn)), cf.loc(cc))
            a_doc = arg_of(cc, 2, "origdoc")
            want_doc = "self.xmlstr" if qual.endswith("_assertion") else \
                "decr_txt"
            run.check(a_doc is not None and unparse(a_doc) == want_doc, "R2",
                      qual + "::check_signature.origdoc",
                      "verified against %s, the text the assertion was parsed "
                      "from" % want_doc,
                      "assertion signature is verified against %s instead of "
                      "the text it was parsed from" % unparse(a_doc),
                      cf.loc(cc))
    # self.xmlstr is the received text (or the decrypted text it became)
    from ..dataflow import self_attr_assignments
    for wf, wst, wv in self_attr_assignments(
            m, "saml2_tophat.response.StatusResponse", "xmlstr"):
        txt = unparse(wv)
        ok = txt in ("''", "xmldata[:].decode('utf-8')", "xmldata[:]",
                     "mold.xmlstr", "decr_text")
        run.check(ok, "R2", "%s::%s" % (wf.qual, norm_text(wst)[:60]),
                  "xmlstr is the received (or decrypted) text",
                  "self.xmlstr is assigned from %s" % txt, wf.loc(wst),
                  nontrivial=False)
    # check_signature forwards item/node_name/origdoc unchanged
    ck = m.func(SC + ".check_signature")
    kcfg = cfg_of(ck, m)
    korg = Origins(kcfg)
    for cn, cc in kcfg.call_nodes("_check_signature"):
        n += 1
        got = [korg.texts(arg_of(cc, i), cn.id) for i in range(3)]
        run.check(got == [{"origdoc"}, {"item"}, {"node_name"}], "R2",
                  ck.qual + "::forward",
                  "forwards (origdoc, item, node_name) unchanged",
                  "forwards %s" % got, ck.loc(cc))
    run.floor("R2", "verification call sites", n, 5)

    # xmlsec1 command line
    bf = m.func("sigver.CryptoBackendXmlSec1.validate_signature")
    consts = set(str_consts(bf.node))
    for need in ("--verify", "--enabled-reference-uris", "empty,same-doc",
                 "--node-id"):
        run.check(need in consts, "R2", bf.qual + "::argv:" + need,
                  "present in the xmlsec1 command", "missing from the xmlsec1 "
                  "command line", bf.loc(), nontrivial=False)
    bcfg = cfg_of(bf, m)
    borg = Origins(bcfg)
    runs = bcfg.call_nodes("_run_xmlsec")
    run.require(len(runs) == 1, "validate_signature: expected one _run_xmlsec call")
    rn, rc = runs[0]
    com = borg.of(arg_of(rc, 0, "com_list"), rn.id)
    texts = {a.text for a in com}
    run.check({"node_name", "node_id", "cert_file"} <= texts and
              "'empty,same-doc'" in texts, "R2", bf.qual + "::argv.flow",
              "node_name, node_id, cert_file and the reference restriction "
              "reach the command list",
              "command list derives from %s" % sorted(texts), bf.loc(rc))
    files = borg.texts(arg_of(rc, 1, "extra_args"), rn.id)
    run.check("signedtext" in files or any("make_temp" in x for x in files),
              "R2", bf.qual + "::argv.file",
              "the verified file is made from signedtext",
              "input file derives from %s" % sorted(files), bf.loc(rc))


# --------------------------------------------------------------------- R3
def _expanded_chains(org, expr, nid):
    """Attribute chains an expression reads, after expanding local names."""
    out = set()
    for a in org.of(expr, nid):
        if a.kind == "attr":
            out.add(a.text)
        elif a.kind == "unknown" and a.ast is not None:
            for sub in ast.walk(a.ast):
                if isinstance(sub, (ast.Name, ast.Attribute)):
                    for b in org.of(sub, a.node if a.node is not None else nid):
                        if b.kind == "attr":
                            out.add(b.text)
        elif a.kind == "call" and a.ast is not None:
            for arg in list(a.ast.args) + [k.value for k in a.ast.keywords]:
                out |= _expanded_chains(org, arg, a.node)
    return out


def _deep_chains(org, expr, nid, depth=0):
    """All attribute chains reachable by expanding every name in `expr`
    (including inside comparisons and calls)."""
    out = set()
    if depth > 6:
        return out
    for sub in ast.walk(expr):
        if isinstance(sub, ast.Attribute):
            c = attr_chain(sub)
            if c and "()" not in c:
                out.add(c)
        if isinstance(sub, ast.Name) and sub.id in org.locals:
            for d in org.rd.reaching(sub.id, nid):
                if d.value is not None and d.kind in ("assign", "unpack", "aug"):
                    out |= _deep_chains(org, d.value, d.node, depth + 1)
                if d.kind == "param":
                    out.add(d.name)
    return out


def r3_reference_names_own_id(run):
    run.rule("R3", "every path to the verifier passes a raise-guard that ties "
             "the Signature's single Reference URI to the inspected element's "
             "own ID (enveloped-signature profile; XSW defence)")
    m = run.model
    fi = m.func(SC + "._check_signature")
    cfg = cfg_of(fi, m)
    org = Origins(cfg)
    node, call = _verify_call(run, cfg)
    guards = []
    for t in cfg.by_kind("test"):
        ch = _deep_chains(org, t.ast, t.id)
        refs = any("signed_info.reference" in c for c in ch)
        ident = any(c == "item.id" for c in ch)
        if not (refs and ident):
            continue
        tn = [x for x in cfg.succ[t.id] if cfg.nodes[x].kind == "true"]
        fn = [x for x in cfg.succ[t.id] if cfg.nodes[x].kind == "false"]
        rejecting = [b for b in tn + fn if only_raises_from(cfg, b)]
        if rejecting:
            guards.append((t, rejecting))
    key = fi.qual + "::reference-uri-guard"
    if not guards:
        run.violated("R3", key, "no raise-guard in _check_signature relates "
                     "item.signature.signed_info.reference (count and URI) to "
                     "item.id before the verifier is called: a signature whose "
                     "Reference names another element is accepted for this one",
                     fi.loc(call))
        return
    accepting = set()
    for t, rej in guards:
        for b in cfg.succ[t.id]:
            if b not in rej:
                accepting.add(b)
    ok, wit = cfg.must_pass(cfg.entry, node.id, accepting)
    run.check(ok, "R3", key, "guard dominates the verifier call",
              "a path reaches the verifier without the reference/ID guard",
              fi.loc(call), witness=cfg.describe_path(wit) if wit else None)
    # shape of the guard on the *accepting* side: exactly one Reference, and
    # its URI equals '#' + item.id
    from ..dataflow import inline_expr
    from ..match import dnf
    for t, rej in guards:
        acc = [b for b in cfg.succ[t.id] if b not in rej]
        if not acc:
            continue
        pol = cfg.nodes[acc[0]].kind == "true"
        full = inline_expr(org.rd, t.ast, t.id)
        alts = dnf(full, pol)
        has_len = has_uri = True
        for conj in alts:
            c_len = c_uri = False
            for e, p in conj:
                if not isinstance(e, ast.Compare) or len(e.ops) != 1:
                    continue
                eq = (isinstance(e.ops[0], ast.Eq) and p) or \
                     (isinstance(e.ops[0], ast.NotEq) and not p)
                if not eq:
                    continue
                sides = [e.left, e.comparators[0]]
                txt = [unparse(x) for x in sides]
                if any(isinstance(x, ast.Call) and call_name(x) == "len"
                       for x in sides) and any(
                        isinstance(x, ast.Constant) and x.value == 1
                        for x in sides):
                    c_len = True
                if any("uri" in x for x in txt) and any(
                        ("item.id" in x and "#" in x) for x in txt):
                    c_uri = True
            has_len = has_len and c_len
            has_uri = has_uri and c_uri
        run.check(has_len, "R3", key + "::single-reference",
                  "acceptance requires exactly one Reference",
                  "the accepting branch does not require len(reference) == 1: "
                  "%s" % unparse(full)[:200], fi.loc(t.ast))
        run.check(has_uri, "R3", key + "::uri-equals-id",
                  "acceptance requires Reference URI == '#' + item.id",
                  "the accepting branch does not require the Reference URI to "
                  "equal '#' + item.id: %s" % unparse(full)[:200],
                  fi.loc(t.ast))


# --------------------------------------------------------------------- R5
def _sig_absent(names):
    def just(e, pol):
        txt = unparse(e)
        for nm in names:
            if txt == "%s.signature" % nm and pol is False:
                return True
            if txt == "hasattr(%s, 'signature')" % nm and pol is False:
                return True
        return False
    return just


def r5_present_implies_checked(run):
    run.rule("R5", "when the element carries a Signature, every path to "
             "acceptance passes the signature check; the only bypasses are the "
             "closed do_not_verify / verified flags, never a requirement flag")
    m = run.model
    cases = [
        (SC + ".correctly_signed_response", "response", "_check_signature",
         lambda e, pol: unparse(e) == "'do_not_verify' in kwargs" and pol),
        (SC + ".correctly_signed_message", "msg", "_check_signature", None),
        ("response.AuthnResponse._assertion", "assertion", "check_signature",
         lambda e, pol: (unparse(e) == "verified" and pol) or
         (unparse(e) == "self.do_not_verify is False" and not pol)),
        ("response.AuthnResponse.decrypt_assertions", "assertion",
         "check_signature", lambda e, pol: unparse(e) == "verified" and pol),
    ]
    for qual, item, checker, bypass in cases:
        fi = m.func(qual)
        cfg = cfg_of(fi, m)
        checks = [n.id for n, _ in cfg.call_nodes(checker)]
        run.require(checks, "%s: no %s call found" % (qual, checker))
        absent = _sig_absent([item])

        def just(e, pol, absent=absent, bypass=bypass):
            return absent(e, pol) or (bypass is not None and bypass(e, pol))
        if "verified" in fi.params():
            # the bypass flag is the CALLER's decision: a function that rebinds
            # it (e.g. to the result of the first check) lets later elements
            # through unchecked
            redefs = [d for d in cfg.rd.defs_of("verified") if d.kind != "param"]
            run.check(not redefs, "R5", fi.qual + "::verified-is-the-callers",
                      "`verified` is only read",
                      "`verified` - the flag that switches the signature check "
                      "off - is assigned inside %s: once it becomes truthy the "
                      "remaining elements are accepted without verification" %
                      fi.name, fi.loc(cfg.nodes[redefs[0].node].ast)
                      if redefs else fi.loc())
        if qual.endswith("decrypt_assertions"):
            sinks = [n.id for n, c in cfg.call_nodes("append")
                     if attr_chain(c.func) == "res.append"]
            if not sinks:
                # collected first, checked afterwards: the hand-out itself
                sinks = [cfg.return_exit]
            srcs = [n.id for n in cfg.by_kind("iter")
                    if unparse(n.ast.target) == item]
            run.require(srcs, "decrypt_assertions: loop over assertions vanished")
        else:
            sinks = [cfg.return_exit]
            srcs = [cfg.entry]
        bad = None
        for s in srcs:
            bad = bad or unguarded_path(cfg, s, sinks, checks, just)
        run.check(bad is None, "R5", qual + "::present=>checked",
                  "no accepting path skips %s unless the signature is absent or "
                  "a closed bypass flag is set" % checker,
                  "an accepting path skips the signature check although a "
                  "Signature may be present",
                  fi.loc(), witness=cfg.describe_path(bad) if bad else None)
        # no requirement flag among the guards of the check itself
        for cid in checks:
            gs = cfg.guards(cid)
            flagged = [unparse(e) for e, pol, _ in gs
                       if any(mentions_attr(e, f) for f in (
                           "must", "require_signature",
                           "require_response_signature",
                           "require_signature_or_response_signature",
                           "want_response_signed", "want_assertions_signed"))]
            run.check(not flagged, "R5", qual + "::check-unconditional",
                      "verification of a present signature does not depend on "
                      "any requirement option",
                      "verification is conditional on requirement flag(s) %s: a "
                      "present-but-invalid signature would be ignored when the "
                      "option is off" % flagged, fi.loc())
        # a falsy result of the check is not ignored (decrypt_assertions tests it)
    # failure of _check_signature result is an exception, callers need no test


# --------------------------------------------------------------------- R6
def r6_bypass_flags_closed(run):
    run.rule("R6", "the verification bypasses stay closed: do_not_verify is only "
             "ever False, and `verified=True` is passed only at the two re-parse "
             "sites that are dominated by the verifying decrypt_assertions call")
    m = run.model
    n = 0
    for mi in m.modules.values():
        for st, tgt, val in assigns_to_attr(mi.tree, "do_not_verify"):
            n += 1
            run.check(isinstance(val, ast.Constant) and val.value is False,
                      "R6", "%s::%s" % (mi.name, norm_text(st)),
                      "do_not_verify initialised False",
                      "do_not_verify assigned %s" % unparse(val),
                      "%s:%d" % (mi.relpath, st.lineno))
        for c in ast.walk(mi.tree):
            if isinstance(c, ast.Call):
                for k in c.keywords:
                    if k.arg == "do_not_verify":
                        run.violated("R6", "%s::%s" % (mi.name, norm_text(c)),
                                     "a call passes do_not_verify=",
                                     "%s:%d" % (mi.relpath, c.lineno))
            if isinstance(c, ast.Dict):
                for k, v in zip(c.keys, c.values):
                    if isinstance(k, ast.Constant) and k.value == "do_not_verify":
                        fi = m.enclosing_function(mi, c)
                        q = fi.qual if fi else mi.name
                        ok = q == "saml2_tophat.response.StatusResponse._loads"
                        if ok:
                            cfg = cfg_of(fi, m)
                            nd = [x for x in cfg.stmt_nodes()
                                  if any(s is c for s in ast.walk(x.ast))]
                            ok = bool(nd) and any(
                                unparse(e) == "self.do_not_verify" and pol
                                for e, pol, _ in cfg.guards(nd[0].id))
                        run.check(ok, "R6", "%s::do_not_verify-dict" % q,
                                  "only built under `if self.do_not_verify`",
                                  "a do_not_verify argument dict is built "
                                  "outside the closed flag test",
                                  "%s:%d" % (mi.relpath, c.lineno))
    run.floor("R6", "do_not_verify assignments", n, 1)

    pa = m.func("response.AuthnResponse.parse_assertion")
    cfg = cfg_of(pa, m)
    org = Origins(cfg)
    verifying = []
    skipping = []
    for nd, c in cfg.call_nodes("decrypt_assertions"):
        v = arg_of(c, 3, "verified")
        if v is None or is_falsy_const(v):
            verifying.append((nd, c))
        else:
            skipping.append((nd, c))
    main = [x for x in verifying
            if unparse(arg_of(x[1], 0)) == "resp.encrypted_assertion"]
    if not main:
        cands = [unparse(arg_of(c, 3, "verified")) for nd, c in skipping
                 if unparse(arg_of(c, 0)) == "resp.encrypted_assertion"]
        run.violated("R6", pa.qual + "::no-always-verifying-decrypt_assertions",
                     "no decrypt_assertions(resp.encrypted_assertion, ...) call "
                     "is left that always verifies signatures (verified is %s): "
                     "the signature of a decrypted assertion can be skipped" %
                     (cands or "absent"), pa.loc())
        return
    mainid = main[0][0].id
    for nd, c in skipping:
        run.check(cfg.dominates(mainid, nd.id) and len(skipping) <= 1, "R6",
                  pa.qual + "::decrypt_assertions(verified=True)",
                  "re-parse after the second decryption round, dominated by the "
                  "verifying call",
                  "decrypt_assertions(..., verified=%s) not dominated by the "
                  "verifying call (or more than one such site)" %
                  unparse(arg_of(c, 3, "verified")), pa.loc(c))
    truthy_sites = 0
    for q in ("response.AuthnResponse.parse_assertion",):
        for nd, c in cfg.call_nodes("_assertion"):
            v = arg_of(c, 1, "verified")
            if v is None or is_falsy_const(v):
                continue
            truthy_sites += 1
            item = arg_of(c, 0)
            srcs = org.of(item, nd.id)
            ok = bool(srcs) and all(
                a.kind == "call" and a.text.endswith("decrypt_assertions")
                for a in srcs)
            ok = ok and cfg.dominates(mainid, nd.id)
            run.check(ok, "R6", pa.qual + "::_assertion(verified=True)",
                      "only over the results of decrypt_assertions, after the "
                      "verifying call",
                      "_assertion(..., %s) on %s which does not come solely "
                      "from decrypt_assertions after the verifying call" %
                      (unparse(v), sorted(a.text for a in srcs)), pa.loc(c))
    run.check(truthy_sites <= 1, "R6", pa.qual + "::truthy-verified-sites",
              "%d site(s)" % truthy_sites,
              "more than one _assertion(..., verified=True) site", pa.loc())
    # anywhere else in the package
    for mi in m.modules.values():
        for c in all_calls_named(mi.tree, "_assertion", "decrypt_assertions"):
            fi = m.enclosing_function(mi, c)
            if fi is not None and fi.qual == pa.qual:
                continue
            if fi is not None and fi.qual in getattr(m, "absorbed", ()):
                continue       # a new helper, analysed where it was expanded
            pos = 1 if call_name(c) == "_assertion" else 3
            v = arg_of(c, pos, "verified")
            if v is not None and not is_falsy_const(v):
                run.violated("R6", "%s::%s" % (fi.qual if fi else mi.name,
                                              norm_text(c)),
                             "signature verification skipped (verified=%s) "
                             "outside parse_assertion" % unparse(v),
                             "%s:%d" % (mi.relpath, c.lineno))
    # the plain loop passes False
    plain = [(nd, c) for nd, c in cfg.call_nodes("_assertion")
             if is_falsy_const(arg_of(c, 1, "verified"))]
    run.floor("R6", "verifying _assertion calls", len(plain), 1)


# --------------------------------------------------------------------- R7
def r7_accept_implies_verified(run, rule="R7", only_valid_cert="F",
                               construct_suffix=""):
    m = run.model
    fi = m.func(SC + "._check_signature")
    cfg = cfg_of(fi, m)
    wit = cfg.flag_search(
        cfg.entry, {"verified": "U", "only_valid_cert": only_valid_cert},
        lambda nid, vd: nid == cfg.return_exit and vd["verified"] != "T")
    key = fi.qual + "::accept=>verified" + construct_suffix
    if wit is not None and construct_suffix:
        # which other condition lets an unverified signature through: the
        # atoms (other than `verified` itself) asserted by the branches after
        # the last statement of the witness - however the test is spelled
        # (`a or b`, nested ifs, negated guard with swapped arms)
        tail = []
        for i in reversed(wit):
            nd = cfg.nodes[i]
            if nd.kind in ("true", "false"):
                tail.append(nd)
            elif nd.kind in ("stmt", "raise", "exc", "handler"):
                break
        atoms = set()
        for nd in tail:
            from .. import canon
            for conj in cfg.cdnf(nd.id):
                atoms |= {(canon.ctext(e), pol) for e, pol in conj
                          if canon.ctext(e) != "verified" and
                          canon.ctext(e).isidentifier() and
                          not canon.ctext(e).startswith("_ret__")}
        if atoms:
            key += "::via:" + ",".join(
                "%s%s" % ("" if pol else "not ", t) for t, pol in sorted(atoms))
    run.check(wit is None, rule, key,
              "no normal return is reachable unless verified is True "
              "(only_valid_cert=%s)" % only_valid_cert,
              "_check_signature can return normally although no certificate "
              "verified the signature (only_valid_cert=%s)" % only_valid_cert,
              fi.loc(), witness=cfg.describe_path(wit, 20) if wit else None)
    return fi, cfg


def r7_response_path(run):
    run.rule("R7", "_check_signature returns normally only when verified was "
             "set under a truthy verifier verdict; response-path callers never "
             "enable only_valid_cert")
    m = run.model
    fi, cfg = r7_accept_implies_verified(run)
    # verified = True only under the verifier's truthy verdict
    n = 0
    for nd in cfg.by_kind("stmt"):
        s = nd.ast
        if isinstance(s, ast.Assign) and any(
                isinstance(t, ast.Name) and t.id == "verified"
                for t in s.targets):
            if is_falsy_const(s.value):
                continue
            n += 1
            gs = cfg.guards(nd.id)
            ok = any(isinstance(e, ast.Call) and
                     call_name(e) == "verify_signature" and pol
                     for e, pol, _ in gs)
            run.check(ok and is_true_const(s.value), "R7",
                      fi.qual + "::verified=True",
                      "set only on the true branch of verify_signature(...)",
                      "verified set to %s outside the true branch of the "
                      "verifier call" % unparse(s.value), fi.loc(s))
    run.floor("R7", "verified=True sites", n, 1)
    # response-path callers
    k = 0
    for qual in (SC + ".correctly_signed_response", SC + ".check_signature"):
        cf = m.func(qual)
        for c in calls_named(cf.node, "_check_signature"):
            k += 1
            v = arg_of(c, 6, "only_valid_cert")
            run.check(v is None or is_falsy_const(v) and not has_starargs(c),
                      "R7", qual + "::only_valid_cert",
                      "response path never passes only_valid_cert",
                      "response path passes only_valid_cert=%s" % unparse(v),
                      cf.loc(c))
    run.floor("R7", "response-path _check_signature callers", k, 2)


# --------------------------------------------------------------------- R8
ALLOWED_SWALLOWS = {
    # (function, caught) -> reason / obligation name
    ("saml2_tophat.sigver.SecurityContext._check_signature", "XmlsecError"):
        "per-certificate failure: try the next certificate; obligation R7 "
        "(no accept unless one verified)",
    ("saml2_tophat.entity.Entity._parse_response", "SigverError"):
        "force/record/retry protocol (obligation C02.R4): retried inside the "
        "handler so a second failure propagates",
    ("saml2_tophat.entity.Entity._parse_response", "SignatureError"):
        "force/record/retry protocol (obligation C02.R4)",
    ("saml2_tophat.response.StatusResponse.load_instance", "SignatureError"):
        "retries check_signature with the Response node name inside the "
        "handler; a second failure propagates",
}


def r8_handler_inventory(run, rule="R8", cone=None, protected=None,
                         allowed=None):
    run.rule(rule, "no handler on the verification cone swallows a signature / "
             "tool / key error, except the enumerated retry idioms whose "
             "obligations are checked separately")
    m = run.model
    cone = cone or RESPONSE_CONE
    protected = protected or PROTECTED
    allowed = ALLOWED_SWALLOWS if allowed is None else allowed
    funcs = [m.func(q) for q in cone]
    inv = excflow.inventory(m, funcs, protected)
    run.count(rule + ".functions", len(funcs))
    run.count(rule + ".handlers", len(inv))
    for hi, hit in inv:
        key = hi.key
        if not hi.swallows():
            run.holds(rule, key, "re-raises/converts on every path: %s" %
                      sorted(hi.dispositions), hi.loc())
            continue
        caught = hi.caught or ["<bare>"]
        reasons = [allowed.get((hi.fi.qual, c)) for c in caught]
        if all(reasons):
            ok = _swallow_obligation(run, m, hi)
            run.check(ok, rule, key,
                      "allowed retry idiom (%s) and its obligation holds" %
                      reasons[0],
                      "allowed retry idiom, but its obligation no longer holds",
                      hi.loc())
        else:
            run.violated(rule, key,
                         "handler may intercept %s raised in its try body (%s) "
                         "and continues (%s) instead of re-raising" %
                         (hit, sorted(set(hi.body_calls()))[:6],
                          sorted(hi.dispositions & excflow.SWALLOWING)),
                         hi.loc())
    run.floor(rule, "handlers inventoried", len(inv), 3)


def _swallow_obligation(run, m, hi):
    q = hi.fi.qual
    if q.endswith("_check_signature"):
        return True   # obligation is R7, evaluated on its own
    if q.endswith("load_instance") or q.endswith("_parse_response"):
        # the handler itself re-invokes a callee of the try body
        body_calls = set(hi.body_calls())
        again = set()
        for s in hi.handler.body:
            for n in walk_no_nested(s):
                if isinstance(n, ast.Call) and call_name(n) in body_calls:
                    again.add(call_name(n))
        return bool(again & {"check_signature", "loads", "verify"})
    return False


def check(run):
    run.explanation = (
        "C01: who-may-verify, same-element binding of (text, item, class name, "
        "ID) from every caller down to the xmlsec1 command line, Reference-URI/"
        "ID raise-guard, present=>checked path rule, closed bypass flags, "
        "flag-sensitive accept=>verified, handler inventory over the response "
        "verification cone. Not decided: xmlsec1's own behaviour, concrete "
        "wrapped documents.")
    run.assumptions = [
        "xmlsec1 honours --node-id/--id-attr/--enabled-reference-uris as "
        "documented",
        "CFG exception edges over-approximate (any call may raise)",
        "receiver types of self.sec / self.crypto as constructed by "
        "security_context()"]
    r1_who_may_verify(run)
    r2_same_element(run)
    r3_reference_names_own_id(run)
    r4_duplicates(run)
    r5_present_implies_checked(run)
    r6_bypass_flags_closed(run)
    r7_response_path(run)
    r8_handler_inventory(run)
    r9_package_wide_callsite_handlers(run)
    # every assertion that is adopted (plain or decrypted) went through the
    # gate that checks its signature: shared with C17.R4
    from . import c17
    c17.r4_same_gate(run, rule="R10")


# --------------------------------------------------------------------- R9
VERIFY_CALLEES = {
    "check_signature", "_check_signature", "verify_signature",
    "validate_signature", "signature_check", "_parse_response",
    "parse_authn_request_response", "_parse_request", "parse_assertion",
    "_assertion", "decrypt_assertions", "parse_and_check_signature",
    "correctly_signed_response", "correctly_signed_message",
}
R9_ALLOWED = {
    ("saml2_tophat.sigver.SecurityContext._check_signature", "XmlsecError"):
        "per-certificate retry (R7)",
    ("saml2_tophat.entity.Entity._parse_response", "SigverError"):
        "force/record/retry (C02.R4)",
    ("saml2_tophat.entity.Entity._parse_response", "SignatureError"):
        "force/record/retry (C02.R4)",
    ("saml2_tophat.response.StatusResponse.load_instance", "SignatureError"):
        "retry with the Response node name",
    ("saml2_tophat.request.Request._loads", "Exception"):
        "empty message raises IncorrectlySigned (C10.R3)",
}


def r9_package_wide_callsite_handlers(run, rule="R9"):
    run.rule(rule, "package-wide: a handler whose try body calls a verification "
             "function and which may catch a signature/tool/key error must not "
             "let processing continue (fall through, continue, return a value) "
             "outside the enumerated retry idioms")
    m = run.model
    callees = set(VERIFY_CALLEES)
    for fi in m.funcs.values():
        if fi.name.startswith("correctly_signed_"):
            callees.add(fi.name)
        if fi.name.startswith("parse_") and fi.name.endswith(
                ("_response", "_request", "_query")):
            callees.add(fi.name)
    n = k = 0
    for q, fi in sorted(m.funcs.items()):
        src_calls = {call_name(c) for c in ast.walk(fi.node)
                     if isinstance(c, ast.Call)}
        if not (src_calls & callees):
            continue
        n += 1
        for hi in excflow.handlers_of(fi, m):
            hit = set(hi.body_calls()) & callees
            if not hit:
                continue
            caught = excflow.may_catch(m, hi, PROTECTED + ["IncorrectlySigned"])
            if not caught:
                continue
            k += 1
            going_on = hi.dispositions & {"fallthrough", "continue", "break",
                                          "return-value"}
            if not going_on:
                run.holds(rule, hi.key, "rejects: %s" % sorted(hi.dispositions),
                          hi.loc(), nontrivial=False)
                continue
            reasons = [R9_ALLOWED.get((q, c)) for c in (hi.caught or ["<bare>"])]
            run.check(all(reasons), rule, hi.key,
                      "enumerated idiom: %s" % reasons[0],
                      "a handler around %s may catch %s and carries on (%s): a "
                      "failed verification could be treated as success" %
                      (sorted(hit), caught, sorted(going_on)), hi.loc())
    run.count(rule + ".functions calling a verification function", n)
    run.floor(rule, "handlers around verification calls", k, 5)


# --------------------------------------------------------------------- R4
def r4_duplicates(run):
    run.rule("R4", "no parser/verifier differential on a repeated Signature "
             "child: either the generic parser refuses to overwrite a "
             "single-valued child, or _check_signature inspects the raw text")
    m = run.model
    fi = m.func("SamlBase._convert_element_tree_to_member")
    cfg = cfg_of(fi, m)
    # the non-list branch: setattr(self, member_name, <parsed child>)
    sets = [(nd, c) for nd, c in cfg.call_nodes("setattr")]
    run.require(sets, "_convert_element_tree_to_member: setattr sink vanished")
    refused = True
    wit_loc = None
    for nd, c in sets:
        gs = cfg.guards(nd.id)
        guarded = False
        for e, pol, bid in gs:
            txt = unparse(e)
            if "getattr(self" in txt and ("is None" in txt or "not " in txt
                                          or pol is False):
                guarded = True
        if not guarded:
            refused = False
            wit_loc = fi.loc(c)
    key = fi.qual + "::single-valued-child-overwrite"
    if refused:
        run.holds("R4", key, "single-valued child is set only when unset",
                  fi.loc())
        return
    # alternative (b): raw-text guard in _check_signature
    cs = m.func(SC + "._check_signature")
    ccfg = cfg_of(cs, m)
    corg = Origins(ccfg)
    node, call = _verify_call(run, ccfg)
    raw_guard = False
    for t in ccfg.by_kind("test"):
        ch = _deep_chains(corg, t.ast, t.id)
        if "decoded_xml" in ch and "item.id" in ch and \
                any(only_raises_from(ccfg, b) for b in ccfg.succ[t.id]) and \
                ccfg.dominates(t.id, node.id):
            raw_guard = True
    run.check(raw_guard, "R4", key,
              "raw-text duplicate guard dominates the verifier",
              "a second <ds:Signature> child (or a second element with the same "
              "ID) silently replaces/shadows the first in the parsed object "
              "while xmlsec1 verifies the first one it finds: the Signature "
              "pysaml2 inspects need not be the one that was verified",
              wit_loc or fi.loc())
