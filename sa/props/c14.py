"""C14 - Binding encoders and decoders are exact inverses and inject nothing."""
import ast
import re

from ..match import facts, Q
from ..srcmodel import attr_chain, call_name, unparse, norm_text, walk_no_nested
from ..cfg import cfg_of
from ..dataflow import Origins
from ..match import calls_named, all_calls_named, arg_of, str_consts

MARKUP = re.compile(r"<[a-zA-Z!/][^>]*>")
SUBST = re.compile(r"\{[a-z_0-9]*\}|%(\([a-z_]+\))?[sd]")

# every markup template with substitutions that exists today, classified
TEMPLATES = {
    ("saml2_tophat.pack", "HTML_INPUT_ELEMENT_SPEC"):
        "binding: one <input>; every substituted value must be html.escape()d "
        "(rule H2)",
    ("saml2_tophat.pack", "HTML_FORM_SPEC"):
        "binding: assembled only from escaped <input> elements and the "
        "destination (rule H2)",
    ("saml2_tophat.client_base", "FORM_SPEC"):
        "legacy template; must stay unused (rule H1)",
    ("saml2_tophat.httputil", "*"):
        "generic WSGI helper responses; carry no SAML message or RelayState",
    ("saml2_tophat.s2repoze.plugins.formswithhidden", "*"):
        "repoze.who plugin form; outside the binding layer",
}


def h1_template_inventory(run):
    run.rule("H1", "the set of markup templates that take substitutions is "
             "exactly the classified one; the legacy FORM_SPEC stays unused")
    m = run.model
    n = 0
    for name, mi in sorted(m.modules.items()):
        for node in ast.walk(mi.tree):
            if not (isinstance(node, ast.Constant) and
                    isinstance(node.value, str)):
                continue
            v = node.value
            if not (MARKUP.search(v) and SUBST.search(v)):
                continue
            n += 1
            # which name is it bound to?
            bound = None
            for tn, vals in mi.assigns.items():
                if any(node is x or any(node is y for y in ast.walk(x))
                       for x in vals):
                    bound = tn
            fi = m.enclosing_function(mi, node)
            if fi is not None:
                cls_doc = ast.get_docstring(fi.node, clean=False)
                if cls_doc and v.strip() == cls_doc.strip():
                    continue
            ok = (name, bound) in TEMPLATES or (name, "*") in TEMPLATES
            if not ok and fi is not None and ast.get_docstring(fi.node) and \
                    v in (ast.get_docstring(fi.node, clean=False) or ""):
                continue
            # docstrings of functions/classes/modules are not templates
            is_doc = False
            for holder in ast.walk(mi.tree):
                if isinstance(holder, (ast.FunctionDef, ast.ClassDef,
                                       ast.Module)) and holder.body and \
                        isinstance(holder.body[0], ast.Expr) and \
                        holder.body[0].value is node:
                    is_doc = True
            if is_doc:
                n -= 1
                continue
            run.check(ok, "H1", "%s::%s" % (name, bound or "line-%s-literal" %
                                            ("in-" + fi.name if fi else "top")),
                      TEMPLATES.get((name, bound)) or
                      TEMPLATES.get((name, "*"), ""),
                      "unclassified markup template with substitutions: %r" %
                      v[:60], "%s:%d" % (mi.relpath, node.lineno),
                      nontrivial=False)
    run.floor("H1", "markup templates", n, 3)
    # FORM_SPEC unused
    uses = []
    for name, mi in m.modules.items():
        for node in ast.walk(mi.tree):
            if isinstance(node, ast.Name) and node.id == "FORM_SPEC" and \
                    isinstance(node.ctx, ast.Load):
                uses.append("%s:%d" % (mi.relpath, node.lineno))
            if isinstance(node, ast.Attribute) and node.attr == "FORM_SPEC":
                uses.append("%s:%d" % (mi.relpath, node.lineno))
            if isinstance(node, ast.ImportFrom):
                if any(a.name == "FORM_SPEC" for a in node.names):
                    uses.append("%s:%d" % (mi.relpath, node.lineno))
    run.check(not uses, "H1", "client_base.FORM_SPEC::unused",
              "the unescaped legacy template is referenced nowhere",
              "FORM_SPEC (no escaping) is used at %s" % uses,
              "src/saml2_tophat/client_base.py")


def _is_escape(model, mi, node):
    """html.escape(x) with quoting on (default or quote=True)."""
    if not (isinstance(node, ast.Call) and call_name(node) == "escape"):
        return False
    tg = model.resolve_expr_all(mi, node.func)
    if tg != {"html.escape"}:
        return False
    for k in node.keywords:
        if k.arg == "quote" and not (isinstance(k.value, ast.Constant) and
                                     k.value.value is True):
            return False
    if len(node.args) > 1 and not (isinstance(node.args[1], ast.Constant) and
                                   node.args[1].value is True):
        return False
    return True


def h2_escape_dominance(run):
    run.rule("H2", "in the auto-submitting POST form every value that derives "
             "from the message, the RelayState or the parameter name is passed "
             "through html.escape (quotes included) before it is substituted")
    m = run.model
    fi = m.func("pack.http_form_post_message")
    mi = m.module("pack")
    cfg = cfg_of(fi, m)
    org = Origins(cfg, transparent={"escape": None, "format": None,
                                    "b64encode": "all"})
    n = 0
    for nd, c in cfg.call_nodes("format"):
        tmpl = attr_chain(c.func.value) if isinstance(c.func, ast.Attribute) \
            else None
        if tmpl == "HTML_INPUT_ELEMENT_SPEC":
            for k in c.keywords:
                n += 1
                key = "%s::input.%s=%s" % (fi.qual, k.arg, norm_text(k.value)[:40])
                if isinstance(k.value, ast.Constant):
                    run.holds("H2", key, "constant", fi.loc(c), nontrivial=False)
                    continue
                run.check(_is_escape(m, mi, k.value), "H2", key,
                          "html.escape(...) with quote on",
                          "value substituted into the <input> element without "
                          "html.escape (or with quote=False): %s" %
                          unparse(k.value), fi.loc(c))
            run.check(not c.args, "H2", fi.qual + "::input.positional",
                      "keyword substitution only", "positional substitution",
                      fi.loc(c), nontrivial=False)
        elif tmpl == "HTML_FORM_SPEC":
            for k in c.keywords:
                n += 1
                key = "%s::form.%s" % (fi.qual, k.arg)
                atoms = org.of(k.value, nd.id)
                if k.arg == "action":
                    run.note("form action=%s is substituted without escaping; "
                             "the property speaks of message and RelayState "
                             "(the destination comes from metadata)" %
                             unparse(k.value))
                    run.check({a.text for a in atoms} == {"location"}, "H2",
                              key, "destination parameter",
                              "action derives from %s" %
                              sorted(a.text for a in atoms), fi.loc(c),
                              nontrivial=False)
                    continue
                ok = atoms and all(
                    (a.kind == "call" and
                     a.text == "HTML_INPUT_ELEMENT_SPEC.format") or
                    (a.kind == "const" and a.text == "''") for a in atoms)
                run.check(ok, "H2", key,
                          "an escaped <input> element (or empty)",
                          "form part derives from %s" %
                          sorted(repr(a) for a in atoms), fi.loc(c))
    run.floor("H2", "substitutions", n, 8)
    # the page that is returned is the formatted form
    for r in cfg.by_kind("return"):
        d = r.ast.value
        data = None
        if isinstance(d, ast.Dict):
            for k, v in zip(d.keys, d.values):
                if isinstance(k, ast.Constant) and k.value == "data":
                    data = v
        atoms = org.of(data, r.id) if data is not None else set()
        run.check(atoms and all(a.kind == "call" and
                                a.text == "HTML_FORM_SPEC.format"
                                for a in atoms), "H2", fi.qual + "::data",
                  "the returned page is the formatted form",
                  "returned data derives from %s" %
                  sorted(repr(a) for a in atoms), fi.loc(r.ast))
    # no other way of building markup from the parameters
    for b in walk_no_nested(fi.node):
        if isinstance(b, ast.BinOp) and isinstance(b.op, (ast.Mod, ast.Add)):
            txt = unparse(b)
            if any(p in txt for p in ("relay_state", "_msg", "message")) and \
                    any(MARKUP.search(s) for s in str_consts(b)):
                run.violated("H2", fi.qual + "::" + norm_text(b)[:50],
                             "markup assembled by string concatenation/"
                             "formatting from a parameter", fi.loc(b))


def u1_query_construction(run):
    run.rule("U1", "every URL query / form body is produced by urlencode(); "
             "the join with the destination uses '?' or '&' depending on an "
             "existing query")
    m = run.model
    # http_redirect_message
    fi = m.func("pack.http_redirect_message")
    cfg = cfg_of(fi, m)
    org = Origins(cfg, transparent={"urlencode": None, "join": None,
                                    "encode": None})
    joins = [(nd, c) for nd, c in cfg.call_nodes("join")
             if isinstance(c.func, ast.Attribute) and
             isinstance(c.func.value, (ast.Name, ast.Constant)) and c.args and
             isinstance(c.args[0], (ast.List, ast.Tuple)) and
             len(c.args[0].elts) == 2 and
             unparse(c.args[0].elts[0]) == "location"]
    run.require(len(joins) == 1, "http_redirect_message: the join of location "
                "and query string vanished")
    nd, c = joins[0]
    parts = c.args[0].elts if isinstance(c.args[0], (ast.List, ast.Tuple)) else []
    ok = len(parts) == 2 and unparse(parts[0]) == "location"
    if ok:
        atoms = org.of(parts[1], nd.id)
        ok = atoms and all(a.kind == "call" and a.text == "urlencode"
                           for a in atoms)
        for a in atoms:
            if a.kind == "call":
                ok = ok and [unparse(x) for x in a.ast.args] == ["args"]
    run.check(ok, "U1", fi.qual + "::query",
              "query string is urlencode(args)",
              "the query appended to the destination is not solely "
              "urlencode(args)", fi.loc(c))
    gname = unparse(c.func.value)
    glue = [g for g in cfg.by_kind("stmt") if isinstance(g.ast, ast.Assign) and
            unparse(g.ast.targets[0]) == gname]
    has_query = Q("urlparse(location).query")
    ok = len(glue) == 2
    seen = {}
    for g in glue:
        v = g.ast.value
        fs = facts(cfg, g.id, inline=True)
        if isinstance(v, ast.Constant) and has_query in fs:
            seen["&"] = v.value
        elif isinstance(v, ast.Constant) and (has_query[0], False) in fs:
            seen["?"] = v.value
        else:
            ok = False
    run.check(ok and seen == {"&": "&", "?": "?"}, "U1", fi.qual + "::glue",
              "'&' when the destination already has a query, else '?'",
              "glue character logic changed: %s" %
              [norm_text(g.ast) for g in glue], fi.loc())
    # args only gets whole values under fixed keys
    for nd2 in cfg.by_kind("stmt"):
        s = nd2.ast
        if isinstance(s, ast.Assign) and unparse(s.targets[0]).startswith("args["):
            k = s.targets[0].slice
            run.check(isinstance(k, ast.Constant), "U1",
                      fi.qual + "::" + norm_text(s)[:50],
                      "parameter stored under a fixed key",
                      "parameter name is not a constant", fi.loc(s),
                      nontrivial=False)
    hdr = []
    for r in cfg.by_kind("return"):
        d = r.ast.value
        if isinstance(d, ast.Dict):
            hdr += [(r, v) for k, v in zip(d.keys, d.values)
                    if isinstance(k, ast.Constant) and k.value == "headers"]
    # the Location header carries str(<the joined URL>) - the join written
    # in place or bound to a name first
    def is_join(e, nid):
        return cfg.itext(e, nid) == cfg.itext(c, nd.id)
    ok = False
    if len(hdr) == 1:
        r0, hv = hdr[0]
        if isinstance(hv, (ast.List, ast.Tuple)) and len(hv.elts) == 1 and \
                isinstance(hv.elts[0], ast.Tuple) and \
                len(hv.elts[0].elts) == 2:
            k0, v0 = hv.elts[0].elts
            ok = isinstance(k0, ast.Constant) and k0.value == "Location" and \
                isinstance(v0, ast.Call) and call_name(v0) == "str" and \
                len(v0.args) == 1 and is_join(v0.args[0], r0.id)
        elif isinstance(hv, ast.Name):
            ok = cfg.itext(hv, r0.id).startswith("[('Location', str(") and \
                cfg.itext(c, nd.id) in cfg.itext(hv, r0.id)
    run.check(ok, "U1", fi.qual + "::Location",
              "Location header is the joined URL", "headers changed", fi.loc(),
              nontrivial=False)
    # artifact / uri / urlencoded POST
    for qual in ("httpbase.HTTPBase.use_http_artifact",
                 "httpbase.HTTPBase.use_http_uri"):
        f = m.func(qual)
        fcfg = cfg_of(f, m)
        forg = Origins(fcfg, transparent={"urlencode": None})
        n = 0
        for nd2 in fcfg.stmt_nodes():
            for d in [x for x in walk_no_nested(nd2.ast)
                      if isinstance(x, ast.Dict)]:
                for k, v in zip(d.keys, d.values):
                    if isinstance(k, ast.Constant) and k.value == "url":
                        n += 1
                        ok = isinstance(v, ast.BinOp) and \
                            isinstance(v.op, ast.Mod) and \
                            unparse(v.left) == "'%s?%s'" and \
                            isinstance(v.right, ast.Tuple) and \
                            unparse(v.right.elts[0]) == "destination"
                        if ok:
                            atoms = forg.of(v.right.elts[1], nd2.id)
                            ok = atoms and all(a.kind == "call" and
                                               a.text == "urlencode"
                                               for a in atoms)
                        run.check(ok, "U1", "%s::url@%d" % (f.qual, n),
                                  "destination + '?' + urlencode({...})",
                                  "URL is built as %s" % unparse(v), f.loc(v))
        run.require(n >= 1, "%s: url construction vanished" % qual)
    f = m.func("pack.http_post_message")
    fcfg = cfg_of(f, m)
    for r in fcfg.by_kind("return"):
        d = r.ast.value
        data = [v for k, v in zip(d.keys, d.values)
                if isinstance(k, ast.Constant) and k.value == "data"] \
            if isinstance(d, ast.Dict) else []
        porg = Origins(fcfg)
        atoms = porg.of(data[0], r.id) if len(data) == 1 else set()
        run.check(len(data) == 1 and atoms and
                  all(a.kind == "call" and a.text == "urlencode"
                      for a in atoms),
                  "U1", f.qual + "::data", "form body is urlencode(...)",
                  "form body is %s" % [unparse(x) for x in data], f.loc(r.ast))
    # nobody glues parameters by hand
    for name, mi in sorted(m.modules.items()):
        if not name.split(".")[-1] in ("pack", "httpbase", "entity",
                                       "client_base", "client", "server"):
            continue
        for node in ast.walk(mi.tree):
            if isinstance(node, ast.Constant) and isinstance(node.value, str) \
                    and re.search(r"[?&](RelayState|SAMLRequest|SAMLResponse|"
                                  r"SigAlg|Signature|SAMLart)=", node.value):
                fi2 = m.enclosing_function(mi, node)
                if fi2 and ast.get_docstring(fi2.node) and \
                        node.value in ast.get_docstring(fi2.node, clean=False):
                    continue
                run.violated("U1", "%s::%r" % (fi2.qual if fi2 else name,
                                                node.value[:30]),
                             "a query parameter is glued into a URL by hand "
                             "instead of urlencode()",
                             "%s:%d" % (mi.relpath, node.lineno))


def p1_pairing(run):
    run.rule("P1", "for each binding the encoder chosen by apply_binding and "
             "the decoder chosen by unravel are an inverse pair")
    m = run.model
    ab = m.func("entity.Entity.apply_binding")
    un = m.func("entity.Entity.unravel")
    acfg = cfg_of(ab, m)
    ucfg = cfg_of(un, m)
    enc = {"BINDING_HTTP_POST": "use_http_form_post",
           "BINDING_HTTP_REDIRECT": "use_http_get",
           "BINDING_SOAP": "use_soap",
           "BINDING_HTTP_ARTIFACT": "use_http_artifact",
           "BINDING_URI": "use_http_uri"}
    dec = {"BINDING_HTTP_POST": "base64.b64decode(txt)",
           "BINDING_HTTP_REDIRECT": "decode_base64_and_inflate(txt)",
           "BINDING_SOAP": "getattr(soap, 'parse_soap_enveloped_saml_%s' % "
                           "msgtype)(txt)",
           "BINDING_HTTP_ARTIFACT": "base64.b64decode(txt)"}
    for b, fn in sorted(enc.items()):
        nodes = [nd for nd, c in acfg.call_nodes(fn)
                 if attr_chain(c.func) == "self." + fn]
        ok = bool(nodes)
        for nd in nodes:
            gs = facts(acfg, nd.id)
            ok = ok and any(Q("binding == %s" % b)[0] in g and p
                            for g, p in gs)
        run.check(ok, "P1", "%s::%s->%s" % (ab.qual, b, fn),
                  "encoder selected under `binding == %s`" % b,
                  "%s is not (only) selected for %s" % (fn, b), ab.loc())
    for b, expr in sorted(dec.items()):
        hits = []
        for nd in ucfg.by_kind("stmt"):
            s = nd.ast
            if isinstance(s, ast.Assign) and unparse(s.targets[0]) == "xmlstr":
                gs = facts(ucfg, nd.id)
                if Q("binding == %s" % b) in gs:
                    hits.append(ucfg.itext(s.value, nd.id))
                    continue
                # arms merged over several bindings (`binding in (A, B)`):
                # reachable when binding is b and none of the other values
                asm = {"binding == %s" % b2: ("T" if b2 == b else "F")
                       for b2 in dec}
                if any("binding" in g[0] for g in gs) and ucfg.flag_search(
                        ucfg.entry, {}, lambda n, vd, t=nd.id: n == t,
                        assume=asm) is not None and not any(
                        Q("binding == %s" % b2) in gs for b2 in dec if b2 != b):
                    hits.append(ucfg.itext(s.value, nd.id))
        run.check(hits == [expr], "P1", "%s::%s" % (un.qual, b),
                  "decoder is %s" % expr,
                  "decoder for %s is %s (encoder: %s)" % (b, hits, enc[b]),
                  un.loc())
    # what the use_* helpers call
    for meth, callee in (("use_http_form_post", "http_form_post_message"),
                         ("use_http_get", "http_redirect_message"),
                         ("use_soap", "make_soap_enveloped_saml_thingy"),
                         ("use_http_post", "http_post_message")):
        f = m.func("httpbase.HTTPBase." + meth)
        cs = [c for c in calls_named(f.node, callee)]
        run.check(len(cs) == 1 and unparse(cs[0].args[0]) in ("message",
                                                              "request"),
                  "P1", f.qual + "::" + callee, "delegates to " + callee,
                  "%s no longer calls %s(message, ...)" % (meth, callee), f.loc())
    # encoders inside the packers
    fp = m.func("pack.http_form_post_message")
    enc_calls = [c for c in calls_named(fp.node, "b64encode")]
    run.check(len(enc_calls) == 1 and
              attr_chain(enc_calls[0].func) == "base64.b64encode" and
              unparse(enc_calls[0].args[0]) == "message", "P1",
              fp.qual + "::b64encode", "POST value is base64(message)",
              "POST encoder changed", fp.loc())
    fr = m.func("pack.http_redirect_message")
    enc_calls = [c for c in calls_named(fr.node, "deflate_and_base64_encode")]
    run.check(len(enc_calls) == 1 and unparse(enc_calls[0].args[0]) == "message",
              "P1", fr.qual + "::deflate", "Redirect value is "
              "deflate_and_base64_encode(message)", "Redirect encoder changed",
              fr.loc())


def p2_raw_deflate(run):
    run.rule("P2", "raw DEFLATE on both sides: the encoder strips the zlib "
             "header/trailer ([2:-4]) iff the decoder uses negative wbits; "
             "base64 is the outer layer on both sides")
    m = run.model
    e = m.func("s_utils.deflate_and_base64_encode")
    d = m.func("s_utils.decode_base64_and_inflate")
    from ..dataflow import inline_expr
    ecfg, dcfg = cfg_of(e, m), cfg_of(d, m)
    er, dr = ecfg.by_kind("return"), dcfg.by_kind("return")
    run.require(len(er) == 1 and len(dr) == 1, "deflate helpers changed shape")
    # the returned expressions with intermediate names expanded
    ev = inline_expr(ecfg.rd, er[0].ast.value, er[0].id)
    dv = inline_expr(dcfg.rd, dr[0].ast.value, dr[0].id)
    strips = False
    outer_b64 = isinstance(ev, ast.Call) and \
        attr_chain(ev.func) == "base64.b64encode"
    inner = ev.args[0] if outer_b64 and ev.args else None
    level_ok = True
    if isinstance(inner, ast.Subscript) and isinstance(inner.slice, ast.Slice):
        lo = inner.slice.lower
        hi = inner.slice.upper
        strips = unparse(lo) == "2" and unparse(hi) == "-4"
        comp = inner.value
    else:
        comp = inner
    comp_ok = isinstance(comp, ast.Call) and \
        attr_chain(comp.func) == "zlib.compress" and \
        unparse(comp.args[0]) == "string_val"
    if isinstance(comp, ast.Call):
        wb = arg_of(comp, None, "wbits")
        if wb is not None:
            level_ok = False
    dec_ok = isinstance(dv, ast.Call) and \
        attr_chain(dv.func) == "zlib.decompress" and dv.args and \
        isinstance(dv.args[0], ast.Call) and \
        attr_chain(dv.args[0].func) == "base64.b64decode" and \
        unparse(dv.args[0].args[0]) == "string"
    wbits = arg_of(dv, 1, "wbits") if isinstance(dv, ast.Call) else None
    neg = False
    if wbits is not None:
        try:
            neg = ast.literal_eval(wbits) < 0 and -15 <= ast.literal_eval(wbits) <= -8
        except Exception:
            neg = False
    run.check(outer_b64 and comp_ok and level_ok, "P2", e.qual + "::shape",
              "base64(zlib.compress(utf-8 bytes)[...])",
              "encoder is %s" % unparse(ev), e.loc())
    run.check(dec_ok, "P2", d.qual + "::shape",
              "zlib.decompress(base64.b64decode(string), wbits)",
              "decoder is %s" % unparse(dv), d.loc())
    run.check(strips == neg and strips, "P2", "s_utils::raw-deflate-agreement",
              "encoder strips header/trailer and decoder uses wbits=%s" %
              (unparse(wbits) if wbits is not None else None),
              "encoder %s the zlib header/trailer but decoder wbits is %s: the "
              "pair is no longer inverse" %
              ("strips" if strips else "keeps",
               unparse(wbits) if wbits is not None else "default (zlib "
               "container)"), e.loc())
    enc_utf8 = any(isinstance(c, ast.Call) and call_name(c) == "encode" and
                   c.args and unparse(c.args[0]) == "'utf-8'"
                   for c in ast.walk(e.node))
    run.check(enc_utf8, "P2", e.qual + "::utf-8", "text is encoded as UTF-8",
              "text encoding changed", e.loc(), nontrivial=False)


def s1_soap(run):
    run.rule("S1", "SOAP: the message element is embedded as the single Body "
             "child and handed back only when its tag is the expected one")
    run.rule("S2", "every message type that travels over SOAP has its decoder "
             "soap.parse_soap_enveloped_saml_<msgtype>, and each decoder "
             "expects the tag of that message type")
    m = run.model
    mk = m.func("pack.make_soap_enveloped_saml_thingy")
    cs = [c for c in calls_named(mk.node, "become_child_element_of")
          if unparse(c.func.value) == "thingy"]
    run.check(len(cs) == 1 and unparse(cs[0].args[0]) == "body", "S1",
              mk.qual + "::embed", "element appended to the Body",
              "SAML element no longer appended to the SOAP Body", mk.loc())
    # the SOAP decoders look for Body / Header among the DIRECT children of
    # the envelope: a search through the whole subtree (iter, getiterator,
    # './/' paths) finds elements that a header block merely carries inside
    for modname in ("soap", "pack"):
        mi = m.module(modname)
        deep = []
        for c in ast.walk(mi.tree):
            if isinstance(c, ast.Call) and isinstance(c.func, ast.Attribute):
                if c.func.attr in ("iter", "getiterator", "itertext") and \
                        not isinstance(c.func.value, ast.Constant):
                    deep.append(c)
                elif c.func.attr in ("find", "findall", "iterfind", "findtext") \
                        and c.args and isinstance(c.args[0], ast.Constant) and \
                        isinstance(c.args[0].value, str) and \
                        "//" in c.args[0].value:
                    deep.append(c)
        for c in deep:
            f = m.enclosing_function(mi, c)
            run.violated("S1", "%s::%s" % (f.qual if f else mi.name,
                                          norm_text(c)[:60]),
                         "the decoder searches the whole subtree of the "
                         "envelope: a Body / Header element nested inside a "
                         "header block is taken for the message's own",
                         "%s:%d" % (mi.relpath, c.lineno))
        if not deep:
            run.holds("S1", "%s::direct-children-only" % mi.name,
                      "no subtree search in the SOAP decoders", mi.relpath)
    ps = m.func("soap.parse_soap_enveloped_saml_thingy")
    cfg = cfg_of(ps, m)
    rets = [r for r in cfg.by_kind("return") if unparse(r.ast.value) != "''"]
    ok = len(rets) == 1 and unparse(rets[0].ast.value) == \
        "ElementTree.tostring(saml_part, encoding='UTF-8')"
    if ok:
        gs = facts(cfg, rets[0].id)
        ok = Q("saml_part.tag in expected_tags", True) in gs
    run.check(ok, "S1", ps.qual + "::expected-tag",
              "returned only under `saml_part.tag in expected_tags`",
              "the Body child is returned without the expected-tag check",
              ps.loc())
    sp = [s for s in walk_no_nested(ps.node) if isinstance(s, ast.Assign) and
          unparse(s.targets[0]) == "saml_part"]
    run.check(len(sp) == 1 and unparse(sp[0].value) == "body[0]", "S1",
              ps.qual + "::first-child", "the Body's single child",
              "saml_part <- %s" % [unparse(s.value) for s in sp], ps.loc(),
              nontrivial=False)
    asserts = [unparse(a.test) for a in walk_no_nested(ps.node)
               if isinstance(a, ast.Assert)]
    # `assert len(<the element whose first child is taken>) == 1`
    bases = {unparse(s.value.value) for s in sp
             if isinstance(s.value, ast.Subscript)} | {"part", "body"}
    run.check(any(("len(%s) == 1" % b) in asserts for b in bases) and
              any("Envelope" in a for a in asserts), "S1",
              ps.qual + "::envelope-shape",
              "Envelope root and exactly one Body child are asserted",
              "shape assertions changed: %s" % asserts, ps.loc())
    # S2: decoders for all message types
    sm = m.module("soap")
    msgtypes = {}
    for base in ("saml2_tophat.request.Request",
                 "saml2_tophat.response.StatusResponse"):
        for q in m.subclasses(base, strict=True):
            mt = m.classes[q].assigns.get("msgtype")
            if isinstance(mt, ast.Constant):
                msgtypes[mt.value] = q
    mt = m.classes["saml2_tophat.response.AssertionIDResponse"].assigns.get(
        "msgtype")
    if isinstance(mt, ast.Constant):
        msgtypes[mt.value] = "saml2_tophat.response.AssertionIDResponse"
    run.floor("S2", "message types", len(msgtypes), 16)
    TAGS = {"authn_request": "AuthnRequest", "logout_request": "LogoutRequest",
            "attribute_query": "AttributeQuery", "authn_query": "AuthnQuery",
            "authz_decision_query": "AuthzDecisionQuery",
            "assertion_id_request": "AssertionIDRequest",
            "name_id_mapping_request": "NameIDMappingRequest",
            "manage_name_id_request": "ManageNameIDRequest",
            "logout_response": "LogoutResponse",
            "name_id_mapping_response": "NameIDMappingResponse",
            "manage_name_id_response": "ManageNameIDResponse",
            "artifact_response": "ArtifactResponse"}
    for mtv, q in sorted(msgtypes.items()):
        fn = "parse_soap_enveloped_saml_" + mtv
        f = sm.functions.get(fn)
        key = "soap." + fn
        if f is None:
            run.violated("S2", key, "message type %r (%s) can be packed into a "
                         "SOAP envelope but has no decoder: unravel() fails" %
                         (mtv, q), sm.relpath)
            continue
        cs = [c for c in calls_named(f.node, "parse_soap_enveloped_saml_thingy")]
        tags = " ".join(str_consts(f.node))
        want = TAGS.get(mtv)
        ok = len(cs) == 1 and unparse(cs[0].args[0]) == "text"
        if want:
            ok = ok and ("{%s}" + want) in tags
        else:
            ok = ok and "{%s}Response" in tags
        run.check(ok, "S2", key, "expects %s" % (want or "Response"),
                  "decoder for %r expects %r" % (mtv, tags), f.loc())


def i1_no_template_sinks(run):
    run.rule("I1", "message text, RelayState and destinations are never used "
             "as a template: not as a regular-expression replacement string, "
             "not as a %-format or str.format format string")
    m = run.model
    funcs = []
    for modname in ("pack", "soap", "httpbase"):
        mi = m.module(modname)
        funcs += [fi for fi in m.funcs.values() if fi.module == mi.name]
    funcs += [m.func("entity.Entity.apply_binding"),
              m.func("entity.Entity.unravel")]
    n = 0
    for fi in funcs:
        params = set(fi.params()) - {"self", "cls"}
        if not params:
            continue
        cfg = cfg_of(fi, m)
        org = Origins(cfg, transparent={
            "escape": None, "quote": None, "urlencode": None,
            "split": "recv", "rsplit": "recv", "splitlines": "recv",
            "replace": "recv", "lstrip": "recv", "rstrip": "recv",
            "partition": "recv", "rpartition": "recv", "ljust": "recv"})

        def tainted(expr, nid):
            return sorted(a.text for a in org.of(expr, nid)
                          if a.kind == "param" and a.text in params)
        for nd in cfg.stmt_nodes():
            for root in cfg.own_exprs(nd):
                for c in walk_no_nested(root):
                    if isinstance(c, ast.Call) and call_name(c) in (
                            "sub", "subn", "expand"):
                        # re.sub(pat, repl, s) / compiled.sub(repl, s)
                        tg = m.resolve_expr_all(m.modules[fi.module], c.func)
                        is_re = any(t.startswith("re.") for t in tg)
                        repl = None
                        if is_re and len(c.args) >= 2:
                            repl = c.args[1]
                        elif not is_re and c.args:
                            repl = c.args[0]
                        repl = arg_of(c, None, "repl") or repl
                        if repl is None or isinstance(repl, ast.Lambda):
                            continue
                        n += 1
                        t = tainted(repl, nd.id)
                        escaped = isinstance(repl, ast.Call) and \
                            call_name(repl) == "escape"
                        run.check(not t or escaped, "I1",
                                  "%s::%s" % (fi.qual, norm_text(c)[:60]),
                                  "replacement string is not caller data",
                                  "%s is used as a regular-expression "
                                  "replacement template: backslash sequences "
                                  "and group references inside the message are "
                                  "interpreted (the packed message differs from "
                                  "the original)" % t, fi.loc(c))
                    if isinstance(c, ast.BinOp) and isinstance(c.op, ast.Mod) \
                            and not isinstance(c.left, ast.Constant):
                        n += 1
                        t = tainted(c.left, nd.id)
                        run.check(not t, "I1", "%s::%s" % (fi.qual,
                                                           norm_text(c)[:60]),
                                  "format string is not caller data",
                                  "%s is used as a %%-format string" % t,
                                  fi.loc(c))
                    if isinstance(c, ast.Call) and call_name(c) == "format" \
                            and isinstance(c.func, ast.Attribute) and \
                            not isinstance(c.func.value, ast.Constant):
                        n += 1
                        t = tainted(c.func.value, nd.id)
                        run.check(not t, "I1", "%s::%s" % (fi.qual,
                                                           norm_text(c)[:60]),
                                  "format string is not caller data",
                                  "%s is used as a str.format template" % t,
                                  fi.loc(c))
    run.count("I1.template sinks examined", n)
    run.holds("I1", "binding-layer", "%d replacement/format sinks examined in "
              "%d functions" % (n, len(funcs)), "src/saml2_tophat/pack.py")


def check(run):
    run.explanation = (
        "C14: classified inventory of markup templates, html.escape on every "
        "message/RelayState-derived substitution of the POST form, urlencode-"
        "only construction of queries and the ?/& glue, encoder/decoder "
        "pairing per binding in apply_binding/unravel, raw-DEFLATE agreement "
        "of the two helpers, SOAP embedding/expected-tag check and decoder "
        "coverage for all message types. Not decided: byte identity for all "
        "strings; what a browser's HTML parser does.")
    run.assumptions = ["html.escape(quote=True) escapes & < > \" '",
                       "urlencode percent-encodes every reserved character"]
    h1_template_inventory(run)
    h2_escape_dominance(run)
    u1_query_construction(run)
    p1_pairing(run)
    p2_raw_deflate(run)
    s1_soap(run)
    i1_no_template_sinks(run)
    from ..common_rules import shared_state_rule
    shared_state_rule(run, "S2", {"soap", "pack", "httpbase", "s_utils",
                                  "httputil"},
                      "decoding / packaging one message")
