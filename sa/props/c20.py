"""C20 - Failures of the external XML-security tool never turn into acceptance."""
import ast

from ..match import facts, Q
from ..srcmodel import attr_chain, call_name, unparse, norm_text, walk_no_nested
from ..cfg import cfg_of, raised_class
from ..dataflow import Origins
from .. import excflow
from ..match import (calls_named, all_calls_named, arg_of, only_raises_from,
                     is_falsy_const, is_true_const, compare_parts)
from . import c01, c17

BK = "sigver.CryptoBackendXmlSec1."


def r1_run_xmlsec(run):
    run.rule("R1", "_run_xmlsec raises when the tool died by signal, validates "
             "the tool's report by default, and only the four producing "
             "operations (encrypt, encrypt_assertion, decrypt, sign_statement) "
             "switch that validation off")
    m = run.model
    fi = m.func(BK + "_run_xmlsec")
    cfg = cfg_of(fi, m)
    d = fi.param_default("validate_output")
    run.check(d is not None and is_true_const(d), "R1",
              fi.qual + "::validate_output-default", "defaults to True",
              "validate_output defaults to %s" % unparse(d), fi.loc())
    # (test text with named intermediate results expanded)
    tests = [t for t in cfg.by_kind("test")
             if "returncode" in unparse(cfg.ctest(t.id))]
    wit = cfg.flag_search(cfg.entry, {}, lambda n, vd: n == cfg.return_exit,
                          assume={"pof.returncode < 0": "T",
                                  "pof.returncode is not None": "T",
                                  "pof.returncode is None": "F",
                                  "pof.returncode >= 0": "F"})
    run.check(bool(tests) and wit is None, "R1", fi.qual + "::signal=>raise",
              "a negative return code raises XmlsecError",
              "death by signal (negative return code) is no longer turned into "
              "an exception", fi.loc(),
              witness=cfg.describe_path(wit) if wit else None)
    vcalls = [nd for nd, c in cfg.call_nodes("parse_xmlsec_output")]
    ok = len(vcalls) == 1
    if ok:
        gs = facts(cfg, vcalls[0].id, inline=False)
        ok = gs == {Q("validate_output", True)} or \
            Q("validate_output", True) in gs and len(gs) <= 2
        c = [c for nd, c in cfg.call_nodes("parse_xmlsec_output")][0]
        ok = ok and unparse(c.args[0]) == "p_err"
    run.check(ok, "R1", fi.qual + "::validates-stderr",
              "with validate_output the tool's stderr report is parsed",
              "the report is no longer validated when validate_output is set",
              fi.loc())
    rets = cfg.by_kind("return")
    for r in rets:
        # (split conjunctions give several tests; the outermost one is on
        # every path, the flag-sensitive search above decides the rest)
        ok = any(cfg.dominates(t.id, r.id) for t in tests)
        run.check(ok and tests, "R1", fi.qual + "::return-after-checks",
                  "the result is returned only after the return-code test",
                  "a return bypasses the return-code test", fi.loc(r.ast),
                  nontrivial=False)
    for h in excflow.handlers_of(fi, m):
        run.check(not h.swallows(), "R1", h.key,
                  "a failed report re-raises", "a failed report is swallowed",
                  h.loc())
    # the result file is created for this invocation (or emptied first): a run
    # that writes nothing must read back nothing
    org = Origins(cfg)
    reads = [(nd, c) for nd, c in cfg.call_nodes("read")]
    fresh = False
    src_txt = []
    for nd, c in reads:
        if not isinstance(c.func, ast.Attribute):
            continue
        atoms = org.of(c.func.value, nd.id)
        src_txt += [repr(a) for a in atoms]
        if atoms and all(a.kind == "call" and
                         a.text in ("NamedTemporaryFile", "mkstemp",
                                    "tempfile.NamedTemporaryFile",
                                    "TemporaryFile") for a in atoms):
            fresh = True
    truncs = [nd for nd, c in cfg.call_nodes("truncate")]
    popens = [nd for nd, c in cfg.call_nodes("Popen")]
    emptied = bool(truncs) and bool(popens) and all(
        any(cfg.dominates(t.id, p.id) for t in truncs) for p in popens)
    run.check(bool(reads) and (fresh or emptied), "R1",
              fi.qual + "::fresh-output-file",
              "the --output file is created inside this invocation (or "
              "truncated before the tool starts)",
              "the result is read from a file that outlives the invocation "
              "(%s) and is not emptied before the tool runs: a run that writes "
              "nothing returns the previous run's output as its own" %
              sorted(set(src_txt)), fi.loc())
    # call sites
    allowed_off = {"encrypt", "encrypt_assertion", "decrypt", "sign_statement"}
    seen = {}
    bk = m.cls("sigver.CryptoBackendXmlSec1")
    for name, f in bk.methods.items():
        for c in calls_named(f.node, "_run_xmlsec"):
            v = arg_of(c, 2, "validate_output")
            seen[name] = unparse(v) if v is not None else "<default True>"
            if v is None or is_true_const(v):
                continue
            run.check(name in allowed_off and is_falsy_const(v), "R1",
                      "%s::validate_output=%s" % (f.qual, unparse(v)),
                      "a producing operation: its success is judged by its "
                      "output (R5)",
                      "%s() switches the validation of the tool's report off"
                      % name, f.loc(c))
    run.check(seen.get("validate_signature") == "<default True>", "R1",
              BK + "validate_signature::validate_output",
              "verification keeps the report validation on",
              "validate_signature runs the tool with validate_output=%s" %
              seen.get("validate_signature"), bk.path)
    run.floor("R1", "_run_xmlsec call sites", len(seen), 5)
    # nobody else starts the tool
    for mi in m.modules.values():
        for c in all_calls_named(mi.tree, "Popen"):
            f = m.enclosing_function(mi, c)
            q = f.qual if f else mi.name
            ok = q in ("saml2_tophat.sigver.CryptoBackendXmlSec1._run_xmlsec",
                       "saml2_tophat.sigver.CryptoBackendXmlSec1.version") or \
                not mi.name.endswith(".sigver")
            run.check(ok, "R1", "%s::Popen" % q, "the tool is started only by "
                      "_run_xmlsec (and version())",
                      "the tool is started outside _run_xmlsec", "%s:%d" %
                      (mi.relpath, c.lineno), nontrivial=False)


def r2_parse_output(run):
    run.rule("R2", "parse_xmlsec_output succeeds only for a whole line equal to "
             "'OK'; everything else raises")
    m = run.model
    fi = m.func("sigver.parse_xmlsec_output")
    cfg = cfg_of(fi, m)
    n = 0
    for r in cfg.by_kind("return"):
        if is_falsy_const(r.ast.value):
            continue
        n += 1
        ok = False
        for e, p, _ in cfg.guards(r.id):
            cp = compare_parts(e)
            if cp and isinstance(cp[1], ast.Eq) and p and \
                    {unparse(cp[0]), unparse(cp[2])} == {"line", "'OK'"}:
                ok = True
        run.check(ok, "R2", fi.qual + "::" + norm_text(r.ast),
                  "True only under `line == 'OK'`",
                  "success is reported under %s (substring/prefix matches "
                  "accept garbage that merely contains OK)" %
                  [(unparse(e), p) for e, p, _ in cfg.guards(r.id)],
                  fi.loc(r.ast))
    run.floor("R2", "truthy returns", n, 1)
    loops = [l for l in walk_no_nested(fi.node) if isinstance(l, ast.For)]
    run.check(len(loops) == 1 and unparse(loops[0].iter) ==
              "output.splitlines()" and unparse(loops[0].target) == "line",
              "R2", fi.qual + "::lines", "iterates whole lines of the report",
              "line iteration changed: %s" % [unparse(l.iter) for l in loops],
              fi.loc())
    implicit = [p for p in cfg.pred[cfg.return_exit]
                if cfg.nodes[p].kind != "return"]
    last = fi.node.body[-1]
    run.check(not implicit and isinstance(last, ast.Raise) and
              raised_class(last) == "XmlsecError", "R2",
              fi.qual + "::no-OK=>raise", "no OK line raises XmlsecError",
              "a report without an OK line no longer raises", fi.loc())
    # a FAIL line leads to a raise (directly, or by leaving the loop for the
    # final raise): from the branch that saw FAIL no normal return is reachable
    lv = [unparse(l.ast.target) for l in cfg.by_kind("foriter")]
    fb = [n for n in cfg.nodes if n.kind in ("true", "false") and lv and
          Q("%s == 'FAIL'" % lv[0], True) in cfg.branch_atoms(n.id)]
    fails = [n for n in fb if only_raises_from(cfg, n.id)]
    run.check(bool(fb) and len(fails) == len(fb), "R2",
              fi.qual + "::FAIL=>raise",
              "a FAIL line raises", "a FAIL line no longer raises", fi.loc(),
              nontrivial=False)


def r3_verdict_derivation(run):
    run.rule("R3", "the verdict of a verification is parse_xmlsec_output's "
             "result, handed up unchanged")
    m = run.model
    fi = m.func(BK + "validate_signature")
    cfg = cfg_of(fi, m)
    rets = cfg.by_kind("return")
    st = [s for s in walk_no_nested(fi.node) if isinstance(s, ast.Assign) and
          isinstance(s.targets[0], ast.Tuple) and
          isinstance(s.value, ast.Call) and call_name(s.value) == "_run_xmlsec"]
    # the name the tool's stderr is bound to: second element of the result
    ename = unparse(st[0].targets[0].elts[1]) if len(st) == 1 and \
        len(st[0].targets[0].elts) == 3 else None
    ok = len(rets) == 1 and ename is not None and \
        cfg.itext(rets[0].ast.value, rets[0].id) == \
        "parse_xmlsec_output(%s)" % ename
    run.check(ok, "R3", fi.qual + "::returns",
              "returns parse_xmlsec_output(<stderr of the tool>)",
              "validate_signature returns %s" %
              [unparse(r.ast.value) for r in rets], fi.loc())
    ok = ename is not None and \
        {d.node for d in cfg.rd.reaching(ename, rets[0].id)} == \
        {cfg.node_of_stmt(st[0]).id} if rets and ename and \
        cfg.node_of_stmt(st[0]) is not None else False
    run.check(ok, "R3", fi.qual + "::stderr",
              "stderr is the second element of _run_xmlsec's result",
              "stderr is taken from %s" % [unparse(s.targets[0]) for s in st],
              fi.loc())
    rx = m.func(BK + "_run_xmlsec")
    rr = [r for r in walk_no_nested(rx.node) if isinstance(r, ast.Return)]
    run.check(len(rr) == 1 and unparse(rr[0].value) ==
              "(p_out, p_err, ntf.read())", "R3", rx.qual + "::result-tuple",
              "(stdout, stderr, output file)", "_run_xmlsec returns %s" %
              [unparse(r.value) for r in rr], rx.loc())
    vs = m.func("sigver.SecurityContext.verify_signature")
    vr = [r for r in walk_no_nested(vs.node) if isinstance(r, ast.Return)]
    run.check(len(vr) == 1 and isinstance(vr[0].value, ast.Call) and
              attr_chain(vr[0].value.func) == "self.crypto.validate_signature",
              "R3", vs.qual + "::returns", "returns the backend's verdict",
              "verify_signature returns %s" % [unparse(r.value) for r in vr],
              vs.loc())
    # the other backend: failure is False, never truthy
    xs = m.func("sigver.CryptoBackendXMLSecurity.validate_signature")
    hs = excflow.handlers_of(xs, m)
    ok = all(h.dispositions == {"return-falsy"} for h in hs) and hs
    run.check(ok, "R3", xs.qual + "::failure=>False",
              "a verification exception yields False",
              "pyXMLSecurity backend failure handling changed", xs.loc())


def r5_no_result_raises(run):
    run.rule("R5", "signing returns only a non-empty tool output, otherwise it "
             "raises; likewise assertion encryption (C17.R3)")
    m = run.model
    fi = m.func(BK + "sign_statement")
    cfg = cfg_of(fi, m)
    rets = cfg.by_kind("return")
    ok = bool(rets)
    for r in rets:
        gs = facts(cfg, r.id)
        ok = ok and Q("signed_statement", True) in gs and \
            "signed_statement" in unparse(r.ast.value)
    run.check(ok, "R5", fi.qual + "::returns-only-output",
              "returns the signed text only when there is one",
              "sign_statement can return without a signed output", fi.loc())
    implicit = [p for p in cfg.pred[cfg.return_exit]
                if cfg.nodes[p].kind != "return"]
    rs = [r for r in cfg.by_kind("raise") if raised_class(r.ast) == "SigverError"]
    run.check(not implicit and len(rs) >= 1, "R5", fi.qual + "::else-raises",
              "every other path raises SigverError",
              "sign_statement can fall through without raising", fi.loc())
    wit = cfg.flag_search(cfg.entry, {}, lambda n, vd: n == cfg.return_exit,
                          assume={"signed_statement": "F"})
    run.check(wit is None, "R5", fi.qual + "::empty=>raise",
              "no normal return with an empty output file",
              "normal return reachable although the tool wrote nothing",
              fi.loc(), witness=cfg.describe_path(wit) if wit else None)
    sc = m.func("sigver.SecurityContext.sign_statement")
    rr = [r for r in walk_no_nested(sc.node) if isinstance(r, ast.Return)]
    run.check(len(rr) == 1 and isinstance(rr[0].value, ast.Call) and
              attr_chain(rr[0].value.func) == "self.crypto.sign_statement",
              "R5", sc.qual + "::delegates", "returns the backend's result",
              "SecurityContext.sign_statement changed", sc.loc(),
              nontrivial=False)


def check(run):
    run.explanation = (
        "C20: shape of _run_xmlsec (signal => raise, report validated by "
        "default, frozen set of call sites that switch validation off), "
        "exact-line success test of parse_xmlsec_output, derivation of the "
        "verdict up to verify_signature, accept=>verified and handler "
        "inventory of _check_signature (C01.R7/R8), no-result => raise for "
        "signing/encryption, decrypt failure handling (C17.R3/R6). Not "
        "decided: actual tool behaviour under each fault mode.")
    run.assumptions = ["Popen raises OSError when the tool cannot be started "
                       "(not caught anywhere on the cone: C01.R8)"]
    r1_run_xmlsec(run)
    r2_parse_output(run)
    r3_verdict_derivation(run)
    run.rule("R4", "no acceptance unless verified was set under a truthy "
             "verdict; per-certificate XmlsecError is the only swallowed "
             "failure, on the cone and at every call site of a verification "
             "function in the package (C01.R7/R8/R9)")
    before = len(run.results)
    saved = dict(run.rules)
    c01.r7_response_path(run)
    c01.r8_handler_inventory(run)
    c01.r9_package_wide_callsite_handlers(run)
    for r in run.results[before:]:
        r["rule"] = "R4"
    run.rules.clear()
    run.rules.update(saved)
    r5_no_result_raises(run)
    run.rule("R6", "encryption without output raises; decryption returns a text "
             "only when non-empty; undecryptable content yields nothing "
             "(C17.R3/R6)")
    before = len(run.results)
    saved = dict(run.rules)
    c17.r3_failures_raise(run)
    c17.r6_undecryptable(run)
    for r in run.results[before:]:
        r["rule"] = "R6"
    run.rules.clear()
    run.rules.update(saved)
