"""Alpha-normalisation of local names against the reference tree.

Rules name the local variables of the functions they inspect (`certs`,
`verified`, `srvs`...).  Renaming a local is behaviour-preserving, so before any
rule runs, every function whose set of local names differs from the reference
snapshot (reference/locals.json, taken from the tree the rule instances were
confirmed on) has its *new* names mapped back onto the *vanished* reference
names they correspond to.  Correspondence is decided structurally: for every
local name the multiset of statement contexts it occurs in is computed with all
local names blanked out; a new name takes the vanished name with the most similar
multiset (mutual best match).

The renaming is applied consistently to the whole function and never onto a
name the function already uses, i.e. it is an alpha-conversion: whatever mapping
is chosen, the renamed function has exactly the behaviour of the function in the
tree.  A poor mapping can therefore only make a rule fail to recognise its
anchor, never make a broken function look right.
"""
import ast
import builtins
import collections
import copy
import json
import os

from . import canon

HERE = os.path.dirname(os.path.abspath(__file__))
REF = os.path.join(os.path.dirname(HERE), "reference", "locals.json")

_BUILTINS = set(dir(builtins))


def _own_nodes(func):
    """Nodes of the function, nested function/class bodies included (closures
    share the enclosing locals; renaming must be consistent there too)."""
    return ast.walk(func)


def local_names(func):
    """Names bound in the function: parameters, assignment / loop / with /
    except / comprehension targets; minus declared globals."""
    out = set()
    glob = set()
    a = func.args
    for p in a.posonlyargs + a.args + a.kwonlyargs:
        out.add(p.arg)
    if a.vararg:
        out.add(a.vararg.arg)
    if a.kwarg:
        out.add(a.kwarg.arg)
    for n in ast.walk(func):
        if isinstance(n, ast.Name) and isinstance(n.ctx, (ast.Store, ast.Del)):
            out.add(n.id)
        elif isinstance(n, ast.ExceptHandler) and n.name:
            out.add(n.name)
        elif isinstance(n, (ast.Global, ast.Nonlocal)):
            glob.update(n.names)
        elif isinstance(n, (ast.FunctionDef, ast.AsyncFunctionDef)) and \
                n is not func:
            na = n.args
            for p in na.posonlyargs + na.args + na.kwonlyargs:
                out.add(p.arg)
    return out - glob


def _used_names(func):
    out = set()
    for n in ast.walk(func):
        if isinstance(n, ast.Name):
            out.add(n.id)
        elif isinstance(n, ast.arg):
            out.add(n.arg)
        elif isinstance(n, ast.ExceptHandler) and n.name:
            out.add(n.name)
    return out


class _Blank(ast.NodeTransformer):
    def __init__(self, locs, focus):
        self.locs = locs
        self.focus = focus

    def visit_Name(self, n):
        if n.id == self.focus:
            return ast.Name(id="@", ctx=n.ctx)
        if n.id in self.locs:
            return ast.Name(id="_", ctx=n.ctx)
        return n

    def visit_Constant(self, n):
        # messages change freely; keep short constants only
        if isinstance(n.value, str) and len(n.value) > 24:
            return ast.Constant(value="...")
        return n


def _headers(func):
    """The expression-bearing 'headers' of every statement: simple statements
    whole, compound statements without their bodies."""
    for n in ast.walk(func):
        if isinstance(n, (ast.Assign, ast.AugAssign, ast.AnnAssign, ast.Expr,
                          ast.Return, ast.Raise, ast.Delete, ast.Assert)):
            if isinstance(n, ast.Expr) and isinstance(n.value, ast.Constant):
                continue
            yield n
        elif isinstance(n, (ast.If, ast.While, ast.IfExp)):
            # the leaves of the test: `if a and b:` / `if a: if b:` /
            # `if not (a and b): ... else:` give the same contexts
            for leaf in _test_leaves(n.test):
                yield leaf
        elif isinstance(n, (ast.For, ast.AsyncFor)):
            yield ast.Tuple(elts=[n.target, n.iter], ctx=ast.Load())
        elif isinstance(n, (ast.With, ast.AsyncWith)):
            for it in n.items:
                yield it.context_expr
                if it.optional_vars is not None:
                    yield it.optional_vars
        elif isinstance(n, ast.comprehension):
            yield ast.Tuple(elts=[n.target, n.iter], ctx=ast.Load())
        elif isinstance(n, ast.ExceptHandler) and n.name:
            yield ast.Name(id=n.name, ctx=ast.Store())


def _test_leaves(e):
    if isinstance(e, ast.BoolOp):
        for v in e.values:
            for x in _test_leaves(v):
                yield x
    elif isinstance(e, ast.UnaryOp) and isinstance(e.op, ast.Not):
        for x in _test_leaves(e.operand):
            yield x
    else:
        yield e


def _is_logging(n):
    return isinstance(n, ast.Expr) and isinstance(n.value, ast.Call) and \
        isinstance(n.value.func, ast.Attribute) and \
        isinstance(n.value.func.value, ast.Name) and \
        n.value.func.value.id in ("logger", "logging")


def signatures(func, visible=(), shown=None):
    """{local name: Counter(context text)}.  Locals in `visible` are not
    blanked in the contexts of the others (they are written as shown[name] when
    given): used by the refinement rounds of mapping(), where names that are
    already paired make the contexts of their neighbours more telling."""
    locs = local_names(func)
    blank = locs - set(visible)
    sigs = {n: collections.Counter() for n in locs}
    for h in _headers(func):
        if _is_logging(h):
            continue
        present = {n.id for n in ast.walk(h) if isinstance(n, ast.Name)} & locs
        if isinstance(h, ast.Name) and h.id in locs:
            present.add(h.id)
        for name in present:
            h2 = copy.deepcopy(h)
            if shown:
                h2 = _Rename({k: v for k, v in shown.items() if k != name}
                             ).visit(h2)
            t = _Blank(blank | {name}, name).visit(h2)
            if isinstance(t, ast.expr):
                try:
                    t = canon.normalize(t)
                except Exception:
                    pass
            try:
                txt = ast.unparse(t)
            except Exception:
                continue
            sigs[name][txt] += 1
    a = func.args
    for i, p in enumerate(a.posonlyargs + a.args):
        sigs[p.arg]["<param %d>" % i] += 1
    return sigs


def _sim(a, b):
    inter = sum((a & b).values())
    union = sum((a | b).values())
    return inter / union if union else 0.0


def first_occurrence_order(func):
    """local names in the order in which they first appear in the source"""
    seen = {}
    for n in ast.walk(func):
        if isinstance(n, ast.Name):
            k, pos = n.id, (n.lineno, n.col_offset)
        elif isinstance(n, ast.arg):
            k, pos = n.arg, (n.lineno, n.col_offset)
        else:
            continue
        if k not in seen or pos < seen[k]:
            seen[k] = pos
    return [k for k, _ in sorted(seen.items(), key=lambda kv: kv[1])]


def mapping(func, ref_sigs, threshold=0.34, qual=None):
    """{new name: vanished reference name}"""
    order_ref = ref_sigs.get("__order__") or []
    ref_sigs = {k: v for k, v in ref_sigs.items() if not k.startswith("__")}
    cur = signatures(func)
    # names the normal-form layers introduce themselves are nobody's rename
    import re as _re
    cur_only = {c for c in set(cur) - set(ref_sigs) if not _re.search(
        r"^_(ret|unused|h|res|ifx|test|elem)__[a-z]?\d+$", c)}
    ref_only = set(ref_sigs) - set(cur)
    if not cur_only or not ref_only:
        return {}
    used = _used_names(func)
    ref_only = {r for r in ref_only if r not in used and r not in _BUILTINS}
    scores = []
    for c in cur_only:
        for r in ref_only:
            s = _sim(cur[c], collections.Counter(ref_sigs[r]))
            if s >= threshold:
                scores.append((s, c, r))
    scores.sort(key=lambda t: (-t[0], t[1], t[2]))
    out, taken = {}, set()
    for s, c, r in scores:
        if c in out or r in taken:
            continue
        # mutual best: nothing else scores as high for either side
        rivals = [x for x in scores if (x[1] == c) != (x[2] == r) and
                  x[0] >= s and x[1] not in out and x[2] not in taken]
        if rivals:
            continue
        out[c] = r
        taken.add(r)
    # exactly one new and one vanished name left: the rename (any injective
    # choice is a sound alpha-conversion)
    # refinement: with the reference function's own (normal-form) source at
    # hand, the contexts of the names still unpaired are recomputed with every
    # name that IS settled (common to both trees, or paired so far) left
    # visible - "x is compared with `binding`" tells more than "x is compared
    # with some local"
    ref_fn = ref_function(qual) if qual else None
    rounds = 0
    while ref_fn is not None and rounds < 4:
        rounds += 1
        rest_c = cur_only - set(out)
        rest_r = ref_only - taken
        if not rest_c or not rest_r:
            break
        settled_ref = (set(ref_sigs) & set(cur)) | taken
        shown = dict(out)                      # new name -> reference name
        vis_cur = (set(ref_sigs) & set(cur)) | set(out)
        cs = signatures(func, visible=vis_cur, shown=shown)
        rs = signatures(ref_fn, visible=settled_ref)
        sc = []
        for c in rest_c:
            for r in rest_r:
                if r not in rs or c not in cs:
                    continue
                v = _sim(cs[c], rs[r])
                if v >= 0.2:
                    sc.append((v, c, r))
        sc.sort(key=lambda t: (-t[0], t[1], t[2]))
        progress = False
        for v, c, r in sc:
            if c in out or r in taken:
                continue
            # with telling contexts a weaker overlap is enough, provided no
            # other pairing of either name comes close
            margin = 1.0 if v >= threshold else 0.6
            rivals = [x for x in sc if (x[1] == c) != (x[2] == r) and
                      x[0] >= v * margin and x[1] not in out and
                      x[2] not in taken]
            if rivals:
                continue
            out[c] = r
            taken.add(r)
            progress = True
        if not progress:
            break
    # names that play exactly the same role (identical contexts, e.g. two
    # flags set and tested alike) cannot be told apart by role: they are paired
    # in the order of their first appearance
    rest_c = sorted(cur_only - set(out))
    rest_r = sorted(ref_only - taken)
    if rest_c and rest_r and order_ref:
        order_cur = first_occurrence_order(func)
        groups = {}
        for c in rest_c:
            groups.setdefault(frozenset(cur[c].items()), ([], []))[0].append(c)
        for r in rest_r:
            groups.setdefault(frozenset(collections.Counter(
                ref_sigs[r]).items()), ([], []))[1].append(r)
        for key, (cs, rs) in groups.items():
            if len(cs) == len(rs) >= 2 and key and \
                    all(c in order_cur for c in cs) and \
                    all(r in order_ref for r in rs):
                cs = sorted(cs, key=order_cur.index)
                rs = sorted(rs, key=order_ref.index)
                for c, r in zip(cs, rs):
                    out[c] = r
                    taken.add(r)
    rest_c = sorted(cur_only - set(out))
    rest_r = sorted(ref_only - taken)
    if len(rest_c) == 1 and len(rest_r) == 1 and \
            len(set(ref_sigs) - set(cur)) - len(taken) == 1 and \
            _sim(cur[rest_c[0]], collections.Counter(ref_sigs[rest_r[0]])) > 0:
        # (some shared role: a reference name can also have vanished because
        # it was a temporary that has been written in place)
        out[rest_c[0]] = rest_r[0]
    return out


class _Rename(ast.NodeTransformer):
    def __init__(self, mp):
        self.mp = mp

    def visit_Name(self, n):
        if n.id in self.mp:
            n.id = self.mp[n.id]
        return n

    def visit_arg(self, n):
        if n.arg in self.mp:
            n.arg = self.mp[n.arg]
        return n

    def visit_ExceptHandler(self, n):
        if n.name in self.mp:
            n.name = self.mp[n.name]
        self.generic_visit(n)
        return n


_REFCACHE = {}


def normaliser_digest():
    """Digest of the modules that determine the statement-context signatures:
    the snapshot must have been taken with the same normaliser."""
    import hashlib
    h = hashlib.sha256()
    for f in ("canon.py", "desugar.py", "alpha.py", "callform.py",
              "foldtemps.py"):
        with open(os.path.join(HERE, f), "rb") as fh:
            h.update(fh.read())
    return h.hexdigest()[:16]


def reference():
    if "r" not in _REFCACHE:
        try:
            with open(REF) as fh:
                _REFCACHE["r"] = json.load(fh)
        except (OSError, ValueError):
            _REFCACHE["r"] = {}
        ref = _REFCACHE["r"]
        ver = ref.get("__normaliser__") if isinstance(ref, dict) else None
        if ref and ver is not None and ver != normaliser_digest() and \
                not os.environ.get("VERIF_NO_ALPHA"):
            from .srcmodel import AnalysisError
            raise AnalysisError(
                "reference/locals.json was taken with a different version of "
                "the normaliser (sa/canon.py, desugar.py, alpha.py): run "
                "tools/snapshot_reference.py on the confirmed tree")
    return _REFCACHE["r"]


SRC = os.path.join(os.path.dirname(REF), "sources.json")
_SRCCACHE = {}


def ref_function(qual):
    """The reference tree's normal form of a function (parsed on demand from
    reference/sources.json), or None."""
    if "s" not in _SRCCACHE:
        try:
            with open(SRC) as fh:
                _SRCCACHE["s"] = json.load(fh)
        except (OSError, ValueError):
            _SRCCACHE["s"] = {}
    src = _SRCCACHE["s"].get(qual)
    if not src:
        return None
    key = ("fn", qual)
    if key not in _SRCCACHE:
        try:
            _SRCCACHE[key] = ast.parse(src).body[0]
        except SyntaxError:
            _SRCCACHE[key] = None
    return _SRCCACHE[key]


def normalise(qual, func):
    """Rename in place; returns the mapping applied ({} if none)."""
    if os.environ.get("VERIF_NO_ALPHA"):
        return {}
    ref = reference().get(qual)
    if not ref or not isinstance(ref, dict):
        return {}
    cur = local_names(func)
    names = {k for k in ref if not k.startswith("__")}
    if not (cur - names) or not (names - cur):
        return {}            # nothing new, or nothing vanished: no rename
    mp = mapping(func, ref, qual=qual)
    # parameters that callers may pass by keyword keep their name unless the
    # function is private (leading underscore) - the keyword is API
    if mp:
        _Rename(mp).visit(func)
    return mp


def snapshot(model):
    out = {}
    for q, fi in sorted(model.funcs.items()):
        sig = signatures(fi.node)
        if sig:
            out[q] = {n: dict(c) for n, c in sorted(sig.items())}
    return out
