"""Linear normal forms for comparisons between a few symbolic quantities.

linearize(expr, sym) -> {symbol: coeff, 1: const} or None (not linear)
normal_forms(test, polarity, sym) -> list of (frozenset(coeffs.items()), strict)
    meaning  sum(coeff*symbol) > 0   (strict)   or   >= 0   (non strict)
    a chained comparison yields one form per link; `not`/polarity are applied.

`sym(expr)` is supplied by the rule: it maps an expression (a Name bound by
def-use, a call, an attribute) to a symbol string, to a linear form (dict), or
returns None to let the normaliser look inside.
"""
import ast
from fractions import Fraction

ONE = 1


def _add(a, b, k=1):
    out = dict(a)
    for s, c in b.items():
        out[s] = out.get(s, 0) + k * c
        if out[s] == 0:
            del out[s]
    return out


def _scale(a, k):
    return {s: c * k for s, c in a.items() if c * k != 0}


def linearize(e, sym):
    r = sym(e)
    if isinstance(r, str):
        return {r: 1}
    if isinstance(r, dict):
        return r
    if isinstance(e, ast.Constant) and isinstance(e.value, (int, float)) and \
            not isinstance(e.value, bool):
        return {ONE: e.value} if e.value else {}
    if isinstance(e, ast.UnaryOp) and isinstance(e.op, ast.USub):
        v = linearize(e.operand, sym)
        return None if v is None else _scale(v, -1)
    if isinstance(e, ast.UnaryOp) and isinstance(e.op, ast.UAdd):
        return linearize(e.operand, sym)
    if isinstance(e, ast.BinOp):
        l = linearize(e.left, sym)
        r = linearize(e.right, sym)
        if l is None or r is None:
            return None
        if isinstance(e.op, ast.Add):
            return _add(l, r)
        if isinstance(e.op, ast.Sub):
            return _add(l, r, -1)
        if isinstance(e.op, ast.Mult):
            if set(l) <= {ONE}:
                return _scale(r, l.get(ONE, 0))
            if set(r) <= {ONE}:
                return _scale(l, r.get(ONE, 0))
            return None
        return None
    return None


def _form(diff, strict):
    return (frozenset(diff.items()), strict)


def _cmp_forms(left, op, right, positive):
    """Forms for `left op right` (positive) or its negation."""
    d = _add(left, right, -1)          # left - right
    nd = _scale(d, -1)
    if isinstance(op, ast.Gt):
        return [_form(d, True)] if positive else [_form(nd, False)]
    if isinstance(op, ast.GtE):
        return [_form(d, False)] if positive else [_form(nd, True)]
    if isinstance(op, ast.Lt):
        return [_form(nd, True)] if positive else [_form(d, False)]
    if isinstance(op, ast.LtE):
        return [_form(nd, False)] if positive else [_form(d, True)]
    return None


def normal_forms(test, polarity, sym):
    """Conjunction of forms implied by `test` evaluating to `polarity`.
    Returns None when the test is not a (chain of) linear comparison(s), or when
    the negation of a chain would be a disjunction."""
    if isinstance(test, ast.UnaryOp) and isinstance(test.op, ast.Not):
        return normal_forms(test.operand, not polarity, sym)
    if isinstance(test, ast.BoolOp) and isinstance(test.op, ast.And) and polarity:
        out = []
        for v in test.values:
            f = normal_forms(v, True, sym)
            if f is None:
                return None
            out.extend(f)
        return out
    if isinstance(test, ast.BoolOp) and isinstance(test.op, ast.Or) and \
            not polarity:
        out = []
        for v in test.values:
            f = normal_forms(v, False, sym)
            if f is None:
                return None
            out.extend(f)
        return out
    if not isinstance(test, ast.Compare):
        return None
    operands = [test.left] + list(test.comparators)
    lin = [linearize(o, sym) for o in operands]
    if any(x is None for x in lin):
        return None
    if len(test.ops) > 1 and not polarity:
        return None
    out = []
    for i, op in enumerate(test.ops):
        f = _cmp_forms(lin[i], op, lin[i + 1], polarity)
        if f is None:
            return None
        out.extend(f)
    return out


def form(coeffs, strict=True):
    return _form({k: v for k, v in coeffs.items() if v}, strict)


def same_modulo_equality(forms, expected):
    """Set equality of linear parts, ignoring strictness (the properties leave
    instants exactly equal to a bound unspecified)."""
    a = {f[0] for f in forms}
    b = {f[0] for f in expected}
    return a == b


def show(forms):
    out = []
    for coeffs, strict in forms or []:
        terms = []
        for s, c in sorted(coeffs, key=lambda x: str(x[0])):
            name = "1" if s == ONE else str(s)
            terms.append("%+g*%s" % (c, name))
        out.append(" ".join(terms) + (" > 0" if strict else " >= 0"))
    return out
