"""python -m sa.cli <ID>|all [--tier quick|thorough] [--replay PATH] [--no-write]

Exit 0: every rule instance HOLDS (or is a listed known finding)
Exit 1: `VIOLATION property=<id> replay=<path>` for an unlisted violation
Exit 2: `ANALYSIS-ERROR ...` the checker cannot decide this tree (fail closed)
"""
import argparse
import importlib
import json
import os
import sys

sys.path.insert(0, os.path.dirname(os.path.dirname(os.path.abspath(__file__))))

from sa.report import execute  # noqa: E402

PROPS = ["C01", "C02", "C03", "C04", "C05", "C06", "C07", "C09", "C10", "C11",
         "C12", "C13", "C14", "C15", "C16", "C17", "C18", "C19", "C20"]


def run_one(pid, tier, write=True):
    try:
        mod = importlib.import_module("sa.props.%s" % pid.lower())
    except ImportError as e:
        print("ANALYSIS-ERROR property=%s no checker module: %s" % (pid, e))
        return 2
    def fn(run):
        mod.check(run)
        if tier == "thorough" and not os.environ.get("VERIF_NO_SENS"):
            from sa.sensitivity import sensitivity
            sensitivity(run)
    return execute(pid, fn, tier=tier, write=write)


def main(argv=None):
    ap = argparse.ArgumentParser()
    ap.add_argument("prop")
    ap.add_argument("--tier", default=os.environ.get("VERIF_TIER", "quick"),
                    choices=["quick", "thorough"])
    ap.add_argument("--replay")
    ap.add_argument("--no-write", action="store_true")
    a = ap.parse_args(argv)
    if a.replay:
        with open(a.replay) as fh:
            rep = json.load(fh)
        print("replaying %s rule %s construct %s" % (
            rep["property"], rep["instance"]["rule"],
            rep["instance"]["construct"]))
        return run_one(rep["property"], a.tier, write=False)
    if a.prop == "all":
        worst = 0
        for p in PROPS:
            worst = max(worst, run_one(p, a.tier, not a.no_write))
        return worst
    return run_one(a.prop.upper(), a.tier, not a.no_write)


if __name__ == "__main__":
    sys.exit(main())
