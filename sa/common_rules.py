"""Rules shared by several properties."""
import ast

from .srcmodel import attr_chain, call_name, unparse, norm_text, walk_no_nested
from .cfg import cfg_of
from .match import facts, Q


def memo_sites(model, fi):
    """Memoisation sites in a function: `S[K] = V` where S is instance or module
    state and the same function also reads S[K] (subscript or .get) - "look it
    up, else compute and remember".  Yields (node, S text, key expr, value)."""
    cfg = cfg_of(fi, model)
    out = []
    reads = set()
    for x in ast.walk(fi.node):
        if isinstance(x, ast.Subscript) and isinstance(x.ctx, ast.Load):
            ch = attr_chain(x.value)
            if ch:
                reads.add(ch)
        if isinstance(x, ast.Call) and isinstance(x.func, ast.Attribute) and \
                x.func.attr in ("get", "setdefault"):
            ch = attr_chain(x.func.value)
            if ch:
                reads.add(ch)
    mod = model.modules[fi.module]
    for nd in cfg.by_kind("stmt"):
        s = nd.ast
        if not (isinstance(s, ast.Assign) and len(s.targets) == 1 and
                isinstance(s.targets[0], ast.Subscript)):
            continue
        tgt = s.targets[0]
        store = attr_chain(tgt.value)
        if not store or "[" in store or store not in reads:
            continue
        root = store.split(".")[0]
        is_state = (root == "self" and store.count(".") == 1) or \
            (store.count(".") == 0 and root not in cfg.rd_locals() and
             root in mod.assigns)
        if not is_state:
            continue
        # ... and the function hands the remembered value back
        returned = False
        for r in cfg.by_kind("return"):
            if r.ast.value is None:
                continue
            for x in ast.walk(r.ast.value):
                if isinstance(x, ast.Subscript) and attr_chain(x.value) == store:
                    returned = True
                if isinstance(x, ast.Call) and isinstance(x.func, ast.Attribute) \
                        and x.func.attr == "get" and \
                        attr_chain(x.func.value) == store:
                    returned = True
        if not returned:
            continue
        out.append((nd, store, tgt.slice, s.value))
    return out


def memo_key_complete(run, rule, modules):
    """Every parameter of the function that the remembered value depends on
    is part of the key it is remembered under."""
    from .dataflow import Origins
    m = run.model
    n = 0
    for q, fi in sorted(m.funcs.items()):
        short = fi.module[len(m.pkg) + 1:] if fi.module.startswith(m.pkg + ".") \
            else ""
        if short not in modules:
            continue
        if not any(isinstance(x, ast.Subscript) and
                   isinstance(x.ctx, ast.Store) for x in ast.walk(fi.node)):
            continue
        try:
            sites = memo_sites(m, fi)
        except Exception:
            continue
        if not sites:
            continue
        cfg = cfg_of(fi, m)
        org = Origins(cfg)
        params = set(fi.params()) - {"self", "cls"}
        for nd, store, kexpr, vexpr in sites:
            kparams = {a.text for a in org.of(kexpr, nd.id) if a.kind == "param"}
            vparams = {a.text for a in org.of(vexpr, nd.id) if a.kind == "param"}
            # arguments of calls inside the value count as dependencies too
            from .dataflow import inline_expr
            vin = inline_expr(cfg.rd, vexpr, nd.id)
            for x in ast.walk(vin):
                if isinstance(x, ast.Name) and x.id in params and not any(
                        d.kind != "param"
                        for d in cfg.rd.reaching(x.id, nd.id)):
                    vparams.add(x.id)
                elif isinstance(x, ast.Name) and x.id in cfg.rd_locals():
                    vparams |= {a.text for a in org.of(x, nd.id)
                                if a.kind == "param"}
            # a value that is one of the function's own inputs stored under
            # another input (`self.x[k] = v`) is a plain store, not a memo
            if isinstance(vexpr, ast.Name) and vexpr.id in params and \
                    not any(d.kind != "param"
                            for d in cfg.rd.reaching(vexpr.id, nd.id)):
                continue
            n += 1
            missing = sorted((vparams & params) - kparams)
            run.check(not missing, rule,
                      "%s::memo %s[%s]" % (fi.qual, store, unparse(kexpr)),
                      "the key covers every parameter the remembered value "
                      "depends on",
                      "the value remembered in %s under key %s also depends on "
                      "parameter(s) %s: a later call that differs only in %s "
                      "gets the value computed for the first one" % (
                          store, unparse(kexpr), missing, "/".join(missing)),
                      fi.loc(nd.ast))
    run.count("%s.memoisation sites" % rule, n)
    return n


_CTL = '''
class A(object):
    def f(self, a, b, use="x"):
        k = (a, b)
        if k not in self._c:
            self._c[k] = g(self, a, b, use)
        return list(self._c[k])
'''


def memo_positive_control():
    """The matcher must flag the textbook incomplete key on every run."""
    import os
    import shutil
    import tempfile
    from .srcmodel import Model
    from .report import Run
    d = tempfile.mkdtemp(prefix="verif-ctl-")
    try:
        pkg = os.path.join(d, "src", "saml2_tophat")
        os.makedirs(pkg)
        with open(os.path.join(pkg, "__init__.py"), "w") as fh:
            fh.write("")
        with open(os.path.join(pkg, "ctl.py"), "w") as fh:
            fh.write(_CTL)
        old = {k: os.environ.get(k) for k in ("VERIF_NO_ALPHA",
                                              "VERIF_NO_INLINE",
                                              "VERIF_NO_FUNCRENAME")}
        os.environ.update({k: "1" for k in old})
        try:
            mm = Model(root=d)
        finally:
            for k, v in old.items():
                if v is None:
                    os.environ.pop(k, None)
                else:
                    os.environ[k] = v

        class _R(object):
            def __init__(self):
                self.model = mm
                self.bad = 0

            def check(self, ok, *a, **k):
                self.bad += 0 if ok else 1

            def count(self, *a, **k):
                pass
        r = _R()
        memo_key_complete(r, "ctl", {"ctl"})
        return r.bad == 1
    finally:
        shutil.rmtree(d, ignore_errors=True)


def memo_rule(run, rule, modules, what):
    run.rule(rule, "no result that is remembered between calls (%s) is keyed "
             "by fewer parameters than it depends on" % what)
    run.require(memo_positive_control(), "%s positive control: the incomplete "
                "memoisation key of the embedded example is not flagged" % rule)
    n = memo_key_complete(run, rule, modules)
    run.holds(rule, "memo-keys", "%d memoisation site(s) in %s; positive "
              "control flagged" % (n, sorted(modules)), "")


def overrides_of(model, base_qual, method):
    """Classes below base_qual that define `method` themselves."""
    out = []
    for sq in model.subclasses(base_qual, True):
        ci = model.classes.get(sq)
        if ci and method in ci.methods:
            out.append(ci.methods[method])
    return out


_CN = {}


def model_class_names(model):
    k = id(model)
    if k not in _CN:
        _CN[k] = {ci.name for ci in model.classes.values()}
    return _CN[k]


def _terminal(e):
    if isinstance(e, ast.Name):
        return e.id
    if isinstance(e, ast.Attribute):
        return e.attr
    return None


def _super_init_target(model, mname, cls_name, c):
    """super(...).__init__(a, b) / Base.__init__(self, a, b) inside class
    `cls_name` of module `mname` -> (FuncInfo of the inherited initialiser,
    its qualified name, number of leading parameters not in the call)."""
    f = c.func
    if cls_name is None or not (isinstance(f, ast.Attribute) and
                                f.attr == "__init__"):
        return None
    q = None
    for cq, ci in model.classes.items():
        if ci.module == mname and ci.name == cls_name:
            q = cq
    if q is None:
        return None
    recv = f.value
    if isinstance(recv, ast.Call) and isinstance(recv.func, ast.Name) and \
            recv.func.id == "super":
        for bq in model.mro(q)[1:]:
            bc = model.classes.get(bq)
            if bc and "__init__" in bc.methods:
                return bc.methods["__init__"], bc.methods["__init__"].qual, 1
        return None
    if isinstance(recv, ast.Name):
        for bq in model.mro(q)[1:]:
            bc = model.classes.get(bq)
            if bc and bc.name == recv.id and "__init__" in bc.methods:
                return bc.methods["__init__"], bc.methods["__init__"].qual, 0
    return None


def misplaced_arguments(model, modules):
    """Positional arguments that carry the name of one parameter of the callee
    but are bound to a different one: f(a, b, self.timeout) where f's third
    parameter is `retries` and its fourth `timeout`.  Callee = a package
    function / class (constructor) whose name is unique in the package.
    Yields (module info, call, callee qual, bound parameter, named parameter)."""
    by_name = {}
    for q, fi in model.funcs.items():
        if fi.name == "__init__":
            continue
        by_name.setdefault(fi.name, []).append(fi)
    ctor = {}
    for q, ci in model.classes.items():
        init = None
        for bq in model.mro(q):
            bc = model.classes.get(bq)
            if bc and "__init__" in bc.methods:
                init = bc.methods["__init__"]
                break
        if init is not None:
            ctor.setdefault(ci.name, []).append((q, init))
    out = []
    for mname, mi in sorted(model.modules.items()):
        short = mname[len(model.pkg) + 1:] if mname.startswith(model.pkg + ".") \
            else ""
        if short not in modules:
            continue
        in_class = {}
        for cd in ast.walk(mi.tree):
            if isinstance(cd, ast.ClassDef):
                for x in ast.walk(cd):
                    if isinstance(x, ast.Call):
                        in_class[id(x)] = cd.name    # innermost wins (walk order)
        for c in ast.walk(mi.tree):
            if not isinstance(c, ast.Call) or len(c.args) < 2:
                continue
            nm = call_name(c)
            target = None
            drop = 0
            sup = _super_init_target(model, mname, in_class.get(id(c)), c)
            if sup is not None:
                target, tq, drop = sup
            elif nm in ctor and len(ctor[nm]) == 1:
                target = ctor[nm][0][1]
                tq = ctor[nm][0][0]
                drop = 1
            elif nm in by_name and len(by_name[nm]) == 1:
                target = by_name[nm][0]
                tq = target.qual
                static = any(isinstance(d, ast.Name) and d.id == "staticmethod"
                             for d in target.node.decorator_list)
                drop = 1 if target.cls and not static else 0
                if target.cls and not isinstance(c.func, ast.Attribute):
                    continue
                if target.cls and isinstance(c.func.value, ast.Name) and \
                        c.func.value.id in model_class_names(model):
                    drop = 0          # Class.method(self, ...)
            if target is None:
                continue
            ps = [a.arg for a in target.node.args.args][drop:]
            if target.node.args.vararg is not None:
                continue
            for i, a in enumerate(c.args):
                if isinstance(a, ast.Starred) or i >= len(ps):
                    break
                t = _terminal(a)
                if t is None or t == ps[i] or t.lstrip("_") == ps[i].lstrip("_"):
                    continue
                if t in ps and ps.index(t) != i:
                    # the parameter the argument is named after is not given
                    # otherwise (positionally or by keyword)
                    j = ps.index(t)
                    given = j < len(c.args) or any(k.arg == t for k in c.keywords)
                    if j < len(c.args):
                        # given positionally: a finding only when that slot
                        # holds an argument named after yet another parameter
                        # (crossed arguments), not a constant or other value
                        tj = _terminal(c.args[j])
                        bad = tj is not None and tj != t and tj in ps
                    else:
                        bad = not given
                    if bad:
                        out.append((mi, c, tq, ps[i], t))
    return out


def misplaced_rule(run, rule, modules, what):
    run.rule(rule, "no argument of an internal call (%s) is bound to a "
             "parameter other than the one it is named after" % what)
    m = run.model
    hits = misplaced_arguments(m, modules)
    for mi, c, tq, bound, named in hits:
        f = m.enclosing_function(mi, c)
        run.violated(rule, "%s::%s" % (f.qual if f else mi.name,
                                       norm_text(c)[:70]),
                     "`%s` is passed to %s in the position of parameter `%s`, "
                     "while that function has a parameter `%s`: the value "
                     "configures the wrong thing and `%s` keeps its default" %
                     (named, tq, bound, named, named),
                     "%s:%d" % (mi.relpath, c.lineno))
    run.require(_misplaced_control(), "%s positive control: the misplaced "
                "argument of the embedded example is not flagged" % rule)
    run.holds(rule, "argument-positions", "%d misplaced arguments in %s "
              "(positive control flagged)" % (len(hits), sorted(modules)), "")


_CTL2 = '''
class Store(object):
    def __init__(self, a, b, check_validity=True, timeout=None):
        pass


class User(object):
    def f(self):
        return Store(self.a, self.b, self.timeout)


class Sub(Store):
    def __init__(self, a, b, timeout=None, check_validity=True):
        super(Sub, self).__init__(a, b, timeout, check_validity)


class Sub2(Store):
    def __init__(self, a, b, timeout=None, check_validity=True):
        Store.__init__(self, a, b, check_validity, timeout)
'''


def _misplaced_control():
    import os
    import shutil
    import tempfile
    from .srcmodel import Model
    d = tempfile.mkdtemp(prefix="verif-ctl-")
    try:
        pkg = os.path.join(d, "src", "saml2_tophat")
        os.makedirs(pkg)
        open(os.path.join(pkg, "__init__.py"), "w").close()
        with open(os.path.join(pkg, "ctl.py"), "w") as fh:
            fh.write(_CTL2)
        old = {k: os.environ.get(k) for k in ("VERIF_NO_ALPHA",
                                              "VERIF_NO_INLINE",
                                              "VERIF_NO_FUNCRENAME")}
        os.environ.update({k: "1" for k in old})
        try:
            mm = Model(root=d)
        finally:
            for k, v in old.items():
                if v is None:
                    os.environ.pop(k, None)
                else:
                    os.environ[k] = v
        return len(misplaced_arguments(mm, {"ctl"})) == 3
    finally:
        shutil.rmtree(d, ignore_errors=True)


# ---------------------------------------------------------------- shared state
_MUTATORS = {"append", "extend", "insert", "remove", "pop", "clear", "update",
             "add", "discard", "setdefault", "popitem", "sort", "reverse",
             "appendleft", "extendleft"}


def _is_mutable_display(e):
    if isinstance(e, (ast.List, ast.Dict, ast.Set, ast.ListComp, ast.DictComp,
                      ast.SetComp)):
        return True
    return isinstance(e, ast.Call) and isinstance(e.func, ast.Name) and \
        e.func.id in ("list", "dict", "set", "defaultdict", "OrderedDict",
                      "deque", "bytearray")


def _nested_mutables(value):
    """keys / positions of a module-level container display that hold a
    mutable object themselves: {"header": [], "body": None} -> {"header"}"""
    out = set()
    if isinstance(value, ast.Dict):
        for k, v in zip(value.keys, value.values):
            if _is_mutable_display(v):
                out.add(k.value if isinstance(k, ast.Constant) else "*")
    elif isinstance(value, (ast.List, ast.Tuple, ast.Set)):
        for i, v in enumerate(value.elts):
            if _is_mutable_display(v):
                out.add(i)
    return out


def shared_state_leaks(model, modules):
    """Objects that survive between calls and are modified by a call:
      (a) a mutable default argument that the function itself mutates;
      (b) a nested mutable object of a module-level container reached through
          the container, an alias or a SHALLOW copy of it (dict(X), X.copy(),
          list(X), copy.copy(X), {**X}) and then mutated.
    What one call leaves there is seen by the next one.
    Yields (function info, statement, description)."""
    out = []
    for q, fi in sorted(model.funcs.items()):
        short = fi.module[len(model.pkg) + 1:] if fi.module != model.pkg else ""
        if short not in modules and fi.module not in modules:
            continue
        mi = model.modules[fi.module]
        fn = fi.node
        # ---- (a) mutable defaults
        a = fn.args
        pos = a.posonlyargs + a.args
        dflt = dict(zip([p.arg for p in reversed(pos)], reversed(a.defaults)))
        for p, d in zip(a.kwonlyargs, a.kw_defaults):
            if d is not None:
                dflt[p.arg] = d
        shared = {}            # local name -> (description, nested keys or None)
        for p, d in dflt.items():
            if _is_mutable_display(d):
                shared[p] = ("the default value of parameter `%s`" % p, None)
        # ---- (b) module-level containers with nested mutables
        containers = {}
        for name, vals in mi.assigns.items():
            if len(vals) != 1:
                continue
            nm = _nested_mutables(vals[0])
            if nm:
                containers[name] = nm
        stored = {n.id for n in ast.walk(fn) if isinstance(n, ast.Name) and
                  isinstance(n.ctx, ast.Store)} | {p.arg for p in pos}
        stmts = [s for s in walk_no_nested(fn)
                 if isinstance(s, (ast.Expr, ast.Assign, ast.AugAssign,
                                   ast.Delete, ast.Return, ast.AnnAssign))]

        def container_of(e):
            """-> (container name, shallow?) when e evaluates to the container
            or a shallow copy of it"""
            if isinstance(e, ast.Name) and e.id in containers and \
                    e.id not in stored:
                return e.id
            if isinstance(e, ast.Call):
                f = e.func
                nm = f.id if isinstance(f, ast.Name) else (
                    f.attr if isinstance(f, ast.Attribute) else None)
                if nm in ("dict", "list", "tuple", "copy", "OrderedDict") and \
                        e.args and isinstance(e.args[0], ast.Name) and \
                        e.args[0].id in containers and \
                        e.args[0].id not in stored and not (
                            isinstance(f, ast.Attribute) and
                            attr_chain(f) == "copy.deepcopy"):
                    return e.args[0].id
                if isinstance(f, ast.Attribute) and f.attr == "copy" and \
                        isinstance(f.value, ast.Name) and \
                        f.value.id in containers and f.value.id not in stored:
                    return f.value.id
            if isinstance(e, ast.Dict) and any(k is None for k in e.keys):
                for k, v in zip(e.keys, e.values):
                    if k is None and isinstance(v, ast.Name) and \
                            v.id in containers and v.id not in stored:
                        return v.id
            return None
        views = {}        # local -> container name (whole container view)
        for s in stmts:
            if isinstance(s, ast.Assign) and len(s.targets) == 1 and \
                    isinstance(s.targets[0], ast.Name):
                c = container_of(s.value)
                if c:
                    views[s.targets[0].id] = c

        def nested_of(e):
            """-> description when e evaluates to a nested mutable of a
            container (through the container itself or a view)"""
            if not isinstance(e, ast.Subscript):
                return None
            base = e.value
            c = None
            if isinstance(base, ast.Name):
                if base.id in views:
                    c = views[base.id]
                elif base.id in containers and base.id not in stored:
                    c = base.id
            if c is None:
                return None
            k = e.slice.value if isinstance(e.slice, ast.Constant) else None
            if k is not None and k not in containers[c] and \
                    "*" not in containers[c]:
                return None
            return "the object stored in module-level %s[%r]" % (
                c, k if k is not None else "...")
        for s in stmts:
            if isinstance(s, ast.Assign) and len(s.targets) == 1 and \
                    isinstance(s.targets[0], ast.Name):
                d = nested_of(s.value)
                if d:
                    shared[s.targets[0].id] = (d, None)
        for s in stmts:
            hit = None
            for x in ast.walk(s):
                if isinstance(x, ast.Call) and isinstance(x.func, ast.Attribute) \
                        and x.func.attr in _MUTATORS:
                    r = x.func.value
                    if isinstance(r, ast.Name) and r.id in shared:
                        hit = shared[r.id][0]
                    else:
                        hit = hit or nested_of(r)
            if isinstance(s, (ast.Assign, ast.AugAssign, ast.Delete)):
                tg = s.targets if isinstance(s, (ast.Assign, ast.Delete)) \
                    else [s.target]
                for t in tg:
                    if isinstance(t, ast.Subscript):
                        if isinstance(t.value, ast.Name) and \
                                t.value.id in shared:
                            hit = shared[t.value.id][0]
                        else:
                            hit = hit or nested_of(t.value)
                    if isinstance(s, ast.AugAssign):
                        if isinstance(t, ast.Name) and t.id in shared:
                            hit = shared[t.id][0]
                        else:
                            hit = hit or nested_of(t)
            if hit:
                out.append((fi, s, hit))
    return out


def shared_state_rule(run, rule, modules, what):
    run.rule(rule, "no call modifies an object that the next call will start "
             "from (%s): neither a mutable default argument nor a nested "
             "object of a module-level template reached through a shallow "
             "copy" % what)
    hits = shared_state_leaks(run.model, modules)
    for fi, s, desc in hits:
        run.violated(rule, "%s::%s" % (fi.qual, norm_text(s)[:70]),
                     "%s is modified in place: it is shared by every call, so "
                     "what one call adds is still there for the next one" % desc,
                     fi.loc(s))
    run.require(_shared_control(), "%s positive control: the shared template "
                "of the embedded example is not flagged" % rule)
    run.holds(rule, "shared-state", "%d in-place modifications of "
              "call-surviving objects in %s (positive control flagged)" %
              (len(hits), sorted(modules)), "")


_CTL3 = '''
EMPTY = {"header": [], "body": None}


def decode(parts):
    out = dict(EMPTY)
    for p in parts:
        out["header"].append(p)
    return out


def fresh(parts):
    out = {"header": [], "body": None}
    for p in parts:
        out["header"].append(p)
    return out


def collect(x, acc=[]):
    acc.append(x)
    return acc
'''


def _shared_control():
    import os
    import shutil
    import tempfile
    from .srcmodel import Model
    d = tempfile.mkdtemp(prefix="verif-ctl-")
    try:
        pkg = os.path.join(d, "src", "saml2_tophat")
        os.makedirs(pkg)
        open(os.path.join(pkg, "__init__.py"), "w").close()
        with open(os.path.join(pkg, "ctl.py"), "w") as fh:
            fh.write(_CTL3)
        old = {k: os.environ.get(k) for k in ("VERIF_NO_ALPHA",
                                              "VERIF_NO_INLINE",
                                              "VERIF_NO_FUNCRENAME")}
        os.environ.update({k: "1" for k in old})
        try:
            mm = Model(root=d)
        finally:
            for k, v in old.items():
                if v is None:
                    os.environ.pop(k, None)
                else:
                    os.environ[k] = v
        got = sorted(fi.name for fi, s, dsc in shared_state_leaks(mm, {"ctl"}))
        return got == ["collect", "decode"]
    finally:
        shutil.rmtree(d, ignore_errors=True)


# ---------------------------------------------------------------------------
# derived instance state must be invalidated by the removing operations

def _self_effects(fn, data_only=False):
    """instance attributes a method assigns, deletes or modifies in place;
    data_only: only effects that store something computed from the call's
    own values (a parameter, a local, another attribute's content) - a counter
    `self.n = self.n + 1` or a constant flag carries nothing about an entry"""
    out = set()
    for x in ast.walk(fn):
        tg, payload = [], []
        if isinstance(x, ast.Assign):
            tg, payload = list(x.targets), [x.value]
        elif isinstance(x, ast.Delete):
            tg = list(x.targets)
        elif isinstance(x, (ast.AugAssign, ast.AnnAssign)):
            tg, payload = [x.target], [x.value] if x.value is not None else []
        elif isinstance(x, ast.Call) and isinstance(x.func, ast.Attribute) and \
                x.func.attr in _MUTATORS:
            tg, payload = [x.func.value], list(x.args) + \
                [k.value for k in x.keywords]
        for t in tg:
            for e in (t.elts if isinstance(t, (ast.Tuple, ast.List)) else [t]):
                keys = []
                while isinstance(e, ast.Subscript):
                    keys.append(e.slice)
                    e = e.value
                if isinstance(e, ast.Attribute) and \
                        isinstance(e.value, ast.Name) and e.value.id == "self":
                    if data_only:
                        carried = False
                        for pz in payload + keys:
                            fnames = {id(c.func) for c in ast.walk(pz)
                                      if isinstance(c, ast.Call)}
                            for n in ast.walk(pz):
                                if isinstance(n, ast.Name) and n.id != "self" \
                                        and id(n) not in fnames:
                                    carried = True
                                if isinstance(n, ast.Attribute) and \
                                        isinstance(n.value, ast.Name) and \
                                        n.value.id == "self" and n.attr != e.attr:
                                    carried = True
                        if not carried:
                            continue
                    out.add(e.attr)
    return out


def _self_calls(fn):
    return {c.func.attr for c in ast.walk(fn) if isinstance(c, ast.Call) and
            isinstance(c.func, ast.Attribute) and
            isinstance(c.func.value, ast.Name) and c.func.value.id == "self"}


def derived_state_gaps(model, cls_qual, primary, removers):
    """Instance attributes of the class that are written outside __init__
    (state derived from earlier calls: a remembered record, a memo, an index)
    and that a removing operation neither rewrites nor clears, itself or
    through the methods of the class it calls.  -> (attrs, [(attr, writer
    FuncInfo, remover FuncInfo)])"""
    ci = model.cls(cls_qual)
    writers = {}
    for name, fi in sorted(ci.methods.items()):
        if name == "__init__":
            continue
        for a in _self_effects(fi.node, data_only=True):
            if a not in primary:
                writers.setdefault(a, fi)
    gaps = []
    for r in removers:
        fi = ci.methods.get(r)
        if fi is None:
            continue
        touched, seen, todo = set(), set(), [r]
        while todo:
            n = todo.pop()
            if n in seen or n not in ci.methods:
                continue
            seen.add(n)
            touched |= _self_effects(ci.methods[n].node)
            todo.extend(_self_calls(ci.methods[n].node))
        for a, w in sorted(writers.items()):
            if a not in touched:
                gaps.append((a, w, fi))
    return sorted(writers), gaps


_CTL4 = '''
class Store(object):
    def __init__(self):
        self._db = {}
        self._last = None
        self._index = {}
        self._hits = 0

    def find(self, k):
        self._hits = self._hits + 1
        if self._last is None or self._last[0] != k:
            self._last = (k, self._db[k])
        self._index[k] = True
        return self._last[1]

    def _forget(self, k):
        self._index.pop(k, None)

    def delete(self, k):
        del self._db[k]
        self._forget(k)
'''


def _control_model(src):
    import os
    import shutil
    import tempfile
    from .srcmodel import Model
    d = tempfile.mkdtemp(prefix="verif-ctl-")
    try:
        pkg = os.path.join(d, "src", "saml2_tophat")
        os.makedirs(pkg)
        open(os.path.join(pkg, "__init__.py"), "w").close()
        with open(os.path.join(pkg, "ctl.py"), "w") as fh:
            fh.write(src)
        old = {k: os.environ.get(k) for k in ("VERIF_NO_ALPHA",
                                              "VERIF_NO_INLINE",
                                              "VERIF_NO_FUNCRENAME")}
        os.environ.update({k: "1" for k in old})
        try:
            return Model(root=d)
        finally:
            for k, v in old.items():
                if v is None:
                    os.environ.pop(k, None)
                else:
                    os.environ[k] = v
    finally:
        shutil.rmtree(d, ignore_errors=True)


def derived_state_rule(run, rule, cls_qual, primary, removers, what):
    run.rule(rule, "whatever %s keeps between calls besides the primary store "
             "(%s) - a remembered record, a memo, an index written outside "
             "__init__ - is rewritten or cleared by every removing operation "
             "(%s), so nothing about a removed entry is answered from a copy" %
             (what, ", ".join(sorted(primary)), ", ".join(removers)))
    mm = _control_model(_CTL4)
    attrs, gaps = derived_state_gaps(mm, "ctl.Store", {"_db"}, ["delete"])
    run.require(attrs == ["_index", "_last"] and
                [(a, r.name) for a, w, r in gaps] == [("_last", "delete")],
                "%s positive control: the stale remembered record of the "
                "embedded example is not flagged" % rule)
    ci = run.model.cls(cls_qual)
    run.require(all(r in ci.methods for r in removers),
                "%s: removing operation(s) %s of %s vanished" %
                (rule, removers, cls_qual))
    attrs, gaps = derived_state_gaps(run.model, cls_qual, primary, removers)
    for a, w, r in gaps:
        run.violated(rule, "%s::self.%s::not-invalidated" % (r.qual, a),
                     "self.%s is written by %s and survives the call, but %s "
                     "neither rewrites nor clears it: after the removal the "
                     "next lookup can still be answered from it" %
                     (a, w.qual, r.qual), w.loc())
    run.holds(rule, "derived-state", "%d derived attribute(s) %s of %s, each "
              "invalidated by %s (positive control flagged)" %
              (len(attrs), attrs, cls_qual, removers), "")
