"""Handler inventory: for every `except` clause of a function, what it catches and
what it does with the exception (computed on the CFG).

Dispositions (a handler may have several, one per path through its body):
  reraise         bare `raise` / `raise <bound name>`
  convert:<Cls>   raise of another class
  return-falsy    `return None/False/''/0` or bare `return`
  return-value    return of anything else
  fallthrough     leaves the handler body normally
  continue/break  leaves through a loop jump
"""
import ast

from .cfg import cfg_of, handler_names, raised_class
from .srcmodel import unparse, norm_text, call_name, walk_no_nested

SWALLOWING = {"return-falsy", "return-value", "fallthrough", "continue", "break"}


class HandlerInfo(object):
    def __init__(self, fi, try_stmt, handler, caught, dispositions, cfgnode):
        self.fi, self.try_stmt, self.handler = fi, try_stmt, handler
        self.caught, self.dispositions, self.cfgnode = \
            caught, dispositions, cfgnode

    @property
    def key(self):
        return "%s::except %s" % (self.fi.qual,
                                  ",".join(self.caught) if self.caught
                                  else "<bare>")

    def loc(self):
        return self.fi.loc(self.handler)

    def swallows(self):
        return bool(self.dispositions & SWALLOWING)

    def body_calls(self):
        out = []
        for s in self.try_stmt.body:
            for n in walk_no_nested(s):
                if isinstance(n, ast.Call):
                    out.append(call_name(n))
        return [c for c in out if c]

    def body_may_raise(self):
        for s in self.try_stmt.body:
            for n in walk_no_nested(s):
                if isinstance(n, (ast.Call, ast.Raise, ast.Assert,
                                  ast.Subscript, ast.Attribute)):
                    return True
        return False

    def describe(self):
        return {"handler": self.key, "loc": self.loc(),
                "dispositions": sorted(self.dispositions),
                "try_calls": sorted(set(self.body_calls()))[:12]}


def _falsy_const(v):
    if v is None:
        return True
    if isinstance(v, ast.Constant) and not v.value:
        return True
    if isinstance(v, (ast.List, ast.Tuple, ast.Dict)) and not \
            (v.keys if isinstance(v, ast.Dict) else v.elts):
        return True
    return False


def handler_dispositions(cfg, hnode):
    h = cfg.nodes[hnode].ast
    inside = {id(n) for n in ast.walk(h)}
    bound = h.name
    disp = set()
    seen = set()
    stack = [hnode]
    while stack:
        n = stack.pop()
        if n in seen:
            continue
        seen.add(n)
        node = cfg.nodes[n]
        if node.kind == "raise":
            r = node.ast
            if r.exc is None or (isinstance(r.exc, ast.Name) and
                                 r.exc.id == bound):
                disp.add("reraise")
            else:
                disp.add("convert:%s" % (raised_class(r) or unparse(r.exc)))
            continue
        if node.kind == "return":
            disp.add("return-falsy" if _falsy_const(node.ast.value)
                     else "return-value")
            continue
        for m in cfg.succ[n]:
            mn = cfg.nodes[m]
            if mn.kind == "exc":
                continue            # an exception raised *by* handler code
            if mn.ast is not None and id(mn.ast) in inside:
                stack.append(m)
            elif mn.kind in ("return_exit", "raise_exit"):
                pass
            else:
                if node.kind == "stmt" and isinstance(node.ast, ast.Continue):
                    disp.add("continue")
                elif node.kind == "stmt" and isinstance(node.ast, ast.Break):
                    disp.add("break")
                else:
                    disp.add("fallthrough")
    return disp


def handlers_of(fi, model):
    cfg = cfg_of(fi, model)
    out = []
    tries = [n for n in walk_no_nested(fi.node) if isinstance(n, ast.Try)]
    by_handler = {}
    for t in tries:
        for h in t.handlers:
            by_handler[id(h)] = t
    for n in cfg.nodes:
        if n.kind != "handler":
            continue
        t = by_handler.get(id(n.ast))
        if t is None:
            continue
        if not cfg.live(n.id) and not cfg.pred[n.id]:
            # handler never entered on any CFG path (try body cannot raise the
            # class): still inventory it, dispositions from its body
            pass
        out.append(HandlerInfo(fi, t, n.ast, handler_names(n.ast) or [],
                               handler_dispositions(cfg, n.id), n.id))
    return out


def may_catch(model, hi, protected):
    """Could this handler intercept an exception of one of the protected
    classes?  (bare except: yes; otherwise a protected class is a subclass of a
    caught class, or the relation is unknown)."""
    if not hi.caught:
        return sorted(protected)
    hit = []
    for c in hi.caught:
        for p in protected:
            v = model.exc_is_subclass(p, c)
            if v is True or v is None:
                hit.append(p)
    return sorted(set(hit))


def inventory(model, funcs, protected):
    """[(HandlerInfo, [protected classes it may catch])] over `funcs`."""
    out = []
    for fi in funcs:
        for hi in handlers_of(fi, model):
            hit = may_catch(model, hi, protected)
            if hit and hi.body_may_raise():
                out.append((hi, hit))
    return out
