"""Developer helper: python -m sa.dump C02  -> prints every rule instance."""
import sys, importlib, os
sys.path.insert(0, os.path.dirname(os.path.dirname(os.path.abspath(__file__))))
from sa.report import Run
from sa.srcmodel import AnalysisError
def main():
    pid = sys.argv[1].upper()
    mod = importlib.import_module("sa.props.%s" % pid.lower())
    r = Run(pid, write=False)
    try:
        mod.check(r)
    except AnalysisError as e:
        print("ANALYSIS-ERROR", e)
    only = sys.argv[2] if len(sys.argv) > 2 else None
    for x in r.results:
        if only and x["verdict"] != only: continue
        print(x["verdict"], x["rule"], x["construct"], "|", x["loc"], "|", x["detail"][:160])
        if x.get("witness") and x["verdict"] != "HOLDS":
            for w in x["witness"]: print("     ", w)
    for n in r.notes: print("NOTE", n)
    print(r.counters)
main()
