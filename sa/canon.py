"""Canonical forms of test expressions, so that rules are insensitive to
behaviour-preserving rewrites:

  * negative comparison operators are expressed through their positive twin and a
    polarity: `a != b` -> (a == b, False), `a not in b` -> (a in b, False),
    `a is not b` -> (a is b, False); `a > b` -> (b < a, True), `a >= b` ->
    (b <= a, True); `not x` flips the polarity
  * operands of == / is are put in a fixed order
  * `and` under True / `or` under False are split into separate atoms
  * (with a ReachingDefs) local names that have exactly one reaching plain
    assignment are replaced by the assigned expression, so that introducing,
    inlining or renaming a temporary does not change the atom

canon_atoms(expr, polarity[, rd, nid]) -> [(ast, polarity)]
ctext(ast) -> text of a canonical atom
query("a not in b") -> (text, polarity) for writing expectations naturally
"""
import ast
import copy

from .srcmodel import unparse

_FLIP = {ast.NotEq: ast.Eq, ast.NotIn: ast.In, ast.IsNot: ast.Is}
_MIRROR = {ast.Gt: ast.Lt, ast.GtE: ast.LtE}


def _sort_key(e):
    # constants last, otherwise by text
    return (isinstance(e, ast.Constant), unparse(e))


def _norm_compare(c, polarity):
    """Single-operator comparison -> (positive comparison, polarity)."""
    op = c.ops[0]
    left, right = c.left, c.comparators[0]
    if type(op) in _FLIP:
        op = _FLIP[type(op)]()
        polarity = not polarity
    if type(op) in _MIRROR:
        op = _MIRROR[type(op)]()
        left, right = right, left
    if isinstance(op, (ast.Eq, ast.Is)):
        left, right = sorted([left, right], key=_sort_key)
    new = ast.Compare(left=left, ops=[op], comparators=[right])
    return new, polarity


def canon_atoms(expr, polarity, rd=None, nid=None):
    if rd is not None and nid is not None:
        from .dataflow import inline_expr
        expr = inline_expr(rd, expr, nid)
    return _atoms(expr, polarity)


def _strip_bool(e):
    # bool(x) has the truthiness of x
    while isinstance(e, ast.Call) and isinstance(e.func, ast.Name) and \
            e.func.id == "bool" and len(e.args) == 1 and not e.keywords:
        e = e.args[0]
    # `x in (A, B)` over a short literal of names / constants is
    # `x == A or x == B` (and `not in` the conjunction of `!=`): one spelling
    # for "one arm per value" and "merged arms"
    if isinstance(e, ast.Compare) and len(e.ops) == 1 and \
            isinstance(e.ops[0], (ast.In, ast.NotIn)) and \
            isinstance(e.comparators[0], (ast.Tuple, ast.List, ast.Set)) and \
            2 <= len(e.comparators[0].elts) <= 4 and \
            isinstance(e.left, (ast.Name, ast.Attribute)) and \
            all(isinstance(x, (ast.Name, ast.Attribute)) or
                (isinstance(x, ast.Constant) and x.value is not None)
                for x in e.comparators[0].elts):
        neg = isinstance(e.ops[0], ast.NotIn)
        parts = [ast.Compare(left=e.left, ops=[ast.NotEq() if neg else ast.Eq()],
                             comparators=[x]) for x in e.comparators[0].elts]
        return ast.copy_location(ast.BoolOp(
            op=ast.And() if neg else ast.Or(), values=parts), e)
    return e


def _atoms(expr, polarity):
    expr = _strip_bool(expr)
    if isinstance(expr, ast.UnaryOp) and isinstance(expr.op, ast.Not):
        return _atoms(expr.operand, not polarity)
    if isinstance(expr, ast.BoolOp):
        if isinstance(expr.op, ast.And) and polarity:
            out = []
            for v in expr.values:
                out.extend(_atoms(v, True))
            return out
        if isinstance(expr.op, ast.Or) and not polarity:
            out = []
            for v in expr.values:
                out.extend(_atoms(v, False))
            return out
        # not decomposable: normalise the parts but keep the connective
        return [(normalize(expr), polarity)]
    if isinstance(expr, ast.Compare) and len(expr.ops) == 1:
        return [_norm_compare(expr, polarity)]
    if isinstance(expr, ast.Compare) and len(expr.ops) > 1 and polarity:
        out = []
        operands = [expr.left] + list(expr.comparators)
        for i, op in enumerate(expr.ops):
            out.append(_norm_compare(ast.Compare(
                left=operands[i], ops=[op], comparators=[operands[i + 1]]),
                True))
        return out
    return [(expr, polarity)]


def normalize(expr):
    """Canonical rewriting of a whole boolean expression (used for parts that
    cannot be split into atoms)."""
    expr = _strip_bool(expr)
    if isinstance(expr, ast.UnaryOp) and isinstance(expr.op, ast.Not):
        inner = normalize(expr.operand)
        if isinstance(inner, ast.UnaryOp) and isinstance(inner.op, ast.Not):
            return inner.operand
        return ast.UnaryOp(op=ast.Not(), operand=inner)
    if isinstance(expr, ast.BoolOp):
        vals = [normalize(v) for v in expr.values]
        # De Morgan: a connective all of whose operands are negations is the
        # negation of the dual connective (one spelling for both)
        if all(isinstance(v, ast.UnaryOp) and isinstance(v.op, ast.Not)
               for v in vals):
            dual = ast.Or() if isinstance(expr.op, ast.And) else ast.And()
            return ast.UnaryOp(op=ast.Not(), operand=ast.BoolOp(
                op=dual, values=[v.operand for v in vals]))
        return ast.BoolOp(op=expr.op, values=vals)
    if isinstance(expr, ast.Compare) and len(expr.ops) == 1:
        c, pol = _norm_compare(expr, True)
        return c if pol else ast.UnaryOp(op=ast.Not(), operand=c)
    return expr


def ctext(e):
    return " ".join(unparse(e).split())


def dnf(expr, polarity, rd=None, nid=None):
    """Disjunction of conjunctions of canonical atoms implied by the test
    evaluating to `polarity`."""
    if rd is not None and nid is not None:
        from .dataflow import inline_expr
        expr = inline_expr(rd, expr, nid)
    return _dnf(expr, polarity)


def _dnf(expr, polarity):
    expr = _strip_bool(expr)
    if isinstance(expr, ast.UnaryOp) and isinstance(expr.op, ast.Not):
        return _dnf(expr.operand, not polarity)
    if isinstance(expr, ast.BoolOp):
        is_and = isinstance(expr.op, ast.And)
        if is_and == polarity:
            acc = [[]]
            for v in expr.values:
                part = _dnf(v, polarity)
                acc = [a + p for a in acc for p in part]
                if len(acc) > 64:
                    return [[(normalize(expr), polarity)]]
            return acc
        out = []
        for v in expr.values:
            out.extend(_dnf(v, polarity))
        return out
    if isinstance(expr, ast.Compare) and len(expr.ops) == 1:
        return [[_norm_compare(expr, polarity)]]
    return [[(expr, polarity)]]


_QCACHE = {}


def query(text, polarity=True):
    """Canonical (text, polarity) of an expectation written as source text."""
    k = (text, polarity)
    if k not in _QCACHE:
        e = ast.parse(text, mode="eval").body
        at = _atoms(e, polarity)
        if len(at) != 1:
            _QCACHE[k] = (ctext(normalize(e)), polarity)
        else:
            _QCACHE[k] = (ctext(at[0][0]), at[0][1])
    return _QCACHE[k]


def eval3(expr, env):
    """Three-valued truthiness under `env`, whose keys are canonical positive
    atom texts or plain names.  T/F/U as strings."""
    T, F, U = "T", "F", "U"
    expr = _strip_bool(expr)
    if isinstance(expr, ast.Constant):
        return T if expr.value else F
    if isinstance(expr, ast.Name):
        return env.get(expr.id, U)
    if isinstance(expr, ast.UnaryOp) and isinstance(expr.op, ast.Not):
        v = eval3(expr.operand, env)
        return {T: F, F: T, U: U}[v]
    if isinstance(expr, ast.BoolOp):
        # a whole connective may be assumed as one key
        k = ctext(normalize(expr))
        if k in env:
            return env[k]
        vals = [eval3(v, env) for v in expr.values]
        if isinstance(expr.op, ast.And):
            if F in vals:
                return F
            return T if all(v == T for v in vals) else U
        if T in vals:
            return T
        return F if all(v == F for v in vals) else U
    if isinstance(expr, ast.Compare) and len(expr.ops) == 1:
        c, pol = _norm_compare(expr, True)
        k = ctext(c)
        if k in env:
            v = env[k]
            return v if pol else {T: F, F: T, U: U}[v]
        return U
    if isinstance(expr, (ast.List, ast.Tuple, ast.Dict, ast.Set)):
        n = len(expr.keys) if isinstance(expr, ast.Dict) else len(expr.elts)
        return T if n else F
    k = ctext(expr)
    if k in env:
        return env[k]
    return U


def canon_env(assume):
    """Canonicalise the keys of an `assume` dict written in natural text."""
    out = {}
    flip = {"T": "F", "F": "T", "U": "U"}
    for k, v in (assume or {}).items():
        try:
            t, pol = query(k, True)
        except SyntaxError:
            out[k] = v
            continue
        out[t] = v if pol else flip[v]
        # conflicting natural-language duplicates ("x" and "not x") are fine:
        # both map onto the same canonical key with consistent values
    return out
