"""Inline expansion of helpers that do not exist in the reference tree.

Extracting part of a function into a new private helper is behaviour-preserving,
but it moves the statements a rule inspects out of the function it is anchored
in.  Before any rule runs, every call to a function that

  * is not listed in reference/functions.json (so: was introduced after the rule
    instances were confirmed),
  * resolves statically to one definition - `self.h(...)` to a method of the
    caller's own class, `h(...)` to a function of the caller's module or to a
    def nested in the caller,
  * is an ordinary def (no decorator, generator, *args/**kwargs, recursion)

is replaced by the helper's body: parameters become assignments evaluated in
call order, `return e` becomes an assignment to the call's target.  Supported
call positions: `x = h(..)`, `return h(..)`, `h(..)` as a statement, and a test
`if h(..)` / `if not h(..)`.  Helpers whose returns sit inside loops/try/with are
expanded only in `return h(..)` position (where the returns can stay returns).

The expansion is the textbook procedure-inlining transformation; the helper's
locals are renamed when they would capture a name of the caller.  A helper that
cannot be expanded is simply left as a call (rules then see an opaque call, as
they would for any other callee).
"""
import ast
import copy
import json
import os

HERE = os.path.dirname(os.path.abspath(__file__))
REF = os.path.join(os.path.dirname(HERE), "reference", "functions.json")

_CACHE = {}


def reference():
    if "r" not in _CACHE:
        try:
            with open(REF) as fh:
                _CACHE["r"] = json.load(fh)
        except (OSError, ValueError):
            _CACHE["r"] = None
    return _CACHE["r"]


def _contains(node, types, stop=(ast.FunctionDef, ast.AsyncFunctionDef,
                                 ast.ClassDef, ast.Lambda)):
    stack = list(ast.iter_child_nodes(node))
    while stack:
        n = stack.pop()
        if isinstance(n, types):
            return True
        if isinstance(n, stop):
            continue
        stack.extend(ast.iter_child_nodes(n))
    return False


def _has_return(stmts):
    return any(isinstance(s, ast.Return) or _contains(s, ast.Return)
               for s in stmts)


class _NotStructured(Exception):
    pass


def eliminate_returns(stmts, target, close=True):
    """Rewrite a statement list in which returns occur only as plain
    statements of (nested) if/else arms into an equivalent list without
    returns, assigning the returned value to `target` (an ast expr factory).
    With close=True the end of the list is the end of the helper: a path that
    falls off it assigns None.  Returns the new statements."""
    out = []
    for i, s in enumerate(stmts):
        if isinstance(s, ast.Return):
            val = s.value if s.value is not None else ast.Constant(value=None)
            out.append(ast.copy_location(
                ast.Assign(targets=[target()], value=val, lineno=s.lineno), s))
            return out
        if isinstance(s, ast.If) and (_has_return(s.body) or
                                      _has_return(s.orelse)):
            rest = list(stmts[i + 1:])
            new = copy.copy(s)
            if _ends_in_return(s.body):
                new.body = eliminate_returns(s.body, target, False)
            else:
                new.body = eliminate_returns(list(s.body) + rest, target, close)
            if _ends_in_return(s.orelse):
                new.orelse = eliminate_returns(s.orelse, target, False)
            else:
                new.orelse = eliminate_returns(list(s.orelse) + rest, target,
                                               close)
            if not new.body:
                new.body = [ast.Pass()]
            out.append(new)
            return out
        if isinstance(s, (ast.Try, ast.With)) and i == len(stmts) - 1 and \
                _contains(s, ast.Return):
            # tail position: after the statement nothing of this list runs
            # anyway, so a return inside it is an assignment - no flag needed
            # (not when the try has an else clause that a return in the body
            # would skip, nor for returns in a finally clause)
            new = copy.copy(s)
            if isinstance(s, ast.With):
                new.body = eliminate_returns(s.body, target, close)
                out.append(new)
                return out
            if _has_return(s.finalbody) or (s.orelse and _has_return(s.body)):
                raise _NotStructured()
            inner_close = close and not s.orelse
            new.body = eliminate_returns(s.body, target, inner_close) or \
                [ast.Pass()]
            hs = []
            for h in s.handlers:
                h2 = copy.copy(h)
                h2.body = eliminate_returns(h.body, target, close) or \
                    [ast.Pass()]
                hs.append(h2)
            new.handlers = hs
            if s.orelse:
                new.orelse = eliminate_returns(s.orelse, target, close)
            out.append(new)
            return out
        if _contains(s, ast.Return):
            raise _NotStructured()
        out.append(s)
    if close:
        out.append(ast.Assign(targets=[target()],
                              value=ast.Constant(value=None), lineno=0))
    return out


def eliminate_returns_flag(stmts, target, flag):
    """General form for helpers whose returns sit inside loops / try / with:
    every `return e` becomes `target = e; flag = True` (+ break inside a
    loop), and whatever follows a statement that may have returned runs only
    `if not flag`.  `flag` is a fresh name initialised to False by the caller.
    Equivalent to the helper for every execution; adds no path on which the
    helper's statements run in a different order."""
    def fl(ctx=ast.Load):
        return ast.Name(id=flag, ctx=ctx())

    def rec(ss, in_loop):
        out = []
        for i, s in enumerate(ss):
            if isinstance(s, ast.Return):
                val = s.value if s.value is not None else \
                    ast.Constant(value=None)
                out.append(ast.copy_location(ast.Assign(
                    targets=[target()], value=val, lineno=s.lineno), s))
                out.append(ast.copy_location(ast.Assign(
                    targets=[fl(ast.Store)], value=ast.Constant(value=True),
                    lineno=s.lineno), s))
                if in_loop:
                    out.append(ast.copy_location(ast.Break(), s))
                return out
            if not _contains(s, ast.Return):
                out.append(s)
                continue
            new = copy.copy(s)
            if isinstance(s, ast.If):
                new.body = rec(s.body, in_loop) or [ast.Pass()]
                new.orelse = rec(s.orelse, in_loop)
            elif isinstance(s, (ast.For, ast.While)):
                new.body = rec(s.body, True) or [ast.Pass()]
                new.orelse = rec(s.orelse, in_loop)
            elif isinstance(s, ast.Try):
                if _has_return(s.finalbody):
                    raise _NotStructured()
                new.body = rec(s.body, in_loop) or [ast.Pass()]
                hs = []
                for h in s.handlers:
                    h2 = copy.copy(h)
                    h2.body = rec(h.body, in_loop) or [ast.Pass()]
                    hs.append(h2)
                new.handlers = hs
                oe = rec(s.orelse, in_loop)
                if oe and _has_return(s.body):
                    # a return in the try body skips the else clause
                    oe = [ast.If(test=ast.UnaryOp(op=ast.Not(), operand=fl()),
                                 body=oe, orelse=[])]
                new.orelse = oe
            elif isinstance(s, (ast.With,)):
                new.body = rec(s.body, in_loop) or [ast.Pass()]
            else:
                raise _NotStructured()
            out.append(new)
            if in_loop:
                out.append(ast.If(test=fl(), body=[ast.Break()], orelse=[]))
            rest = rec(ss[i + 1:], in_loop)
            if rest:
                out.append(ast.If(test=ast.UnaryOp(op=ast.Not(), operand=fl()),
                                  body=rest, orelse=[]))
            return out
        return out
    body = rec(list(stmts), False)
    init = ast.Assign(targets=[fl(ast.Store)], value=ast.Constant(value=False),
                      lineno=0)
    tail = ast.If(test=ast.UnaryOp(op=ast.Not(), operand=fl()),
                  body=[ast.Assign(targets=[target()],
                                   value=ast.Constant(value=None), lineno=0)],
                  orelse=[])
    return [init] + body + [tail]


def _drop_discarded(stmts, name):
    """the call's value was discarded by the caller: `name = <constant>` goes,
    `name = expr` is just `expr`"""
    out = []
    for s in stmts:
        for field in ("body", "orelse", "finalbody"):
            blk = getattr(s, field, None)
            if isinstance(blk, list) and blk and isinstance(blk[0], ast.stmt) \
                    and not isinstance(s, (ast.FunctionDef, ast.ClassDef,
                                           ast.AsyncFunctionDef)):
                nb = _drop_discarded(blk, name)
                setattr(s, field, nb or ([ast.copy_location(ast.Pass(), s)]
                                         if field == "body" else []))
        if isinstance(s, ast.Try):
            for h in s.handlers:
                h.body = _drop_discarded(h.body, name) or [
                    ast.copy_location(ast.Pass(), h)]
        if isinstance(s, ast.Assign) and len(s.targets) == 1 and \
                isinstance(s.targets[0], ast.Name) and s.targets[0].id == name:
            if isinstance(s.value, (ast.Constant, ast.Name)):
                continue
            out.append(ast.copy_location(ast.Expr(value=s.value), s))
            continue
        out.append(s)
    return out


def split_tuple_assigns(stmts):
    """`a, b = (x, y)` -> `a = x; b = y` when sequential assignment equals the
    parallel one (no target is read by a later element); `a = a` is dropped."""
    out = []
    for s in stmts:
        for field in ("body", "orelse", "finalbody"):
            blk = getattr(s, field, None)
            if isinstance(blk, list) and blk and isinstance(blk[0], ast.stmt) \
                    and not isinstance(s, (ast.FunctionDef, ast.ClassDef,
                                           ast.AsyncFunctionDef)):
                setattr(s, field, split_tuple_assigns(blk) or [ast.Pass()])
        if isinstance(s, ast.Try):
            for h in s.handlers:
                h.body = split_tuple_assigns(h.body) or [ast.Pass()]
        if isinstance(s, ast.Assign) and len(s.targets) == 1 and \
                isinstance(s.targets[0], ast.Tuple) and \
                isinstance(s.value, ast.Tuple) and \
                len(s.targets[0].elts) == len(s.value.elts) and \
                all(isinstance(e, ast.Name) for e in s.targets[0].elts) and \
                not any(isinstance(e, ast.Starred) for e in s.value.elts):
            ts = [e.id for e in s.targets[0].elts]
            vs = s.value.elts
            hazard = any(isinstance(x, ast.Name) and x.id == ts[i]
                         for i in range(len(ts)) for j in range(i + 1, len(vs))
                         for x in ast.walk(vs[j]))
            if not hazard and len(set(ts)) == len(ts):
                for t, v in zip(ts, vs):
                    if isinstance(v, ast.Name) and v.id == t:
                        continue
                    out.append(ast.copy_location(ast.Assign(
                        targets=[ast.Name(id=t, ctx=ast.Store())], value=v,
                        lineno=s.lineno), s))
                continue
        if isinstance(s, ast.Assign) and len(s.targets) == 1 and \
                isinstance(s.targets[0], ast.Name) and \
                isinstance(s.value, ast.Name) and \
                s.value.id == s.targets[0].id:
            continue
        out.append(s)
    return out


def _simple_def(fn):
    if not isinstance(fn, ast.FunctionDef):
        return False
    if fn.decorator_list and not (
            len(fn.decorator_list) == 1 and
            isinstance(fn.decorator_list[0], ast.Name) and
            fn.decorator_list[0].id == "staticmethod"):
        return False
    a = fn.args
    if a.vararg or a.kwarg or a.posonlyargs:
        return False
    if _contains(fn, (ast.Yield, ast.YieldFrom, ast.Await, ast.Global,
                      ast.Nonlocal)):
        return False
    for d in list(a.defaults) + [d for d in a.kw_defaults if d is not None]:
        if not isinstance(d, (ast.Constant, ast.Name, ast.Attribute)):
            return False
    return True


def _names(fn):
    out = set()
    for n in ast.walk(fn):
        if isinstance(n, ast.Name):
            out.add(n.id)
        elif isinstance(n, ast.arg):
            out.add(n.arg)
        elif isinstance(n, ast.ExceptHandler) and n.name:
            out.add(n.name)
    return out


def _bound(fn):
    from .alpha import local_names
    return local_names(fn)


class _Ren(ast.NodeTransformer):
    def __init__(self, mp):
        self.mp = mp

    def visit_Name(self, n):
        if n.id in self.mp:
            return ast.copy_location(ast.Name(id=self.mp[n.id], ctx=n.ctx), n)
        return n

    def visit_ExceptHandler(self, n):
        self.generic_visit(n)
        if n.name in self.mp:
            n.name = self.mp[n.name]
        return n

    def visit_FunctionDef(self, n):
        return n

    def visit_Lambda(self, n):
        return n


class _Subst(ast.NodeTransformer):
    def __init__(self, mp):
        self.mp = mp

    def visit_Name(self, n):
        if n.id in self.mp and isinstance(n.ctx, ast.Load):
            return ast.copy_location(copy.deepcopy(self.mp[n.id]), n)
        return n

    def visit_FunctionDef(self, n):
        return n

    def visit_Lambda(self, n):
        return n


def _dead_after(caller, call, name):
    """Conservative: the caller does not read `name` after the call - no load
    on a later line, and the call is not inside a loop (where earlier lines run
    again)."""
    parents = {}
    for n in ast.walk(caller):
        for c in ast.iter_child_nodes(n):
            parents[c] = n
    p = call
    while p in parents:
        p = parents[p]
        if isinstance(p, (ast.For, ast.While, ast.AsyncFor)):
            return False
    end = getattr(call, "end_lineno", call.lineno)
    for n in ast.walk(caller):
        if isinstance(n, ast.Name) and n.id == name and \
                isinstance(n.ctx, ast.Load) and n.lineno > end:
            return False
        if isinstance(n, (ast.FunctionDef, ast.Lambda)) and n is not caller \
                and any(isinstance(x, ast.Name) and x.id == name
                        for x in ast.walk(n)):
            return False
    return True


def _assigns_attr(fn, attr):
    for n in ast.walk(fn):
        if isinstance(n, ast.Attribute) and n.attr == attr and \
                isinstance(n.ctx, (ast.Store, ast.Del)):
            return True
        if isinstance(n, ast.Call):
            return True       # a call inside the helper might rebind it
    return False


def fuse_test(stmts, then, orelse, budget):
    """Replace every `return e` of a structured helper body used as an `if`
    test by the arm it selects: the body of the caller's `if` for a truthy
    result, its else-arm otherwise.  Falling off the end selects the else-arm
    (None is falsy).  Raises _NotStructured when returns sit in loops/try."""
    out = []
    for i, s in enumerate(stmts):
        if isinstance(s, ast.Return):
            budget[0] -= 1
            if budget[0] < 0:
                raise _NotStructured()
            v = s.value
            if v is None or (isinstance(v, ast.Constant) and not v.value):
                out.extend(copy.deepcopy(orelse))
            elif isinstance(v, ast.Constant) and v.value:
                out.extend(copy.deepcopy(then))
            else:
                out.append(ast.copy_location(ast.If(
                    test=v, body=copy.deepcopy(then) or [ast.Pass()],
                    orelse=copy.deepcopy(orelse)), s))
            return out
        if isinstance(s, ast.If) and (_has_return(s.body) or
                                      _has_return(s.orelse)):
            rest = list(stmts[i + 1:])
            new = copy.copy(s)
            new.body = fuse_test(list(s.body) + ([] if _ends_in_return(s.body)
                                                 else rest), then, orelse,
                                 budget) or [ast.Pass()]
            new.orelse = fuse_test(list(s.orelse) + (
                [] if _ends_in_return(s.orelse) else rest), then, orelse,
                budget)
            out.append(new)
            return out
        if _contains(s, ast.Return):
            raise _NotStructured()
        out.append(s)
    out.extend(copy.deepcopy(orelse))
    return out


class Expander(object):
    def __init__(self, model):
        self.model = model
        self.ref = reference()
        self.log = {}
        self.counter = 0

    # ------------------------------------------------------------ resolution
    def is_new(self, short_qual):
        return self.ref is not None and short_qual not in self.ref and \
            not short_qual.startswith("__")

    def _short(self, qual):
        p = self.model.pkg + "."
        return qual[len(p):] if qual.startswith(p) else qual

    def resolve(self, fi, call, nested):
        """-> (FunctionDef, drop_self) for an expandable new helper, else None"""
        f = call.func
        if isinstance(f, ast.Name):
            if f.id in nested:
                fn = nested[f.id]
                if self.is_new(self._short(fi.qual) + ".<locals>." + f.id):
                    return fn, False
                return None
            mi = self.model.modules.get(fi.module)
            tgt = mi.functions.get(f.id) if mi else None
            if tgt is not None and tgt.node is not fi.node and \
                    self.is_new(self._short(tgt.qual)):
                return tgt.node, False
            return None
        if isinstance(f, ast.Attribute) and isinstance(f.value, ast.Name) and \
                f.value.id == "self" and fi.cls:
            ci = self.model.classes.get(fi.cls)
            tgt = ci.methods.get(f.attr) if ci else None
            if tgt is not None and tgt.node is not fi.node and \
                    self.is_new(self._short(tgt.qual)):
                a = tgt.node.args.args
                static = any(isinstance(d, ast.Name) and d.id == "staticmethod"
                             for d in tgt.node.decorator_list)
                if static:
                    for sq in self.model.subclasses(fi.cls, True):
                        sc = self.model.classes.get(sq)
                        if sc and f.attr in sc.methods:
                            return None
                    return tgt.node, False
                if a and a[0].arg == "self" and not any(
                        isinstance(d, ast.Name) and d.id in ("staticmethod",
                                                             "classmethod")
                        for d in tgt.node.decorator_list):
                    # an overriding definition in a subclass would make the
                    # target ambiguous
                    for sq in self.model.subclasses(fi.cls, True):
                        sc = self.model.classes.get(sq)
                        if sc and f.attr in sc.methods:
                            return None
                    return tgt.node, True
        return None

    # -------------------------------------------------------------- expansion
    def _instantiate(self, caller, fn, call, drop_self, target_name=None,
                     keep_locals=True):
        """-> (binding statements, body copy) or None"""
        if target_name is None:
            target_names = set()
        elif isinstance(target_name, str):
            target_names = {target_name}
        else:
            target_names = set(target_name)
        if not _simple_def(fn):
            return None
        if any(isinstance(a, ast.Starred) for a in call.args) or \
                any(k.arg is None for k in call.keywords):
            return None
        if any(n is not fn and isinstance(n, ast.Call) and
               isinstance(n.func, (ast.Name, ast.Attribute)) and
               (getattr(n.func, "id", None) == fn.name or
                getattr(n.func, "attr", None) == fn.name)
               for n in ast.walk(fn)):
            return None                       # recursion
        params = [a.arg for a in fn.args.args]
        if drop_self:
            params = params[1:]
        kwonly = [a.arg for a in fn.args.kwonlyargs]
        if len(call.args) > len(params):
            return None
        actual = {}
        order = []
        for p, a in zip(params, call.args):
            actual[p] = a
            order.append(p)
        for k in call.keywords:
            if k.arg in actual or k.arg not in params + kwonly:
                return None
            actual[k.arg] = k.value
            order.append(k.arg)
        defaults = dict(zip(reversed(params), reversed(fn.args.defaults)))
        for p, d in zip(kwonly, fn.args.kw_defaults):
            if d is not None:
                defaults[p] = d
        for p in params + kwonly:
            if p not in actual:
                if p not in defaults:
                    return None
                actual[p] = defaults[p]
                order.append(p)
        # capture-avoiding renaming of the helper's own names
        # (names that earlier expansions of this round brought into the
        # caller count as taken too: every instance of a helper gets locals of
        # its own, two instances never share a variable)
        intro = self.__dict__.setdefault("_introduced", {}).setdefault(
            id(caller), set())
        taken = _names(caller) | intro
        mp = {}
        allp = set(params + kwonly)
        for n in sorted(_bound(fn)):
            if drop_self and n == "self":
                continue
            if n in taken:
                # a helper local named like a variable that receives (part of)
                # the call's result keeps its name: the caller's variable is
                # overwritten by the result anyway and nothing the helper is
                # handed mentions it
                if keep_locals and n in target_names and n not in allp \
                        and not any(
                        isinstance(x, ast.Name) and x.id == n
                        for a in actual.values() for x in ast.walk(a)):
                    continue
                self.counter += 1
                mp[n] = "%s__%s%d" % (n, fn.name.strip("_"), self.counter)
        intro.update(mp.get(n, n) for n in _bound(fn)
                     if not (drop_self and n == "self"))
        body = [copy.deepcopy(s) for s in fn.body]
        if body and isinstance(body[0], ast.Expr) and \
                isinstance(body[0].value, ast.Constant) and \
                isinstance(body[0].value.value, str):
            body = body[1:]
        # a parameter that the helper never rebinds and whose actual is a
        # plain name / constant / self.attribute is substituted directly
        # (the actual has no side effect and is not changed by the helper's
        # own assignments, which only touch renamed locals)
        stored = {n.id for st in fn.body for n in ast.walk(st)
                  if isinstance(n, ast.Name) and
                  isinstance(n.ctx, (ast.Store, ast.Del))}
        subst = {}
        keep = set()
        for p in order:
            a = actual[p]
            if p in stored:
                # rebound by the helper: may keep the caller's name when it is
                # passed that very variable and the caller never reads it again
                # ... or when the call's result is assigned to that very
                # variable (`x = h(x)`): every path ends in binding it anyway
                if isinstance(a, ast.Name) and a.id == p and \
                        (p in target_names or _dead_after(caller, call, p)):
                    keep.add(p)
                elif isinstance(a, ast.Name) and a.id != p and \
                        a.id not in _bound(fn) and \
                        sum(1 for q2 in order if isinstance(actual[q2], ast.Name)
                            and actual[q2].id == a.id) == 1 and \
                        (a.id in target_names or
                         _dead_after(caller, call, a.id)):
                    # ... or work directly on the caller's variable under the
                    # caller's name, when the helper has no name like it and
                    # the variable is overwritten by the result / dead after
                    # (other actuals that read it are evaluated into their own
                    # parameters before the body runs)
                    mp[p] = a.id
                continue
            if isinstance(a, ast.Constant):
                subst[p] = a
            elif isinstance(a, ast.Name):
                # helper locals that clash with caller names are renamed, so
                # the helper cannot assign the caller's variable
                subst[p] = a
            elif isinstance(a, ast.Attribute) and \
                    isinstance(a.value, ast.Name) and a.value.id == "self" \
                    and not _assigns_attr(fn, a.attr):
                subst[p] = a
        for p in list(subst) + list(keep):
            mp.pop(p, None)
        ren = _Ren(mp)
        body = [ren.visit(s) for s in body]
        if subst:
            sb = _Subst(subst)
            body = [sb.visit(s) for s in body]
        binds = []
        for p in order:
            if p in subst:
                continue
            a = actual[p]
            tgt = mp.get(p, p)
            if isinstance(a, ast.Name) and a.id == tgt:
                continue
            binds.append(ast.copy_location(ast.Assign(
                targets=[ast.Name(id=tgt, ctx=ast.Store())],
                value=copy.deepcopy(a), lineno=call.lineno), call))
        return binds, body

    # --------------------------------------------------- nested helper calls
    def _nested_call(self, fi, s, nested):
        """The first helper call (evaluation order) that sits INSIDE an
        expression of statement s rather than being its whole value, and that
        is evaluated unconditionally and before any other call of s.
        -> (call, resolved, parent, field, index) or None"""
        roots = []
        if isinstance(s, ast.Assign):
            roots = [(s, "value", None)]
        elif isinstance(s, (ast.AugAssign, ast.Expr, ast.Return)):
            roots = [(s, "value", None)] if s.value is not None else []
        elif isinstance(s, ast.If):
            roots = [(s, "test", None)]
        elif isinstance(s, ast.For):
            roots = [(s, "iter", None)]
        elif isinstance(s, ast.Raise) and s.exc is not None:
            roots = [(s, "exc", None)]
        found = []

        def children(e):
            for fld, val in ast.iter_fields(e):
                if isinstance(val, ast.AST):
                    yield fld, None, val
                elif isinstance(val, list):
                    for i, x in enumerate(val):
                        if isinstance(x, ast.AST):
                            yield fld, i, x

        def walk(e, parent, fld, idx, top):
            """-> False to stop the search"""
            if isinstance(e, (ast.Lambda, ast.ListComp, ast.SetComp,
                              ast.DictComp, ast.GeneratorExp, ast.Await,
                              ast.Yield, ast.YieldFrom, ast.NamedExpr)):
                return False
            if isinstance(e, ast.BoolOp):
                # only the first operand is evaluated unconditionally
                if not walk(e.values[0], e, "values", 0, False):
                    return False
                return False
            if isinstance(e, ast.IfExp):
                walk(e.test, e, "test", None, False)
                return False
            if isinstance(e, ast.Call):
                # func expression, then arguments, then the call itself
                for f2, i2, c in children(e):
                    if not walk(c, e, f2, i2, False):
                        return False
                r = self.resolve(fi, e, nested)
                if r and not top:
                    found.append((e, r, parent, fld, idx))
                return False      # nothing after the first call is hoisted
            for f2, i2, c in children(e):
                if not walk(c, e, f2, i2, False):
                    return False
            return True
        for par, fld, idx in roots:
            e = getattr(par, fld)
            top = not isinstance(s, (ast.For, ast.Raise))
            if isinstance(s, ast.If) and isinstance(e, ast.UnaryOp) and \
                    isinstance(e.op, ast.Not):
                par, fld, e = e, "operand", e.operand
            walk(e, par, fld, idx, top)
            if found:
                return found[0]
        return None

    def _expand_nested(self, fi, s, nested):
        """`... h(a) ...` -> the helper's return expression in place when h is
        a single-expression helper whose parameters all substitute; otherwise
        `_h__N = h(a)` is hoisted in front of the statement (the call is the
        first one evaluated and is evaluated unconditionally, see
        _nested_call), and the ordinary expansion takes it from there."""
        nc = self._nested_call(fi, s, nested)
        if nc is None:
            return None
        call, (fn, drop_self), parent, fld, idx = nc
        inst = self._instantiate(fi.node, fn, call, drop_self)
        if not inst:
            return None
        binds, body = inst

        def put(new):
            ast.copy_location(new, call)
            for sub in ast.walk(new):
                if isinstance(sub, (ast.expr, ast.stmt)) and \
                        not hasattr(sub, "lineno"):
                    ast.copy_location(sub, call)
            if idx is None:
                setattr(parent, fld, new)
            else:
                getattr(parent, fld)[idx] = new
        if not binds and len(body) == 1 and isinstance(body[0], ast.Return) \
                and body[0].value is not None:
            put(body[0].value)
            ast.fix_missing_locations(s)
            return [s], fn.name
        self.counter += 1
        nm = "_h__%d" % self.counter
        pre = ast.copy_location(ast.Assign(
            targets=[ast.Name(id=nm, ctx=ast.Store())], value=call,
            lineno=s.lineno), s)
        put(ast.Name(id=nm, ctx=ast.Load()))
        ast.fix_missing_locations(pre)
        ast.fix_missing_locations(s)
        return [pre, s], None

    def _expand_stmt(self, fi, s, nested):
        """-> replacement statement list or None"""
        r = self._expand_stmt0(fi, s, nested)
        if r is None:
            r = self._expand_nested(fi, s, nested)
        return r

    def _expand_stmt0(self, fi, s, nested):
        def helper_call(e):
            if isinstance(e, ast.Call):
                r = self.resolve(fi, e, nested)
                if r:
                    return e, r
            return None
        # return h(...)
        if isinstance(s, ast.Return) and s.value is not None:
            hc = helper_call(s.value)
            if hc:
                inst = self._instantiate(fi.node, hc[1][0], hc[0], hc[1][1])
                if inst:
                    binds, body = inst
                    tail = [] if _ends_in_return(body) else [
                        ast.copy_location(ast.Return(value=ast.Constant(
                            value=None)), s)]
                    return binds + body + tail, hc[1][0].name
            return None
        target = None
        call = None
        post = []
        if isinstance(s, ast.Assign) and len(s.targets) == 1:
            hc = helper_call(s.value)
            if hc:
                call = hc
                t = s.targets[0]
                if isinstance(t, (ast.Name, ast.Attribute)) or (
                        isinstance(t, ast.Tuple) and t.elts and
                        all(isinstance(e, ast.Name) for e in t.elts)):
                    target = lambda t=t: copy.deepcopy(t)
                else:
                    self.counter += 1
                    nm = "_res__%d" % self.counter
                    target = lambda nm=nm: ast.Name(id=nm, ctx=ast.Store())
                    post = [ast.copy_location(ast.Assign(
                        targets=[t], value=ast.Name(id=nm, ctx=ast.Load()),
                        lineno=s.lineno), s)]
        elif isinstance(s, ast.Expr):
            hc = helper_call(s.value)
            if hc:
                call = hc
                self.counter += 1
                nm = "_unused__%d" % self.counter
                target = lambda nm=nm: ast.Name(id=nm, ctx=ast.Store())
        elif isinstance(s, ast.If):
            t = s.test
            neg = False
            if isinstance(t, ast.UnaryOp) and isinstance(t.op, ast.Not):
                t, neg = t.operand, True
            hc = helper_call(t)
            if hc:
                inst = self._instantiate(fi.node, hc[1][0], hc[0], hc[1][1])
                if inst:
                    binds, body = inst
                    th, el = (s.orelse, s.body) if neg else (s.body, s.orelse)
                    try:
                        fused = fuse_test(body, list(th), list(el), [6])
                        out = binds + fused
                        for n in out:
                            ast.fix_missing_locations(n)
                        return out, hc[1][0].name
                    except _NotStructured:
                        pass
                call = hc
                self.counter += 1
                nm = "_test__%d" % self.counter
                target = lambda nm=nm: ast.Name(id=nm, ctx=ast.Store())
                new_if = copy.copy(s)
                nt = ast.Name(id=nm, ctx=ast.Load())
                new_if.test = ast.UnaryOp(op=ast.Not(), operand=nt) if neg \
                    else nt
                ast.copy_location(new_if.test, s.test)
                post = [new_if]
        if call is None:
            return None
        tname = None
        if isinstance(s, ast.Assign) and len(s.targets) == 1:
            if isinstance(s.targets[0], ast.Name):
                tname = s.targets[0].id
            elif isinstance(s.targets[0], ast.Tuple) and all(
                    isinstance(e, ast.Name) for e in s.targets[0].elts):
                tname = {e.id for e in s.targets[0].elts}
        inst = self._instantiate(fi.node, call[1][0], call[0], call[1][1],
                                 target_name=tname)
        if not inst:
            return None
        binds, body = inst
        try:
            new = eliminate_returns(body, target)
        except _NotStructured:
            # the flag form tests the result where the helper returned it:
            # keep the helper's own names apart from the caller's there
            inst = self._instantiate(fi.node, call[1][0], call[0], call[1][1],
                                     target_name=tname, keep_locals=False)
            if not inst:
                return None
            binds, body = inst
            self.counter += 1
            try:
                new = eliminate_returns_flag(body, target,
                                             "_ret__%d" % self.counter)
            except _NotStructured:
                return None
        out = split_tuple_assigns(binds + new + post)
        if isinstance(s, ast.Expr):
            out = _drop_discarded(out, target().id) or [
                ast.copy_location(ast.Pass(), s)]
        for n in out:
            ast.fix_missing_locations(n)
        return out, call[1][0].name

    def _expand_block(self, fi, stmts, nested, done):
        out = []
        changed = False
        for s in stmts:
            # inner blocks first
            for field in ("body", "orelse", "finalbody"):
                blk = getattr(s, field, None)
                if isinstance(blk, list) and blk and \
                        isinstance(blk[0], ast.stmt) and not isinstance(
                            s, (ast.FunctionDef, ast.AsyncFunctionDef,
                                ast.ClassDef)):
                    nb, ch = self._expand_block(fi, blk, nested, done)
                    if ch:
                        setattr(s, field, nb)
                        changed = True
            if isinstance(s, ast.Try):
                for h in s.handlers:
                    nb, ch = self._expand_block(fi, h.body, nested, done)
                    if ch:
                        h.body = nb
                        changed = True
            r = self._expand_stmt(fi, s, nested)
            if r:
                out.extend(r[0])
                if r[1]:
                    done.append(r[1])
                changed = True
            else:
                out.append(s)
        return out, changed

    def expand_function(self, fi, rounds=6):
        done = []
        for _ in range(rounds):
            nested = {n.name: n for n in fi.node.body
                      if isinstance(n, ast.FunctionDef)}
            nb, ch = self._expand_block(fi, fi.node.body, nested, done)
            if not ch:
                break
            fi.node.body = nb
            ast.fix_missing_locations(fi.node)
        if done:
            self.log[self._short(fi.qual)] = done
        return done


def _ends_in_return(body):
    if not body:
        return False
    last = body[-1]
    if isinstance(last, (ast.Return, ast.Raise)):
        return True
    if isinstance(last, ast.If):
        return _ends_in_return(last.body) and _ends_in_return(last.orelse)
    return False


def helper_cone(model, fi, depth=3):
    """[fi] plus the functions that do not exist in the reference tree and are
    called (statically resolvable) from it, transitively: where a rule asks
    'does this function compute X somewhere', statements moved into a new helper
    that could not be expanded inline still count."""
    ex = getattr(model, "_expander", None)
    if ex is None:
        ex = Expander(model)
        model._expander = ex
    out, todo = [fi], [(fi, 0)]
    seen = {id(fi.node)}
    if ex.ref is None:
        return out
    while todo:
        f, d = todo.pop()
        if d >= depth:
            continue
        nested = {n.name: n for n in f.node.body
                  if isinstance(n, ast.FunctionDef)}
        for c in ast.walk(f.node):
            if not isinstance(c, ast.Call):
                continue
            try:
                tgt = ex.resolve(f, c, nested)
            except Exception:
                tgt = None
            if not tgt or id(tgt[0]) in seen:
                continue
            seen.add(id(tgt[0]))
            for cand in model.funcs.values():
                if cand.node is tgt[0]:
                    out.append(cand)
                    todo.append((cand, d + 1))
    return out


def expand_new_helpers(model):
    """Expand calls to helpers that are new relative to the reference tree in
    every function of the non-schema modules.  Returns {function: [helpers]}."""
    if os.environ.get("VERIF_NO_INLINE"):
        return {}
    ex = Expander(model)
    if ex.ref is None:
        return {}
    schema = set(ex.ref.get("__schema__", []))
    new = [q for q in model.funcs if ex.is_new(ex._short(q))]
    for q, fi in sorted(model.funcs.items()):
        if ex._short(fi.module) in schema or fi.module in schema:
            continue
        has_nested = any(isinstance(n, ast.FunctionDef) for n in fi.node.body)
        if not new and not has_nested:
            continue
        ex.expand_function(fi)
    # helpers whose every call site was expanded are "absorbed": their
    # statements are now analysed in the callers, whole-package scans skip them
    used = set()
    for hs in ex.log.values():
        used.update(hs)
    absorbed = set()
    if used:
        remaining = set()
        for q, fi in model.funcs.items():
            for n in ast.walk(fi.node):
                if isinstance(n, ast.Call):
                    nm = getattr(n.func, "attr", None) or \
                        getattr(n.func, "id", None)
                    if nm in used and fi.name != nm:
                        remaining.add(nm)
        for q, fi in model.funcs.items():
            if fi.name in used and fi.name not in remaining and \
                    ex.is_new(ex._short(q)):
                absorbed.add(q)
    model.absorbed = absorbed
    # an absorbed helper is no longer part of the normal form: its statements
    # live on in its callers, and package-wide scans (who may call X, handler
    # inventories) must not see them a second time under another name
    for q in absorbed:
        fi = model.funcs.pop(q, None)
        if fi is None:
            continue
        mi = model.modules.get(fi.module)
        if fi.cls and fi.cls in model.classes:
            ci = model.classes[fi.cls]
            ci.methods.pop(fi.name, None)
            if fi.node in ci.node.body:
                ci.node.body.remove(fi.node)
                if not ci.node.body:
                    ci.node.body.append(ast.Pass())
        elif mi is not None:
            mi.functions.pop(fi.name, None)
            if fi.node in mi.tree.body:
                mi.tree.body.remove(fi.node)
    return ex.log
