"""Schema-table reflector.

Imports the schema modules of <root>/src/saml2_tophat in a child process (module
top level only: table construction; no instance is created, no method called)
and returns, per class, the tables that drive SamlBase's generic engine, and per
module the ELEMENT_FROM_STRING / ELEMENT_BY_TAG maps.  The parent locates the
defining statements in the AST for file:line reporting.
"""
import ast
import json
import os
import subprocess
import sys

from .srcmodel import AnalysisError, repo_root

CHILD = r'''
import sys, json, importlib, inspect, warnings, os
warnings.simplefilter("ignore")
root, mods = sys.argv[1], sys.argv[2:]
sys.path.insert(0, os.path.join(root, "src"))
import saml2_tophat
assert os.path.realpath(saml2_tophat.__file__).startswith(os.path.realpath(root)), \
    "imported saml2_tophat from %s, expected under %s" % (saml2_tophat.__file__, root)
from saml2_tophat import SamlBase
loaded = {}
errors = {}
for m in mods:
    try:
        loaded[m] = importlib.import_module(m)
    except Exception as e:
        errors[m] = "%s: %s" % (type(e).__name__, e)

def q(c):
    return "%s.%s" % (c.__module__, c.__name__)

def typ(t):
    if isinstance(t, type):
        vt = getattr(t, "c_value_type", None)
        return {"class": q(t), "value_type": vt}
    return t

out = {"modules": {}, "classes": {}, "errors": errors}
for name, mod in loaded.items():
    info = {"NAMESPACE": getattr(mod, "NAMESPACE", None), "file": mod.__file__}
    efs = getattr(mod, "ELEMENT_FROM_STRING", None)
    if isinstance(efs, dict):
        info["ELEMENT_FROM_STRING"] = {k: getattr(v, "__name__", repr(v)) for k, v in efs.items()}
    ebt = getattr(mod, "ELEMENT_BY_TAG", None)
    if isinstance(ebt, dict):
        info["ELEMENT_BY_TAG"] = {k: (q(v) if isinstance(v, type) else repr(v)) for k, v in ebt.items()}
    info["functions"] = sorted(n for n, f in vars(mod).items()
                               if inspect.isfunction(f) and f.__module__ == name)
    out["modules"][name] = info
    for cname, cls in vars(mod).items():
        if not (isinstance(cls, type) and issubclass(cls, SamlBase) and cls.__module__ == name):
            continue
        ch = {}
        for key, val in cls.c_children.items():
            try:
                member, c = val
            except Exception:
                ch[key] = {"member": None, "cls": repr(val), "list": False}
                continue
            is_list = isinstance(c, list)
            cc = c[0] if is_list and c else c
            ch[key] = {"member": member,
                       "cls": q(cc) if isinstance(cc, type) else None,
                       "cls_tag": getattr(cc, "c_tag", None),
                       "cls_ns": getattr(cc, "c_namespace", None),
                       "list": is_list}
        at = {}
        for key, val in cls.c_attributes.items():
            try:
                member, t, req = val
            except Exception:
                at[key] = {"member": None, "type": repr(val), "required": None}
                continue
            at[key] = {"member": member, "type": typ(t), "required": req}
        try:
            sig = list(inspect.signature(cls.__init__).parameters)
        except Exception:
            sig = None
        out["classes"][q(cls)] = {
            "module": name, "name": cname, "c_tag": cls.c_tag,
            "c_namespace": cls.c_namespace,
            "bases": [q(b) for b in cls.__mro__[1:] if b is not object],
            "c_children": ch, "c_attributes": at,
            "c_child_order": list(cls.c_child_order),
            "c_cardinality": {k: dict(v) if isinstance(v, dict) else repr(v)
                              for k, v in cls.c_cardinality.items()},
            "c_value_type": cls.c_value_type,
            "c_any": getattr(cls, "c_any", None),
            "c_any_attribute": getattr(cls, "c_any_attribute", None),
            "own_children": "c_children" in cls.__dict__,
            "init_params": sig,
        }
try:
    from saml2_tophat import validate
    out["VALIDATOR"] = sorted(validate.VALIDATOR)
except Exception as e:
    out["VALIDATOR"] = None
    out["errors"]["validate"] = str(e)
json.dump(out, sys.stdout, default=repr)
'''

_CACHE = {}


def schema_modules(model):
    """Modules of the package that define ELEMENT_FROM_STRING (the XSD-generated
    bindings)."""
    out = []
    for name, mi in sorted(model.modules.items()):
        if "ELEMENT_FROM_STRING" in mi.assigns:
            out.append(name)
    return out


def reflect(model):
    root = model.root
    if root in _CACHE:
        return _CACHE[root]
    mods = schema_modules(model)
    if len(mods) < 30:
        raise AnalysisError("only %d schema modules found (expected >= 30)" %
                            len(mods))
    env = dict(os.environ, PYTHONDONTWRITEBYTECODE="1", PYTHONWARNINGS="ignore")
    p = subprocess.run([sys.executable, "-c", CHILD, root] + mods,
                       capture_output=True, text=True, env=env, timeout=180,
                       cwd="/")
    if p.returncode != 0:
        raise AnalysisError("schema reflection failed: %s" %
                            p.stderr.strip().splitlines()[-1:])
    try:
        data = json.loads(p.stdout)
    except ValueError as e:
        raise AnalysisError("schema reflection produced no JSON: %s" % e)
    if data.get("errors"):
        raise AnalysisError("schema modules failed to import: %s" %
                            data["errors"])
    if len(data["classes"]) < 1100:
        raise AnalysisError("only %d schema classes reflected (expected >= "
                            "1100)" % len(data["classes"]))
    for q, c in data["classes"].items():
        mi = model.modules.get(c["module"])
        c["path"] = mi.relpath if mi else c["module"]
        ci = model.classes.get(q)
        c["lineno"] = ci.node.lineno if ci else None
        c["loc"] = "%s:%s" % (c["path"], c.get("lineno"))
    _CACHE[root] = data
    return data


VALUE_CHILD = r'''
import sys, json, importlib, warnings, os
warnings.simplefilter("ignore")
root, modname, name = sys.argv[1:4]
sys.path.insert(0, os.path.join(root, "src"))
import saml2_tophat
assert os.path.realpath(saml2_tophat.__file__).startswith(os.path.realpath(root))
mod = importlib.import_module(modname)
val = getattr(mod, name)
def enc(v):
    if isinstance(v, type):
        return {"class": "%s.%s" % (v.__module__, v.__name__)}
    if isinstance(v, (str, int, float, bool)) or v is None:
        return v
    return {"repr": repr(v)[:200]}
if isinstance(val, dict):
    out = {"kind": "dict", "items": [[enc(k), enc(v)] for k, v in val.items()]}
elif isinstance(val, (list, tuple, set, frozenset)):
    out = {"kind": "seq", "items": [enc(v) for v in val]}
else:
    out = {"kind": "scalar", "value": enc(val)}
json.dump(out, sys.stdout)
'''


def reflect_value(model, module, name, python=None):
    """The value a module-level name has after import (module top level only),
    for tables that are no longer written as a literal.  Keys/values that are
    classes come back as {"class": qualified name}."""
    py = python or sys.executable
    p = subprocess.run([py, "-W", "ignore", "-c", VALUE_CHILD, model.root,
                        module, name], capture_output=True, text=True,
                       timeout=120,
                       env=dict(os.environ, PYTHONDONTWRITEBYTECODE="1"))
    if p.returncode != 0:
        raise AnalysisError("cannot reflect %s.%s: %s" % (
            module, name, (p.stderr or "").strip().splitlines()[-1:]))
    return json.loads(p.stdout)
