"""Temporaries that did not exist in the reference tree are folded back.

`t = E` immediately followed by a statement S that reads t exactly once - as the
first thing S evaluates, unconditionally - with t read and written nowhere else in
the function, computes the same as S with E in place of t: E is evaluated at the
same point of the execution, once, and nothing runs between its evaluation and
its use.  Naming an intermediate result ("introduce explaining variable": the
test of an `if`, a returned expression, an argument) is among the commonest
behaviour-preserving edits; the rules speak about the tests, returns and calls of
the reference tree, so before any rule runs every such NEW temporary (a name the
function did not have when the rule instances were confirmed, reference/
locals.json) is substituted back.  Names of the reference tree are never folded:
on the unchanged tree this layer is the identity.

"First thing S evaluates": only loads of plain names, constants and the callee's
name / attribute chain precede the use (those have no effect and E cannot change
what they yield, short of rebinding an attribute that is looked up for the call -
the same approximation the helper expansion makes); no call, subscript or
conditional evaluation (and/or, conditional expression, comprehension, lambda)
comes first.
"""
import ast
import copy


def _eval_order(e, out, cond=False):
    """append (node, conditional?) in evaluation order"""
    if isinstance(e, ast.BoolOp):
        _eval_order(e.values[0], out, cond)
        for v in e.values[1:]:
            _eval_order(v, out, True)
        out.append((e, cond))
    elif isinstance(e, ast.IfExp):
        _eval_order(e.test, out, cond)
        _eval_order(e.body, out, True)
        _eval_order(e.orelse, out, True)
        out.append((e, cond))
    elif isinstance(e, (ast.Lambda, ast.ListComp, ast.SetComp, ast.DictComp,
                        ast.GeneratorExp)):
        for x in ast.walk(e):
            if x is not e:
                out.append((x, True))
        out.append((e, cond))
    elif isinstance(e, ast.Compare) and len(e.ops) > 1:
        _eval_order(e.left, out, cond)
        _eval_order(e.comparators[0], out, cond)
        for c in e.comparators[1:]:
            _eval_order(c, out, True)
        out.append((e, cond))
    else:
        for c in ast.iter_child_nodes(e):
            if isinstance(c, ast.keyword):
                _eval_order(c.value, out, cond)
            elif isinstance(c, ast.expr):
                _eval_order(c, out, cond)
        out.append((e, cond))


def _root_of(nxt):
    """(holder, field) of the expression a statement evaluates first"""
    if isinstance(nxt, ast.If):
        return nxt, "test"
    if isinstance(nxt, (ast.Return, ast.Expr)) and nxt.value is not None:
        return nxt, "value"
    if isinstance(nxt, ast.Assign):
        # targets are evaluated after the value
        return nxt, "value"
    if isinstance(nxt, ast.AugAssign) and isinstance(nxt.target, ast.Name):
        return nxt, "value"
    if isinstance(nxt, ast.For):
        return nxt, "iter"
    if isinstance(nxt, ast.Raise) and nxt.exc is not None and nxt.cause is None:
        return nxt, "exc"
    if isinstance(nxt, ast.Assert) and nxt.msg is None:
        return nxt, "test"
    return None


def _blocks(fn):
    out = []
    stack = [fn]
    while stack:
        n = stack.pop()
        for field in ("body", "orelse", "finalbody"):
            blk = getattr(n, field, None)
            if isinstance(blk, list) and blk and isinstance(blk[0], ast.stmt):
                out.append(blk)
                for s in blk:
                    if not isinstance(s, (ast.FunctionDef, ast.ClassDef,
                                          ast.AsyncFunctionDef)):
                        stack.append(s)
        if isinstance(n, ast.Try):
            for h in n.handlers:
                out.append(h.body)
                for s in h.body:
                    if not isinstance(s, (ast.FunctionDef, ast.ClassDef,
                                          ast.AsyncFunctionDef)):
                        stack.append(s)
    return out


def fold_function(fn, ref_names):
    """-> number of temporaries folded"""
    done = 0
    for _ in range(8):
        loads, stores, other = {}, {}, set()
        for n in ast.walk(fn):
            if isinstance(n, ast.Name):
                d = loads if isinstance(n.ctx, ast.Load) else stores
                d[n.id] = d.get(n.id, 0) + 1
            elif isinstance(n, ast.arg):
                other.add(n.arg)
            elif isinstance(n, ast.ExceptHandler) and n.name:
                other.add(n.name)
            elif isinstance(n, (ast.Global, ast.Nonlocal)):
                other.update(n.names)
        # names mentioned in nested scopes keep their binding
        for n in ast.walk(fn):
            if n is not fn and isinstance(n, (ast.FunctionDef, ast.Lambda,
                                              ast.AsyncFunctionDef,
                                              ast.ClassDef)):
                for x in ast.walk(n):
                    if isinstance(x, ast.Name):
                        other.add(x.id)
        changed = False
        # a name bound once to a constant and read once: the constant is
        # written where it is read, wherever that is (evaluating a constant
        # has no effect and cannot fail)
        for blk in _blocks(fn):
            for i, s in enumerate(list(blk)):
                if not (isinstance(s, ast.Assign) and len(s.targets) == 1 and
                        isinstance(s.targets[0], ast.Name) and
                        isinstance(s.value, ast.Constant)):
                    continue
                t = s.targets[0].id
                if t in ref_names or t in other or loads.get(t, 0) != 1 or \
                        stores.get(t, 0) != 1:
                    continue
                # the read must come after the binding on every path: same
                # block, later statement (nested blocks included)
                k = blk.index(s)
                use = None
                for later in blk[k + 1:]:
                    for x in ast.walk(later):
                        if isinstance(x, ast.Name) and x.id == t and \
                                isinstance(x.ctx, ast.Load):
                            use = later
                if use is None:
                    continue
                cval = s.value

                class SubC(ast.NodeTransformer):
                    def visit_Name(self, n):
                        if n.id == t and isinstance(n.ctx, ast.Load):
                            return ast.copy_location(copy.deepcopy(cval), n)
                        return n
                SubC().visit(use)
                blk.remove(s)
                done += 1
                changed = True
                loads[t] = 0
        for blk in _blocks(fn):
            i = 0
            while i + 1 < len(blk):
                s, nxt = blk[i], blk[i + 1]
                if not (isinstance(s, ast.Assign) and len(s.targets) == 1 and
                        isinstance(s.targets[0], ast.Name)):
                    i += 1
                    continue
                t = s.targets[0].id
                if t in ref_names or t in other or loads.get(t, 0) != 1 or \
                        stores.get(t, 0) != 1:
                    i += 1
                    continue
                if any(isinstance(x, (ast.NamedExpr, ast.Yield, ast.YieldFrom,
                                      ast.Await)) for x in ast.walk(s.value)):
                    i += 1
                    continue
                hf = _root_of(nxt)
                if hf is None:
                    i += 1
                    continue
                holder, field = hf
                root = getattr(holder, field)
                order = []
                _eval_order(root, order)
                pos = [k for k, (x, c) in enumerate(order)
                       if isinstance(x, ast.Name) and x.id == t and
                       isinstance(x.ctx, ast.Load)]
                if len(pos) != 1 or order[pos[0]][1]:
                    i += 1
                    continue
                before = [x for x, c in order[:pos[0]]]
                if any(not isinstance(x, (ast.Name, ast.Constant,
                                          ast.Attribute, ast.expr_context))
                       for x in before):
                    i += 1
                    continue
                val = s.value

                class Sub(ast.NodeTransformer):
                    def visit_Name(self, n):
                        if n.id == t and isinstance(n.ctx, ast.Load):
                            return ast.copy_location(copy.deepcopy(val), n)
                        return n
                setattr(holder, field, Sub().visit(root))
                ast.fix_missing_locations(holder)
                del blk[i]
                done += 1
                changed = True
                loads[t] = 0
                # the substituted expression's names keep their counts
        if not changed:
            break
    return done


# ------------------------------------------------------------ copy coalescing
def _occ(node, name):
    return any(isinstance(n, ast.Name) and n.id == name for n in ast.walk(node)) \
        or any(isinstance(n, ast.ExceptHandler) and n.name == name
               for n in ast.walk(node))


def coalesce_copies(fn):
    """`Y = ...; <statements using Y only>; X = Y` with Y used nowhere else in
    the function and X not touched in between: Y is X (the statements in between
    work on X directly and the copy disappears).  Typical after a helper was
    expanded: the helper's result variable and the caller's variable are one.
    Not applied when an enclosing try's handlers / finally mention X (they would
    see the value earlier than before).  -> number of copies removed"""
    done = 0
    total = {}
    for n in ast.walk(fn):
        if isinstance(n, ast.Name):
            total[n.id] = total.get(n.id, 0) + 1
    params = {a.arg for a in ast.walk(fn.args) if isinstance(a, ast.arg)}
    nested = set()
    for n in ast.walk(fn):
        if n is not fn and isinstance(n, (ast.FunctionDef, ast.Lambda,
                                          ast.AsyncFunctionDef, ast.ClassDef)):
            nested |= {x.id for x in ast.walk(n) if isinstance(x, ast.Name)}

    def walk_blocks(stmts, guarded):
        nonlocal done
        k = 0
        while k < len(stmts):
            s = stmts[k]
            if isinstance(s, ast.Assign) and len(s.targets) == 1 and \
                    isinstance(s.targets[0], ast.Name) and \
                    isinstance(s.value, ast.Name) and \
                    s.targets[0].id != s.value.id:
                x, y = s.targets[0].id, s.value.id
                if y not in params and y not in nested and x not in nested \
                        and x not in guarded:
                    # first definition of y at this block level
                    j = None
                    for i in range(k):
                        si = stmts[i]
                        if isinstance(si, ast.Assign) and any(
                                isinstance(t, ast.Name) and t.id == y
                                for t in si.targets) and \
                                not _occ(si.value, y):
                            j = i
                            break
                    if j is not None:
                        inside = sum(
                            1 for i in range(j, k + 1)
                            for n in ast.walk(stmts[i])
                            if isinstance(n, ast.Name) and n.id == y)
                        clean = not any(_occ(stmts[i], x) for i in range(j, k))
                        if inside == total.get(y, 0) and clean:
                            class R(ast.NodeTransformer):
                                def visit_Name(self, n):
                                    if n.id == y:
                                        n.id = x
                                    return n
                            for i in range(j, k):
                                R().visit(stmts[i])
                            del stmts[k]
                            total[x] = total.get(x, 0) + inside - 2
                            total[y] = 0
                            done += 1
                            continue
            # recurse
            for field in ("body", "orelse", "finalbody"):
                blk = getattr(s, field, None)
                if isinstance(blk, list) and blk and \
                        isinstance(blk[0], ast.stmt) and not isinstance(
                            s, (ast.FunctionDef, ast.ClassDef,
                                ast.AsyncFunctionDef)):
                    g = set(guarded)
                    if isinstance(s, ast.Try) and field == "body":
                        for h in s.handlers:
                            g |= {n.id for n in ast.walk(h)
                                  if isinstance(n, ast.Name)}
                        for st in s.finalbody + s.orelse:
                            g |= {n.id for n in ast.walk(st)
                                  if isinstance(n, ast.Name)}
                    walk_blocks(blk, g)
            if isinstance(s, ast.Try):
                for h in s.handlers:
                    g = set(guarded)
                    for st in s.finalbody:
                        g |= {n.id for n in ast.walk(st)
                              if isinstance(n, ast.Name)}
                    walk_blocks(h.body, g)
            k += 1
    walk_blocks(fn.body, set())
    return done
