"""Canonical argument form of calls to package functions.

`f(a, b)` and `f(a, y=b)` are the same call when f's second parameter is `y`.
Rules read arguments by position or by name; so that neither spelling matters,
every call whose callee name denotes package functions that all agree on where
a keyword's parameter sits is put into the form "as many leading arguments
positional as possible": a keyword argument that fills exactly the next
positional slot becomes positional (repeatedly).  The same signature table
backs match.arg_of(), which still finds arguments by name.  Calls with * / **
arguments are left alone.  Evaluation order of the arguments is unchanged
(a keyword moved to the end of the positional list was evaluated after them
anyway, and keywords keep their relative order).
"""
import ast


def signature_table(model):
    sigs = {}
    for q, fi in model.funcs.items():
        a = fi.node.args
        if a.vararg:
            ps = None            # *args swallows positional extras
        else:
            ps = [p.arg for p in a.posonlyargs + a.args]
            if fi.cls and ps and ps[0] in ("self", "cls") and not any(
                    isinstance(d, ast.Name) and d.id == "staticmethod"
                    for d in fi.node.decorator_list):
                ps = ps[1:]
        sigs.setdefault(fi.name, []).append(ps)
    return sigs


def canonicalise(model, skip_modules=()):
    sigs = signature_table(model)
    done = 0
    for mname, mi in model.modules.items():
        if mname in skip_modules:
            continue
        for c in ast.walk(mi.tree):
            if not isinstance(c, ast.Call) or not c.keywords:
                continue
            if any(isinstance(a, ast.Starred) for a in c.args) or \
                    any(k.arg is None for k in c.keywords):
                continue
            f = c.func
            nm = f.attr if isinstance(f, ast.Attribute) else (
                f.id if isinstance(f, ast.Name) else None)
            cands = sigs.get(nm or "")
            if not cands or any(ps is None for ps in cands):
                continue
            # Class.method(self, ...) passes the receiver explicitly
            if isinstance(f, ast.Attribute) and isinstance(f.value, ast.Name) \
                    and f.value.id[:1].isupper():
                continue
            while c.keywords:
                k = c.keywords[0]
                p = len(c.args)
                if all(len(ps) > p and ps[p] == k.arg for ps in cands):
                    c.args.append(k.value)
                    c.keywords.pop(0)
                    done += 1
                else:
                    break
    return done
