"""A very small abstract evaluator for 'record with an optional field' filters.

Several lookups decide whether to use a parsed metadata record from an optional
field of it (`KeyDescriptor/@use`, ...).  The property clauses speak about three
cases of that record - field absent, field equal to the requested value, field
different - so the rule evaluates the guards of the accepting statement in each
case over the domain

    REQ   the requested value (a non-empty string)
    OTH   some other non-empty string
    NONE  None
    ('c', v)  a literal
    U     unknown

`K['f']`, `K.get('f')`, `K.get('f', d)`, `'f' in K` are interpreted per case;
the name bound to the requested value evaluates to REQ.  Everything else is U.
No code is executed.
"""
import ast

from .srcmodel import unparse

T, F, U = "T", "F", "U"
REQ, OTH, NONE = "REQ", "OTH", "NONE"
ABSENT, SAME, OTHER = "absent", "same", "other"


class FieldCase(object):
    def __init__(self, case, record, field, requested):
        self.case = case
        self.record = record        # name of the record variable
        self.field = field          # field key (string)
        self.requested = requested  # name holding the requested value

    # ------------------------------------------------------------- values
    def _is_field_const(self, n):
        return isinstance(n, ast.Constant) and n.value == self.field

    def value(self, e):
        if isinstance(e, ast.Constant):
            return NONE if e.value is None else ("c", e.value)
        if isinstance(e, ast.Name):
            return REQ if e.id == self.requested else U
        if isinstance(e, ast.Subscript) and isinstance(e.value, ast.Name) and \
                e.value.id == self.record and self._is_field_const(e.slice):
            return {ABSENT: U, SAME: REQ, OTHER: OTH}[self.case]
        if isinstance(e, ast.Call) and isinstance(e.func, ast.Attribute) and \
                e.func.attr == "get" and isinstance(e.func.value, ast.Name) and \
                e.func.value.id == self.record and e.args and \
                self._is_field_const(e.args[0]) and not e.keywords:
            if self.case == ABSENT:
                return self.value(e.args[1]) if len(e.args) > 1 else NONE
            return REQ if self.case == SAME else OTH
        if isinstance(e, ast.IfExp):
            t = self.truth(e.test)
            if t == T:
                return self.value(e.body)
            if t == F:
                return self.value(e.orelse)
            a, b = self.value(e.body), self.value(e.orelse)
            return a if a == b else U
        if isinstance(e, ast.BoolOp) and isinstance(e.op, ast.Or):
            # a or b -> first truthy
            for v in e.values[:-1]:
                t = self._truth_of_value(self.value(v))
                if t == T:
                    return self.value(v)
                if t != F:
                    return U
            return self.value(e.values[-1])
        return U

    @staticmethod
    def _truth_of_value(v):
        if v in (REQ, OTH):
            return T
        if v == NONE:
            return F
        if isinstance(v, tuple):
            return T if v[1] else F
        return U

    @staticmethod
    def _eq(a, b):
        if a == U or b == U:
            return U
        if a == b:
            return T
        sym = {REQ, OTH, NONE}
        if a in sym and b in sym:
            return F
        if isinstance(a, tuple) and isinstance(b, tuple):
            return T if a[1] == b[1] else F
        if NONE in (a, b):
            return F          # a literal / REQ / OTH is not None
        return U              # literal vs REQ / OTH

    # -------------------------------------------------------------- truth
    def truth(self, e):
        neg = {T: F, F: T, U: U}
        if isinstance(e, ast.UnaryOp) and isinstance(e.op, ast.Not):
            return neg[self.truth(e.operand)]
        if isinstance(e, ast.BoolOp):
            vals = [self.truth(v) for v in e.values]
            if isinstance(e.op, ast.And):
                if F in vals:
                    return F
                return T if all(v == T for v in vals) else U
            if T in vals:
                return T
            return F if all(v == F for v in vals) else U
        if isinstance(e, ast.Compare) and len(e.ops) == 1:
            op, l, r = e.ops[0], e.left, e.comparators[0]
            if isinstance(op, (ast.In, ast.NotIn)):
                res = U
                if self._is_field_const(l) and isinstance(r, ast.Name) and \
                        r.id == self.record:
                    res = F if self.case == ABSENT else T
                elif isinstance(r, (ast.Tuple, ast.List, ast.Set)):
                    lv = self.value(l)
                    eqs = [self._eq(lv, self.value(x)) for x in r.elts]
                    if T in eqs:
                        res = T
                    elif all(x == F for x in eqs):
                        res = F
                return neg[res] if isinstance(op, ast.NotIn) else res
            if isinstance(op, (ast.Eq, ast.NotEq, ast.Is, ast.IsNot)):
                res = self._eq(self.value(l), self.value(r))
                return neg[res] if isinstance(op, (ast.NotEq, ast.IsNot)) \
                    else res
            return U
        return self._truth_of_value(self.value(e))

    def mentions(self, e):
        return any(isinstance(n, ast.Name) and n.id in (self.record,
                                                         self.requested)
                   for n in ast.walk(e))


def guard_verdict(cfg, nid, case):
    """Evaluate the dominating branch tests of node `nid` in `case`:
    'consistent'   every test that mentions the record / requested value has a
                   definite value equal to the branch taken
    'excluded'     some test definitely has the other value
    'unknown'      neither: some relevant test is undetermined
    plus the list of (test text, branch, value)."""
    out = []
    verdict = "consistent"
    dom = cfg.dominators().get(nid, set())
    for d in sorted(dom):
        n = cfg.nodes[d]
        if n.kind not in ("true", "false") or d == nid:
            continue
        if not case.mentions(n.ast):
            continue
        v = case.truth(n.ast)
        out.append((unparse(n.ast), n.kind, v))
        want = T if n.kind == "true" else F
        if v == U:
            if verdict == "consistent":
                verdict = "unknown"
        elif v != want:
            verdict = "excluded"
    return verdict, out
