"""Renamed functions are mapped back onto their reference names.

Renaming a private helper (and every reference to it) is behaviour-preserving,
but every rule is anchored at function names.  Before helpers are expanded and
locals are normalised, a function that exists in the reference snapshot but not
in the tree is paired with a function of the same class / module that exists in
the tree but not in the snapshot when their bodies have the same shape (the
statement-context signature of sa/alpha.py, all local names blanked): mutual best
match with similarity >= 0.6.  The new name is then replaced by the reference name
at its definition and at every reference in the package (attribute accesses and
plain names), provided the new name is used for nothing else.

This is a package-wide alpha-conversion of one identifier; it does not depend on
which pairing is chosen for soundness, only for the rules finding their anchors.
"""
import ast
import collections

from . import alpha, inline


def _shape(sig):
    c = collections.Counter()
    for name, ctxs in sig.items():
        if name.startswith("__"):
            continue
        for k, v in (ctxs.items() if isinstance(ctxs, dict) else ctxs.items()):
            c[k.replace("@", "_")] += v
    return c


def body_shape(node):
    """Counter of tokens of a function body that survive renaming of locals
    and of private helpers: node kinds, string constants, public attribute
    names and the names of parameters."""
    c = collections.Counter()
    for n in ast.walk(node):
        c["<%s>" % type(n).__name__] += 1
        if isinstance(n, ast.Attribute) and not n.attr.startswith("_"):
            c["." + n.attr] += 1
        elif isinstance(n, ast.Constant) and isinstance(n.value, str) and \
                len(n.value) < 60:
            c["s:" + n.value] += 1
        elif isinstance(n, ast.arg):
            c["p:" + n.arg] += 1
    return c


def _sim(a, b):
    inter = sum((a & b).values())
    union = sum((a | b).values())
    return inter / union if union else 0.0


def restore_names(model, threshold=0.6):
    ref_funcs = inline.reference()
    ref_sigs = alpha.reference()
    if not ref_funcs or not ref_sigs:
        return {}
    pkg = model.pkg + "."
    cur = {q[len(pkg):]: fi for q, fi in model.funcs.items()}
    schema = set(ref_funcs.get("__schema__", []))
    ref_shapes = ref_funcs.get("__shapes__", {})
    vanished = [q for q in ref_funcs
                if not q.startswith("__") and ".<locals>." not in q and
                q not in cur and (q in ref_sigs or q in ref_shapes)]
    new = [q for q, fi in cur.items() if q not in ref_funcs and
           fi.module[len(pkg):] not in schema and fi.module not in schema]
    if not vanished or not new:
        return {}

    def scope(q):
        return q.rsplit(".", 1)[0] if "." in q else ""
    shapes_new = {}
    scores = []
    ref_callers = ref_funcs.get("__callers__", {})
    cur_callers = {}
    for q, fi in cur.items():
        for c in ast.walk(fi.node):
            if isinstance(c, ast.Call):
                nm = getattr(c.func, "attr", None) or getattr(c.func, "id", None)
                if nm:
                    cur_callers.setdefault(nm, set()).add(q)
    body_new = {}
    for v in vanished:
        sv = _shape(ref_sigs[v]) if v in ref_sigs else collections.Counter()
        bv = collections.Counter(ref_shapes.get(v, {}))
        if sum(sv.values()) < 3 and not bv:
            continue
        vname = v.rsplit(".", 1)[-1]
        vc = set(ref_callers.get(vname, []))
        for n in new:
            if scope(n) != scope(v):
                continue
            if n not in shapes_new:
                shapes_new[n] = _shape({k: dict(c) for k, c in
                                        alpha.signatures(cur[n].node).items()})
            s = _sim(sv, shapes_new[n]) if sum(sv.values()) >= 3 else 0.0
            if bv:
                if n not in body_new:
                    body_new[n] = body_shape(cur[n].node)
                sb = _sim(bv, body_new[n])
                # tiny bodies carry little evidence: ask for (near) identity
                if sum(bv.values()) >= 25 or sb >= 0.95:
                    s = max(s, sb)
            # the same functions that called the vanished name now call the
            # new one (and nobody calls the vanished name any more)
            nc = cur_callers.get(n.rsplit(".", 1)[-1], set())
            if vc and nc and vname not in cur_callers:
                cj = len(vc & nc) / float(len(vc | nc))
                if cj >= 0.6 and s >= 0.25:
                    # graded by the body similarity, so that two new helpers
                    # of the same caller do not tie
                    s = max(s, 0.6 + 0.4 * cj * s)
            if s >= threshold:
                scores.append((s, v, n))
    scores.sort(key=lambda t: (-t[0], t[1], t[2]))
    out, used_v, used_n = {}, set(), set()
    for s, v, n in scores:
        if v in used_v or n in used_n:
            continue
        rivals = [x for x in scores if x[0] >= s - 0.05 and
                  ((x[1] == v) != (x[2] == n)) and
                  x[1] not in used_v and x[2] not in used_n]
        if rivals:
            continue
        out[n] = v
        used_v.add(v)
        used_n.add(n)
    applied = {}
    # a rename is a package-wide alpha-conversion of ONE identifier: every
    # definition of the new name (the same method may be defined in several
    # classes) must be paired with a vanished definition of the same old name
    by_name = {}
    for n, v in out.items():
        by_name.setdefault(n.rsplit(".", 1)[-1], set()).add(v.rsplit(".", 1)[-1])
    for new_name, olds in sorted(by_name.items()):
        if len(olds) != 1:
            continue
        old_name = next(iter(olds))
        if new_name == old_name:
            continue
        defs_new = [q for q in cur if q.rsplit(".", 1)[-1] == new_name]
        if any(q not in out for q in defs_new):
            continue
        # the old identifier must be free in each scope it returns to
        if any(q.rsplit(".", 1)[-1] == old_name and
               scope(q) in {scope(d) for d in defs_new} for q in cur):
            continue
        for mi in model.modules.values():
            if new_name not in mi.source:
                continue
            for node in ast.walk(mi.tree):
                if isinstance(node, ast.Attribute) and node.attr == new_name:
                    node.attr = old_name
                elif isinstance(node, ast.Name) and node.id == new_name:
                    node.id = old_name
        for n in defs_new:
            v = out[n]
            fi = cur[n]
            fi.node.name = old_name
            # re-index
            del model.funcs[fi.qual]
            fi.qual = pkg + v
            fi.name = old_name
            model.funcs[fi.qual] = fi
            if fi.cls and fi.cls in model.classes:
                ms = model.classes[fi.cls].methods
                ms.pop(new_name, None)
                ms[old_name] = fi
            else:
                mi = model.modules.get(fi.module)
                if mi:
                    mi.functions.pop(new_name, None)
                    mi.functions[old_name] = fi
            applied[n] = v
    return applied
