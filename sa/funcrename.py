"""Renamed functions are mapped back onto their reference names.

Renaming a private helper (and every reference to it) is behaviour-preserving,
but every rule is anchored at function names.  Before helpers are expanded and
locals are normalised, a function that exists in the reference snapshot but not
in the tree is paired with a function of the same class / module that exists in
the tree but not in the snapshot when their bodies have the same shape (the
statement-context signature of sa/alpha.py, all local names blanked): mutual best
match with similarity >= 0.6.  The new name is then replaced by the reference name
at its definition and at every reference in the package (attribute accesses and
plain names), provided the new name is used for nothing else.

This is a package-wide alpha-conversion of one identifier; it does not depend on
which pairing is chosen for soundness, only for the rules finding their anchors.
"""
import ast
import collections

from . import alpha, inline


def _shape(sig):
    c = collections.Counter()
    for name, ctxs in sig.items():
        for k, v in (ctxs.items() if isinstance(ctxs, dict) else ctxs.items()):
            c[k.replace("@", "_")] += v
    return c


def _sim(a, b):
    inter = sum((a & b).values())
    union = sum((a | b).values())
    return inter / union if union else 0.0


def restore_names(model, threshold=0.6):
    ref_funcs = inline.reference()
    ref_sigs = alpha.reference()
    if not ref_funcs or not ref_sigs:
        return {}
    pkg = model.pkg + "."
    cur = {q[len(pkg):]: fi for q, fi in model.funcs.items()}
    schema = set(ref_funcs.get("__schema__", []))
    vanished = [q for q in ref_funcs
                if not q.startswith("__") and ".<locals>." not in q and
                q not in cur and q in ref_sigs]
    new = [q for q, fi in cur.items() if q not in ref_funcs and
           fi.module[len(pkg):] not in schema and fi.module not in schema]
    if not vanished or not new:
        return {}

    def scope(q):
        return q.rsplit(".", 1)[0] if "." in q else ""
    shapes_new = {}
    scores = []
    ref_callers = ref_funcs.get("__callers__", {})
    cur_callers = {}
    for q, fi in cur.items():
        for c in ast.walk(fi.node):
            if isinstance(c, ast.Call):
                nm = getattr(c.func, "attr", None) or getattr(c.func, "id", None)
                if nm:
                    cur_callers.setdefault(nm, set()).add(q)
    for v in vanished:
        sv = _shape(ref_sigs[v])
        if sum(sv.values()) < 3:
            continue
        vname = v.rsplit(".", 1)[-1]
        vc = set(ref_callers.get(vname, []))
        for n in new:
            if scope(n) != scope(v):
                continue
            if n not in shapes_new:
                shapes_new[n] = _shape({k: dict(c) for k, c in
                                        alpha.signatures(cur[n].node).items()})
            s = _sim(sv, shapes_new[n])
            # the same functions that called the vanished name now call the
            # new one (and nobody calls the vanished name any more)
            nc = cur_callers.get(n.rsplit(".", 1)[-1], set())
            if vc and nc and vname not in cur_callers:
                cj = len(vc & nc) / float(len(vc | nc))
                if cj >= 0.6 and s >= 0.25:
                    s = max(s, 0.6 + 0.4 * cj)
            if s >= threshold:
                scores.append((s, v, n))
    scores.sort(key=lambda t: (-t[0], t[1], t[2]))
    out, used_v, used_n = {}, set(), set()
    for s, v, n in scores:
        if v in used_v or n in used_n:
            continue
        rivals = [x for x in scores if x[0] >= s - 0.05 and
                  ((x[1] == v) != (x[2] == n)) and
                  x[1] not in used_v and x[2] not in used_n]
        if rivals:
            continue
        out[n] = v
        used_v.add(v)
        used_n.add(n)
    applied = {}
    for n, v in out.items():
        new_name = n.rsplit(".", 1)[-1]
        old_name = v.rsplit(".", 1)[-1]
        if new_name == old_name:
            continue
        # the new identifier must denote nothing else, the old one must be free
        defs_new = [q for q in cur if q.rsplit(".", 1)[-1] == new_name]
        defs_old = [q for q in cur if q.rsplit(".", 1)[-1] == old_name and
                    scope(q) == scope(n)]
        if len(defs_new) != 1 or defs_old:
            continue
        fi = cur[n]
        for mi in model.modules.values():
            if new_name not in mi.source:
                continue
            for node in ast.walk(mi.tree):
                if isinstance(node, ast.Attribute) and node.attr == new_name:
                    node.attr = old_name
                elif isinstance(node, ast.Name) and node.id == new_name:
                    node.id = old_name
                elif isinstance(node, ast.keyword) and False:
                    pass
        fi.node.name = old_name
        # re-index
        del model.funcs[fi.qual]
        fi.qual = pkg + v
        fi.name = old_name
        model.funcs[fi.qual] = fi
        if fi.cls and fi.cls in model.classes:
            ms = model.classes[fi.cls].methods
            ms.pop(new_name, None)
            ms[old_name] = fi
        else:
            mi = model.modules.get(fi.module)
            if mi:
                mi.functions.pop(new_name, None)
                mi.functions[old_name] = fi
        applied[n] = v
    return applied
