"""Adopt a confirmed seeded change into /verif/seeded/<name>/.

  /venv/bin/python tools/adopt_seed.py <seed-dir> <name> <property> "<needs>"

Runs tools/confirm_seed.py (full: compile, pinned tests, demo before/after, all
checks) and, when the change is confirmed (applies, compiles, 308 tests pass,
demo passes on the original and fails with the change), copies patch.diff,
demo.py and notes.md and writes meta.json with what was run and which checks
reported it.
"""
import json
import os
import shutil
import subprocess
import sys

VERIF = os.path.dirname(os.path.dirname(os.path.abspath(__file__)))


def main():
    seed, name, prop, needs = sys.argv[1:5]
    p = subprocess.run(["/venv/bin/python",
                        os.path.join(VERIF, "tools", "confirm_seed.py"), seed],
                       capture_output=True, text=True)
    try:
        res = json.loads(p.stdout)
    except ValueError:
        print(p.stdout, p.stderr)
        return 2
    ok = res.get("applies") and res.get("compiles") and \
        res.get("tests_passed") in (308, 315) and res.get("demo_original_rc") == 0 and \
        res.get("demo_patched_rc") not in (0, None)
    print(json.dumps(res, indent=1))
    if not ok:
        print("NOT CONFIRMED")
        return 1
    dst = os.path.join(VERIF, "seeded", name)
    os.makedirs(dst, exist_ok=True)
    for f in ("patch.diff", "demo.py", "notes.md"):
        if os.path.exists(os.path.join(seed, f)):
            shutil.copy(os.path.join(seed, f), os.path.join(dst, f))
    meta = {
        "property": prop,
        "note_on_test_count": "the pinned baseline is 308 stable passes; 7 flaky test_33_identifier tests also pass in a freshly checked-out worktree (315)",
        "breaks": needs,
        "origin": "independent sub-agent given only the property text and a "
                  "scratch worktree of /repo",
        "confirmed": {
            "applies_to_repo_HEAD": True,
            "byte_compiles": True,
            "pinned_tests_passed": res["tests_passed"],
            "demo_on_original": "exit %s %s" % (res["demo_original_rc"],
                                                res.get("demo_original_tail")),
            "demo_with_change": "exit %s %s" % (res["demo_patched_rc"],
                                                res.get("demo_patched_tail")),
            "commands": [
                "git -C /repo worktree add --detach <scratch> HEAD; "
                "git -C <scratch> apply patch.diff",
                "/venv/bin/python -m compileall -q <scratch>/src/saml2_tophat",
                "cd <scratch> && PYTHONPATH=<scratch>/src /venv/bin/python -m "
                "pytest -q -p no:cacheprovider --timeout=900 "
                "--continue-on-collection-errors tests",
                "PYTHONPATH=/repo/src /venv/bin/python demo.py ; "
                "PYTHONPATH=<scratch>/src /venv/bin/python demo.py",
                "VERIF_REPO=<scratch> /venv/bin/python -m sa.cli <each id> "
                "--no-write",
            ],
        },
        "detected_by": res.get("detected_by"),
        "analysis_errors": res.get("analysis_errors"),
        "reports": res.get("checks"),
    }
    with open(os.path.join(dst, "meta.json"), "w") as fh:
        json.dump(meta, fh, indent=1)
    print("ADOPTED ->", dst, "detected_by", res.get("detected_by"))
    return 0


if __name__ == "__main__":
    sys.exit(main())
