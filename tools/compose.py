"""Seeded change on top of a refactored tree: is it still reported?

  /venv/bin/python tools/compose.py [-k C05] [-j 8]

For every seeded/<S> and every benign/<B> that touches one of the same files, B is
applied to a scratch copy of /repo/src, then S on top (no fuzz; pairs
whose hunks overlap and do not apply are skipped).  The check(s) that report S on
the plain tree must still report it (exit 1).  A development tool: it measures
whether the normal-form layers keep the rules' sight on code that no longer looks
like the reference tree.
"""
import argparse
import glob
import json
import os
import re
import shutil
import subprocess
import sys
import tempfile
import warnings
from concurrent.futures import ThreadPoolExecutor

warnings.simplefilter("ignore")
VERIF = os.path.dirname(os.path.dirname(os.path.abspath(__file__)))
PY = "/venv/bin/python"


def files_of(patch):
    return set(re.findall(r"(?m)^diff --git a/(\S+)", open(patch).read()))


def run_one(args):
    s, b, props = args
    tmp = tempfile.mkdtemp(prefix="verif-comp-")
    try:
        shutil.copytree("/repo/src", os.path.join(tmp, "src"),
                        ignore=shutil.ignore_patterns("__pycache__"))
        for pf in (os.path.join(VERIF, "benign", b, "patch.diff"),
                   os.path.join(VERIF, "seeded", s, "patch.diff")):
            p = subprocess.run(["patch", "-p1", "-s", "--no-backup-if-mismatch",
                                "-F", "0", "-d", tmp, "-i", pf],
                               capture_output=True, text=True)
            if p.returncode != 0:
                return s, b, "skip", ""
        c = subprocess.run([PY, "-W", "ignore", "-m", "compileall", "-q",
                            os.path.join(tmp, "src", "saml2_tophat")],
                           capture_output=True, text=True)
        if c.returncode != 0:
            return s, b, "skip", ""
        env = dict(os.environ, VERIF_REPO=tmp, PYTHONDONTWRITEBYTECODE="1")
        rcs = {}
        for prop in props:
            r = subprocess.run([PY, "-W", "ignore", "-m", "sa.cli", prop,
                                "--no-write"], cwd=VERIF, env=env,
                               capture_output=True, text=True, timeout=600)
            rcs[prop] = r.returncode
        if any(v == 1 for v in rcs.values()):
            return s, b, "reported", str(rcs)
        return s, b, "MISSED", str(rcs)
    finally:
        shutil.rmtree(tmp, ignore_errors=True)


def main():
    ap = argparse.ArgumentParser()
    ap.add_argument("-k", default="")
    ap.add_argument("-j", type=int, default=8)
    a = ap.parse_args()
    ben = {os.path.basename(os.path.dirname(p)): files_of(p)
           for p in glob.glob(os.path.join(VERIF, "benign", "*", "patch.diff"))}
    todo = []
    for sp in sorted(glob.glob(os.path.join(VERIF, "seeded", "*", "patch.diff"))):
        s = os.path.basename(os.path.dirname(sp))
        if a.k and a.k not in s:
            continue
        meta = json.load(open(os.path.join(os.path.dirname(sp), "meta.json")))
        props = meta.get("detected_by") or [meta["property"]]
        sf = files_of(sp)
        for b, bf in sorted(ben.items()):
            if sf & bf:
                todo.append((s, b, props))
    stats = {}
    with ThreadPoolExecutor(a.j) as ex:
        for s, b, verdict, info in ex.map(run_one, todo):
            stats[verdict] = stats.get(verdict, 0) + 1
            if verdict == "MISSED":
                print("MISSED %s on top of %s %s" % (s, b, info))
    print("pairs: %s" % stats)
    return 1 if stats.get("MISSED") else 0


if __name__ == "__main__":
    sys.exit(main())
